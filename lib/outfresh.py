"""Output freshness of a `solve` body: does what a recomputation leaves in the output cell depend on what the PREVIOUS evaluation left there?

A function struct's output cell is allocated once (at compile time) and `solve` is run again on every re-evaluation of the plan.  The recomputation is a
function of the inputs only iff every read of the output cell that can influence what is written sees

  * a place the body (re)defined from its inputs earlier on every path to the read  ("fresh"), or
  * a place NO evaluation ever writes (the extent of a matrix that is never resized, the column kinds of an output table, ..: "invariant").

Everything else is a FEEDBACK read: evaluation k+1 reads what evaluation k wrote.  `FreshKernel` (the kernel evaluator of lib/kernel.py, extended additively:
conditional expressions have values, tuple results of helpers can be destructured, private helpers are read through their inlined bodies, locals that copy a
value out of a cell remember WHEN they were read) lists the effects of a body in evaluation order; `feedback_reads` classifies every read of the output
against the writes of the same body.  Three feedback idioms are decided to be harmless by construction and are reported as such (never silently):

  E1  conditional resize   `if n != extent(out) { out.resize(n, ..) }`        the extent is n afterwards on both paths
  E2  resize padding       `out.resize(n, out[0].clone())`                      the padding element of a resize
  E3  idempotent projection `P = match P { pat_i => ctor_i }` with f(f(x)) == f(x) for every arm, decided by closed evaluation of the arms on their own results

Places are identified by the FIELD the pointer / borrow was taken from (`self.<output field>`, the field `fn out()` returns), never by a local's name."""
import re
from lib.facts import is_node, path_of
from lib.kernel import Kernel, Unrecognised, Eff, NA_TO, show as _kshow, roots_in, root_of

# initialisers that give another NAME to a place (no value is read): `&mut *p`, `p.borrow_mut()`, `m.column_mut(j)`, ..
ALIAS_METHODS = {"as_ptr", "as_mut_ptr", "borrow", "borrow_mut", "as_mut", "as_ref", "deref", "deref_mut", "iter_mut", "iter", "column_mut", "row_mut", "rows_mut",
                 "columns_mut", "view_mut", "as_mut_slice", "as_slice", "get_mut", "index_mut", "column_iter_mut", "row_iter_mut", "column_iter", "row_iter", "column", "row",
                 "get_copyable_matrix", "try_borrow_mut", "unwrap", "expect", "enumerate", "zip"}
# access paths that do not leave the place (mirrors kernel.root_of)
TRANSPARENT = {".0", ".1", "as_mut_slice", "as_slice", "data", "as_mut", "column_mut", "row_mut", "view_mut", "rows_mut", "columns_mut"}
# mutators that REPLACE what they touch (no dependence on the previous content)
OVERWRITE_ALL = {"clear", "clone_from"}
OVERWRITE_ELEMS = {"fill", "copy_from", "clone_from_slice", "copy_from_slice", "fill_with"}
EXTENT_READS = {"len", "nrows", "ncols"}
EXTENT_CALLS = {"shape", "is_empty", "capacity"}
PURE_CTORS = {"drop", "Some", "Ok", "Err", "from", "into", "new"}


def show(v):
    """rendering of a value term for messages: places are spelt with the struct's FIELD names"""
    if isinstance(v, list):
        return ", ".join(show(x) for x in v)
    if isinstance(v, tuple) and v:
        t = v[0]
        if t == "at":
            return show(v[3])
        if t == "ite":
            return "if %s {%s} else {%s}" % (show(v[1]), show(v[2]), show(v[3]))
        if t == "match":
            return "match %s {%s}" % (show(v[1]), ", ".join(show(x) for x in v[2]))
        if t == "alt":
            return "{%s}" % " | ".join(show(x) for x in v[1])
        if t == "when":
            return "%s when %s" % (show(v[2]), " && ".join(show(c) for c in v[1]))
        if t == "proj":
            return "%s.%d" % (show(v[2]), v[1])
        if t in ("name", "const"):
            return str(v[1])
        if t == "copy" and len(v) == 2:
            return show(v[1])
        if t == "call" and len(v) == 4:
            if isinstance(v[1], str) and v[1].startswith(".") and not v[3]:
                return "%s%s" % (show(v[2]), v[1])
            if v[2] == ("unit",):
                return "%s(%s)" % (v[1], ", ".join(show(a) for a in v[3]))
            return "%s.%s(%s)" % (show(v[2]), v[1], ", ".join(show(a) for a in v[3]))
        if t == "op" and len(v) == 4:
            if v[1] == "matches":
                return "(%s matches ..)" % show(v[2])
            return "(%s %s %s)" % (show(v[2]), v[1], show(v[3]))
        if t == "un" and len(v) == 3:
            return "%s%s" % (v[1], show(v[2]))
        if t in ("len", "nrows", "ncols") and len(v) == 2:
            return "%s.%s()" % (show(v[1]), t)
        if t == "elem":
            return "%s[%s]" % (show(v[1]), ",".join(show(i) for i in v[2]))
        if t == "tuple":
            return "(%s)" % ", ".join(show(a) for a in v[1])
    return _kshow(v)


class FreshKernel(Kernel):
    """lib.kernel.Kernel plus: values of `if` / `match` expressions, destructuring of opaque tuple results, `return` inside an inlined helper, snapshots of
    values copied out of an output cell (`let n = out.len();` is read THERE, not where n is used), unknown statement-level method calls on an output cell."""

    def __init__(self, body, fields, outs=("out",), snapshots=True):
        self.outs = set(outs)
        self.snapshots = snapshots
        self.asts = {}
        self.ctxs = {}
        super().__init__(body, fields)

    # ---- bookkeeping
    def keep(self, node):
        n = len(self.asts) + 1
        self.asts[n] = node
        return n

    def ctx(self):
        n = len(self.ctxs) + 1
        self.ctxs[n] = (list(self.conds), list(self.loops))
        return n

    def snap(self, v):
        if isinstance(v, tuple) and v and v[0] == "tuple":
            return ("tuple", [self.snap(x) for x in v[1]])
        if isinstance(v, tuple) and v and v[0] in ("at", "counter", "closure"):
            return v
        if self.outs & roots_in(v):
            return ("at", len(self.effects), self.ctx(), v)
        return v

    @staticmethod
    def is_alias_init(init):
        while is_node(init) and init[0] in ("paren", "cast"):
            init = init[1]
        if not is_node(init):
            return True
        if init[0] in ("ref", "rawaddr", "path", "closure"):
            return True
        if init[0] in ("unsafe", "block") and init[1] and is_node(init[1][-1]) and init[1][-1][0] == "expr" and not init[1][-1][2]:
            return FreshKernel.is_alias_init(init[1][-1][1])
        if init[0] == "mcall" and init[2] in ALIAS_METHODS:
            return True
        return False

    # ---- statements
    def stmt(self, st, env):
        if st[0] == "let" and st[2] is not None and self.snapshots and not self.is_alias_init(st[2]):
            before = set(env)
            old = {k: env[k] for k in env}
            r = super().stmt(st, env)
            for name in _pat_names(st[1]):
                if name in env and (name not in before or env[name] is not old.get(name)):
                    env[name] = self.snap(env[name])
            return r
        if st[0] == "expr" and st[2] and is_node(st[1]) and st[1][0] == "mcall":
            n0 = len(self.effects)
            v = self.expr(st[1], env)
            if len(self.effects) == n0 and isinstance(v, tuple) and v and v[0] == "call" and not str(v[1]).startswith(".") and root_of(v[2]) in self.outs \
                    and place_path(v[2], self.outs) is not None:
                # `out.refresh(a, b);` - a method the analysis cannot look into, called for its effect on the output cell
                self.emit(("whole", v[2]), v, kind="opaque")
            return None
        return super().stmt(st, env)

    def item_of(self, coll, v):
        if isinstance(coll, tuple) and coll and coll[0] == "field":
            # `for e in &self.parts`: the elements of a container field of the struct
            return ("elem", ("root", coll[1]), (v,))
        return super().item_of(coll, v)

    def bind(self, pat, val, env, mutable=False):
        if pat[0] == "ptuple" and isinstance(val, tuple) and val and val[0] in ("call", "alt", "ite", "match", "at", "proj", "name", "when", "elem"):
            try:
                return super().bind(pat, val, env, mutable)     # (the shapes the kernel evaluator knows: `shape()`, a table's column map)
            except Unrecognised:
                pass
            # the tuple result of a helper / conditional, a tuple element of a container: component i of that value
            for i, p in enumerate(pat[1]):
                self.bind(p, ("proj", i, val), env, mutable)
            return
        return super().bind(pat, val, env, mutable)

    # ---- expressions
    def mcall(self, e, env):
        if e[2] == "out" and not e[4] and e[1] == ["path", "self"] and self.outs:
            # `self.out()` - the protocol accessor: the value the output cell holds now
            return ("call", "value", ("root", sorted(self.outs)[0]), [])
        m = e[2]
        if m.endswith("_to") and not (m in NA_TO and len(e[4]) == 2) and any(is_node(r) and r[0] == "ref" and r[1] for r in e[4]):
            # `a.op_to(&b, &mut out)`: out := op(a, b) - the operands are told from the destination by POSITION (`a.mul_to(&*out, &mut *out)` reads out)
            recv = self.expr(e[1], env)
            args = [self.expr(a, env) for a in e[4]]
            for j, raw in enumerate(e[4]):
                if is_node(raw) and raw[0] == "ref" and raw[1]:
                    self.emit(("whole", args[j]), ("call", m, recv, [b for i, b in enumerate(args) if i != j]))
            return ("call", m, recv, args)
        if m in ("resize_vertically", "resize_horizontally") and len(e[4]) == 2:
            # mech's own Matrix<T>::resize_*: the same effect as nalgebra's resize_*_mut
            recv = self.expr(e[1], env)
            args = [self.expr(a, env) for a in e[4]]
            self.resizes.append((m + "_mut", recv, args))
            self.emit(("whole", recv), ("call", m + "_mut", recv, args), kind="resize")
            return ("unit",)
        return super().mcall(e, env)

    def expr(self, e, env):
        if e is None:
            return ("unit",)
        t = e[0]
        if t == "if":
            c = self.expr(e[1], env)
            if self.snapshots:
                c = self.snap(c)        # the condition is read HERE, not where the effects it governs are
            self.conds.append(c)
            try:
                v1 = self.block(e[2], env)
            finally:
                self.conds.pop()
            v2 = ("unit",)
            if e[3] is not None:
                self.conds.append(("un", "!", c))
                try:
                    v2 = self.expr(e[3], env)
                finally:
                    self.conds.pop()
            if v1 is None:
                v1 = ("unit",)
            if v2 is None:
                v2 = ("unit",)
            if v1 == ("unit",) and v2 == ("unit",):
                return ("unit",)
            return ("ite", c, v1, v2, self.keep(e))
        if t == "letc":
            v = self.expr(e[2], env)
            return ("op", "matches", v, ("pat", self.keep(e[1])))
        if t == "match":
            s = self.expr(e[1], env)
            if self.snapshots:
                s = self.snap(s)
            vals = []
            mid = self.keep(e)
            for ai, arm in enumerate(e[2]):
                self.conds.append(("op", "matches", s, ("arm", mid, ai, len(e[2]))))
                env2 = dict(env)
                try:
                    self.bind_loose(arm[0], env2)
                    if arm[1] is not None:
                        g = self.expr(arm[1], env2)
                        self.conds.append(g)
                        try:
                            v = self.expr(arm[2], env2)
                        finally:
                            self.conds.pop()
                        v = ("when", [g], v)
                    else:
                        v = self.expr(arm[2], env2)
                finally:
                    self.conds.pop()
                vals.append(("unit",) if v is None else v)
            if all(v == ("unit",) for v in vals):
                return ("unit",)
            return ("match", s, vals, mid)
        if t == "block" and len(e) > 2 and isinstance(e[2], dict) and "inlined" in e[2]:
            # the body of a private helper (lib.synflow.Inliner): its `return`s are values of the call, not exits of solve
            n0 = len(self.effects)
            depth = len(self.conds)
            v = self.block(e[1], env)
            rets = [x for x in self.effects[n0:] if x.kind == "return" and not getattr(x, "of_helper", False)]
            if rets:
                # (the effects stay where they are: what decides whether the helper leaves early still decides what happens after it)
                for x in rets:
                    x.of_helper = True
                return ("alt", [("unit",) if v is None else v] + [("when", list(x.conds[depth:]), x.value) for x in rets])
            return ("unit",) if v is None else v
        if t == "call":
            v = super().expr(e, env)
            f = path_of(e[1])
            if f and isinstance(v, tuple) and v and v[0] == "call":
                ls = f.split("::")[-1]
                if ls not in PURE_CTORS and not ls[:1].isupper():
                    for raw, a in zip(e[2], v[3]):
                        if is_node(raw) and raw[0] in ("ref", "rawaddr") and not raw[1]:
                            continue        # handed over as `&x`: read only
                        # `&mut <place>` or a local that IS the pointer / borrow (`fill_in(out_ptr, ..)`); `*out_ptr` hands over a copy of the value
                        hands_over = is_node(raw) and ((raw[0] in ("ref", "rawaddr") and raw[1]) or (raw[0] == "path" and isinstance(a, tuple) and a and a[0] in ("root", "whole", "field")))
                        if hands_over and isinstance(a, tuple) and a and place_path(a, self.outs) is not None:
                            # a function the analysis cannot look into is handed (a part of) the output cell itself (`mem::swap(&mut out.set, ..)`, `fill_in(out, ..)`)
                            self.emit(("whole", a), v, kind="opaque")
            return v
        return super().expr(e, env)


def _pat_names(p):
    if not is_node(p):
        return
    if p[0] == "pident":
        yield p[1]
    for x in p[1:]:
        if isinstance(x, list):
            if is_node(x):
                yield from _pat_names(x)
            else:
                for y in x:
                    if isinstance(y, list):
                        yield from _pat_names(y)


# ------------------------------------------------------------------------------------------------------------------ places and reads
def place_path(v, outs):
    """path of an output place: () = the cell, ('.kind',) a field of it, (.., '[]') its elements; None when v is not a place of an output cell"""
    if not isinstance(v, tuple) or not v:
        return None
    t = v[0]
    if t == "root":
        return () if v[1] in outs else None
    if t == "field" and len(v) == 2:
        return () if v[1] in outs else None     # `&self.out` handed on as it is
    if t == "at":
        return place_path(v[3], outs)
    if t in ("column", "colkind") and len(v) == 3 and isinstance(v[1], str):
        # a column of a table's column map / its declared kind (lib.kernel names the owner by its rendering: `out..data()`)
        m = re.match(r"\w+", v[1])
        if m and m.group(0) in outs:
            return (".data", "[]") if t == "column" else (".data", "{kind}")
        return None
    if t == "copy" and len(v) == 2:
        return place_path(v[1], outs)
    if t == "call" and len(v) == 4:
        if isinstance(v[1], str) and v[1].startswith(".") and not v[3]:
            p = place_path(v[2], outs)
            return None if p is None else (p if v[1] in TRANSPARENT else p + (v[1],))
        if v[1] in TRANSPARENT:
            return place_path(v[2], outs)
        return None
    if t in ("elem", "whole"):
        p = place_path(v[1], outs)
        return None if p is None else (p if p[-1:] == ("[]",) else p + ("[]",))
    if t == "sub":
        p = place_path(v[2], outs)
        return None if p is None else (p if p[-1:] == ("[]",) else p + ("[]",))
    return None


def path_text(root, p):
    s = root
    for x in p:
        s += {"[]": "[..]", "#": ".len()"}.get(x, x)
    return s


class Read:
    def __init__(self, path, time, ctx, term, role):
        self.path, self.time, self.ctx, self.term, self.role = path, time, ctx, term, role


def reads_in(v, outs, time, ctx, role, out, as_place=False):
    """every read of an output place inside value term v.  `as_place`: v itself is written / iterated, only the indices inside it are read"""
    if isinstance(v, list):
        for x in v:
            reads_in(x, outs, time, ctx, role, out)
        return
    if not isinstance(v, tuple) or not v:
        return
    t = v[0]
    if not isinstance(t, str):
        for x in v:         # an untagged tuple of terms (the index list of an element)
            reads_in(x, outs, time, ctx, role, out)
        return
    if t == "at":
        reads_in(v[3], outs, v[1], v[2], role, out, as_place)
        return
    if t in ("closure", "const", "int", "name", "var", "counter", "unit", "field", "self"):
        return
    if t in EXTENT_READS and len(v) == 2:
        p = place_path(v[1], outs)
        if p is not None:
            base = p[:-1] if p[-1:] == ("[]",) and v[1][0] not in ("elem",) else p
            out.append(Read(base + ("#",), time, ctx, v, role))
            reads_in(v[1], outs, time, ctx, role, out, as_place=True)
            return
    if t == "call" and len(v) == 4 and v[1] in EXTENT_CALLS:
        p = place_path(v[2], outs)
        if p is not None:
            out.append(Read((p[:-1] if p[-1:] == ("[]",) else p) + ("#",), time, ctx, v, role))
            reads_in(v[2], outs, time, ctx, role, out, as_place=True)
            reads_in(v[3], outs, time, ctx, role, out)
            return
    if t in ("iter", "rows", "cols") and len(v) == 3:
        p = place_path(v[2], outs)
        if p is not None:
            out.append(Read((p[:-1] if p[-1:] == ("[]",) else p) + ("#",), time, ctx, v, role))
            reads_in(v[2], outs, time, ctx, role, out, as_place=True)
            return
    p = place_path(v, outs)
    if p is not None:
        if not as_place:
            out.append(Read(p, time, ctx, v, role))
        # indices inside the place are read
        if t in ("elem",):
            reads_in(v[1], outs, time, ctx, role, out, as_place=True)
            reads_in(list(v[2]), outs, time, ctx, role, out)
        elif t == "sub":
            reads_in(v[2], outs, time, ctx, role, out, as_place=True)
            reads_in(v[3], outs, time, ctx, role, out)
        elif t in ("whole", "copy"):
            reads_in(v[1], outs, time, ctx, role, out, as_place=True)
        elif t == "call":
            reads_in(v[2], outs, time, ctx, role, out, as_place=True)
        return
    if t == "call" and len(v) == 4:
        # a method of unknown meaning on an output place reads that place (`out.set.iter().next()`, `out.kind.is_set()`)
        q = place_path(v[2], outs)
        if q is not None:
            out.append(Read(q, time, ctx, v, role))
            reads_in(v[2], outs, time, ctx, role, out, as_place=True)
            reads_in(v[3], outs, time, ctx, role, out)
            return
    for x in v[1:]:
        if isinstance(x, (tuple, list)):
            reads_in(x, outs, time, ctx, role, out)


def prefix(a, b):
    return len(a) <= len(b) and b[:len(a)] == a


def overlaps(w, r):
    return prefix(w, r) or prefix(r, w)


def _strip_at(v):
    while isinstance(v, tuple) and v and v[0] == "at":
        v = v[3]
    return v


def _is_extent_of(v, x):
    v = _strip_at(v)
    return isinstance(v, tuple) and len(v) == 2 and v[0] in EXTENT_READS and _strip_at(v[1]) == _strip_at(x)


def conditional_resize(eff):
    """E1: `if n != extent(X) { X.resize(n, ..) }` -> the guarding condition, else None"""
    if eff.kind != "resize" or not eff.conds:
        return None
    c = _strip_at(eff.conds[-1])
    val = eff.value
    if not (isinstance(val, tuple) and val[0] == "call" and val[3]):
        return None
    x = val[2]
    if isinstance(c, tuple) and c[0] == "un" and c[1] == "!":
        inner = _strip_at(c[2])
        if isinstance(inner, tuple) and inner[0] == "op" and inner[1] == "==":
            c = ("op", "!=", inner[2], inner[3])
    if not (isinstance(c, tuple) and c[0] == "op" and c[1] == "!="):
        return None
    for n in val[3][:2]:
        for a, b in ((c[2], c[3]), (c[3], c[2])):
            if _strip_at(a) == _strip_at(n) and _is_extent_of(b, x):
                return eff.conds[-1]
    return None


class Finding:
    def __init__(self, kind, place, msg):
        self.kind, self.place, self.msg = kind, place, msg


class Freshness:
    """result of `feedback_reads`"""

    def __init__(self):
        self.problems = []      # Finding
        self.undecided = []     # str
        self.idioms = []        # (idiom id, place text)
        self.reads = 0          # reads of the output cell seen
        self.invariant = 0      # of them: places no evaluation writes
        self.fresh = 0          # of them: (re)defined earlier in the same evaluation
        self.feedback = 0       # of them: places an earlier evaluation wrote (harmless idiom or problem)


def write_paths(eff, outs):
    """output places an effect (re)writes: [(path, establishes_fresh_path_or_None, is_rmw)]"""
    res = []
    tg = eff.target
    if eff.kind == "write":
        p = place_path(tg, outs)
        if p is None:
            return res
        v = eff.value
        rmw = isinstance(v, tuple) and len(v) == 4 and v[0] == "op" and v[2] == tg
        if tg[0] == "elem" or tg[0] == "sub":
            res.append((p, None, rmw))
        else:
            res.append((p, p, rmw))
        return res
    if eff.kind in ("mutate", "resize", "inplace", "copy", "opaque"):
        x = tg[1] if isinstance(tg, tuple) and tg and tg[0] == "whole" else tg
        p = place_path(x, outs)
        if p is None:
            return res
        if p[-1:] == ("[]",) and not (isinstance(x, tuple) and x[0] in ("elem", "sub")):
            p = p[:-1]
        m = eff.value[1] if isinstance(eff.value, tuple) and len(eff.value) > 1 and eff.value[0] in ("call", "copy") else "?"
        if eff.kind == "mutate":
            if m in OVERWRITE_ALL:
                res.append((p, p, False))
            elif m in OVERWRITE_ELEMS:
                res.append((p + ("[]",), p + ("[]",), False))
            else:
                res.append((p, None, True))
        elif eff.kind == "resize":
            res.append((p + ("#",), p + ("#",), False))
            res.append((p + ("[]",), None, False))
        elif eff.kind == "copy":
            res.append((p + ("[]",), None, False))
        else:
            res.append((p, None, True))
    return res


def feedback_reads(k, outs, root_name=None):
    """classify every read of the output cell(s) `outs` in the evaluated kernel k (a FreshKernel)"""
    outs = set(outs)
    R = Freshness()
    name = root_name or (sorted(outs)[0] if outs else "out")
    effs = k.effects
    # ---- what any evaluation writes
    written = []
    for e in effs:
        for (p, _, _) in write_paths(e, outs):
            written.append(p)
    e1 = {}
    for i, e in enumerate(effs):
        c = conditional_resize(e)
        if c is not None:
            e1[i] = c
    fresh = []      # (path, conds, loops, time)

    def dominated(f, conds, loops):
        fc, fl = f[1], f[2]
        return len(fc) <= len(conds) and list(conds[:len(fc)]) == list(fc) and len(fl) <= len(loops) and list(loops[:len(fl)]) == list(fl)

    def is_fresh(r, conds, loops):
        return any(prefix(f[0], r.path) and f[3] < r.time and dominated(f, conds, loops) for f in fresh)

    STATE = ("write", "mutate", "resize", "inplace", "copy", "opaque", "return", "break", "continue", "local", "counter")
    seen = set()
    reported = set()
    for i, e in enumerate(effs):
        if e.kind not in STATE:
            continue
        rs = []
        tg = e.target
        wp = write_paths(e, outs)
        # reads in the value (the receiver of a mutator / resize is the place acted on, not an operand)
        v = e.value
        if e.kind in ("mutate", "resize", "inplace", "opaque") and isinstance(v, tuple) and len(v) == 4 and v[0] == "call":
            reads_in(v[2], outs, i, None, "value", rs, as_place=True)
            args = list(v[3])
            if e.kind == "resize" and len(args) >= 2 and v[1] in ("resize_vertically_mut", "resize_horizontally_mut", "resize_mut", "resize"):
                reads_in(args[:-1], outs, i, None, "value", rs)
                reads_in(args[-1], outs, i, None, "padding", rs)
            elif e.kind == "opaque":
                for a in args:      # the place handed to the callee is not a read made HERE
                    reads_in(a, outs, i, None, "value", rs, as_place=place_path(a, outs) is not None)
            else:
                reads_in(args, outs, i, None, "value", rs)
        elif e.kind == "copy" and isinstance(v, tuple):
            reads_in(list(v[2:]), outs, i, None, "value", rs)
        else:
            reads_in(v, outs, i, None, "value", rs)
        if isinstance(tg, tuple):
            reads_in(tg, outs, i, None, "value", rs, as_place=True)
        for c in e.conds:
            reads_in(c, outs, i, None, "cond", rs)
        for l in e.loops:
            reads_in(l, outs, i, None, "loop", rs)
        # a read-modify-write of a place reads it
        for (p, _, rmw) in wp:
            if rmw and e.kind not in ("write", "opaque"):       # (`out op= e` already reads its target in its value; an opaque callee is not decided)
                rs.append(Read(p, i, None, tg, "rmw"))
        stale_value = False
        for r in rs:
            conds, loops = (e.conds, e.loops) if r.ctx is None else k.ctxs[r.ctx]
            sig = (r.path, r.time, r.role, repr(r.term))
            first = sig not in seen
            seen.add(sig)
            if first:
                R.reads += 1
            if is_fresh(r, conds, loops):
                if first:
                    R.fresh += 1
                continue
            if not any(overlaps(w, r.path) for w in written):
                if first:
                    R.invariant += 1
                continue
            if first:
                R.feedback += 1
            place = path_text(name, r.path)
            # E1
            if r.role == "cond" and i in e1 and any(x is r.term or _strip_at(x) == r.term for x in _terms(e1[i])):
                if first:
                    R.idioms.append(("conditional-resize", place))
                continue
            if r.role == "padding":
                if first:
                    R.idioms.append(("resize-padding", place))
                continue
            # E3
            if e.kind == "write" and r.path == place_path(e.target, outs) and (
                    r.role == "value" or (r.role == "cond" and e.conds and any(x is r.term or x == r.term for x in _terms(e.conds[-1])))):
                verdict = projection(k, e, outs)
                if verdict is True:
                    if first:
                        R.idioms.append(("idempotent-projection", place))
                    continue
            if r.role in ("value", "rmw"):
                stale_value = True
            f = describe(e, r, place, name, outs)
            if (f.kind, f.place, f.msg) not in reported:
                reported.add((f.kind, f.place, f.msg))
                R.problems.append(f)
        # ---- what this effect defines for the rest of the evaluation
        conds = list(e.conds)
        if i in e1:
            conds = conds[:-1]
        for (p, fp, rmw) in wp:
            if e.kind == "opaque":
                # what the callee leaves there is not known: later reads of it are not decided (and are not reported)
                fresh.append((p, conds, list(e.loops), i))
                continue
            if stale_value or rmw:
                continue
            if fp is not None:
                fresh.append((fp, conds, list(e.loops), i))
                join_branches(fresh, fresh[-1])
            elif e.kind == "write" and p[-1:] == ("[]",):
                # an element-wise (re)definition inside a loop nest: the elements are taken to be defined once the loops are over (the loop is assumed to
                # cover what is read later - `for i { out[i] = a[i] } for i { out[i] = out[i] * b[i] }` is a two-pass recomputation)
                fresh.append((p, conds, [], i))
        if e.kind == "opaque":
            R.undecided.append("hands its output cell to `%s`, which the analysis cannot look into" % (v[1] if isinstance(v, tuple) and len(v) > 1 else "?"))
    return R


def analyse_solve(body, fields, outs, inliner=None, mod="", owner=""):
    """evaluate a solve body (statement list) and classify the reads of its own output.  Views tried in turn: private helpers inlined + snapshot locals,
    then plainer ones.  -> (FreshKernel, Freshness, "") or (None, None, why the body is not normalised)"""
    item = {"name": "solve", "mod": mod, "sig": {"inputs": [["self", "&self"]]}, "body": body, "self": owner, "k": "method"}
    why = ""
    for inlined, snaps in ((True, True), (False, True), (True, False), (False, False)):
        if inlined and inliner is None:
            continue
        try:
            view = inliner.view(item) if inlined else body
            k = FreshKernel(view, fields, outs, snapshots=snaps)
            return k, feedback_reads(k, outs, outs[0] if outs else "out"), ""
        except Unrecognised as e:
            why = why or str(e)
        except RecursionError:
            why = why or "recursion"
    return None, None, why


def _negation_of(a, b):
    a, b = _strip_at(a), _strip_at(b)
    return (isinstance(a, tuple) and len(a) == 3 and a[0] == "un" and a[1] == "!" and _strip_at(a[2]) == b) or \
           (isinstance(b, tuple) and len(b) == 3 and b[0] == "un" and b[1] == "!" and _strip_at(b[2]) == a)


def join_branches(fresh, f):
    """a place (re)defined under c and under !c (or in every arm of one match) is defined after the conditional"""
    path, conds, loops, t = f
    if not conds:
        return
    base, last = conds[:-1], conds[-1]
    for g in list(fresh):
        if g is f or len(g[1]) != len(conds) or list(g[1][:-1]) != list(base) or list(g[2]) != list(loops):
            continue
        if not (prefix(g[0], path) or prefix(path, g[0])):
            continue
        if _negation_of(g[1][-1], last):
            joined = (path if prefix(g[0], path) else g[0], list(base), list(loops), max(t, g[3]))
            fresh.append(joined)
            join_branches(fresh, joined)
            return
    m = _matches_of(last)
    if m is not None and not m[0] and m[2][0] == "arm":
        arms = {}
        for g in fresh:
            if len(g[1]) == len(conds) and list(g[1][:-1]) == list(base) and list(g[2]) == list(loops) and prefix(g[0], path):
                mm = _matches_of(g[1][-1])
                if mm is not None and not mm[0] and mm[2][0] == "arm" and mm[2][1] == m[2][1]:
                    arms[mm[2][2]] = max(arms.get(mm[2][2], 0), g[3])
        n_arms = m[2][3] if len(m[2]) > 3 else None
        if n_arms is not None and len(arms) == n_arms:
            joined = (path, list(base), list(loops), max(arms.values()))
            fresh.append(joined)
            join_branches(fresh, joined)


def _terms(v):
    yield v
    if isinstance(v, tuple):
        for x in v[1:]:
            if isinstance(x, (tuple, list)):
                yield from _terms(x)
    elif isinstance(v, list):
        for x in v:
            yield from _terms(x)


def describe(e, r, place, name, outs):
    what = {"cond": "decides", "loop": "bounds", "value": "computes", "rmw": "updates", "padding": "pads"}[r.role]
    if e.kind in ("return", "break", "continue"):
        tgt = "whether it leaves early (`%s`)" % e.kind
    elif e.kind in ("local", "counter"):
        tgt = "a running local"
    else:
        p = None
        for (wp, _, _) in write_paths(e, outs):
            p = wp
            break
        tgt = "`%s`" % path_text(name, p) if p is not None else "`%s`" % show(e.target)
    if r.role == "rmw":
        m = e.value[1] if e.kind != "write" and isinstance(e.value, tuple) and len(e.value) > 1 else "op="
        msg = "updates %s with `%s` starting from what the previous evaluation left there (nothing on the way to it redefines `%s` from the inputs)" % (tgt, m, place)
        kind = "update-of-previous"
    else:
        msg = "%s %s from `%s`, which still holds what the PREVIOUS evaluation wrote (read before this evaluation defines it; the same body writes it)" % (what, tgt, place)
        if e.kind == "write" and r.role in ("value", "cond"):
            msg += " [%s := %s%s]" % (tgt.strip("`"), show(e.value)[:160], (" if " + " && ".join(show(c) for c in e.conds)[:160]) if r.role == "cond" else "")
        kind = "read-of-previous"
    return Finding(kind, place, msg)


# ------------------------------------------------------------------------------------------------------------------ E3: idempotent projection
IDENTITY = ("id",)


def _ctor_name(p):
    return re.sub(r"\s", "", str(p)).split("::")[-1]


def ctor_term(v, binders):
    """closed constructor term of a result VALUE: ('c', name, [args]) / ('v', binder) / ('l', text); None when the value is not built from constructors,
    binders of the matched pattern and literals only (an input, a call, a read ..)"""
    v = _strip_at(v)
    if v is IDENTITY or v == IDENTITY:
        return IDENTITY
    if not isinstance(v, tuple) or not v:
        return None
    t = v[0]
    if t == "name":
        n = str(v[1])
        if "::" not in n and n in binders:
            return ("v", n)
        if _ctor_name(n)[:1].isupper():
            return ("c", _ctor_name(n), [])
        return None
    if t == "int":
        return ("l", str(v[1]))
    if t == "const":
        return ("l", str(v[1]))
    if t == "call" and len(v) == 4 and v[2] == ("unit",) and isinstance(v[1], str) and not v[1].startswith("struct ") and _ctor_name(v[1])[:1].isupper() \
            and "::new" not in v[1]:
        args = [ctor_term(a, binders) for a in v[3]]
        if any(a is None or a == IDENTITY for a in args):
            return None
        return ("c", _ctor_name(v[1]), args)
    if t == "tuple":
        args = [ctor_term(a, binders) for a in v[1]]
        if any(a is None or a == IDENTITY for a in args):
            return None
        return ("c", "()", args)
    return None


def pat_binders(p, out=None):
    out = set() if out is None else out
    if is_node(p):
        if p[0] == "pident" and (p[1][:1].islower() or p[1][:1] == "_"):
            out.add(p[1])
        for x in p[1:]:
            if isinstance(x, list):
                if is_node(x):
                    pat_binders(x, out)
                else:
                    for y in x:
                        if isinstance(y, list):
                            pat_binders(y, out)
    return out


def pat_match(p, t, b):
    """does pattern p match constructor term t?  True / False / None (depends on a value the term leaves open)"""
    if not is_node(p):
        return None
    k = p[0]
    if k == "pwild":
        return True
    if k == "ptype":
        return pat_match(p[1], t, b)
    if k == "pref":
        return pat_match(p[2], t, b)
    if k == "pident":
        if p[1][:1].islower() or p[1][:1] == "_":
            if p[4] is not None:
                r = pat_match(p[4], t, b)
                if r is not True:
                    return r
            b[p[1]] = t
            return True
        return pat_match(["ppath", p[1]], t, b)
    if k == "por":
        unknown = False
        for q in p[1]:
            r = pat_match(q, t, b)
            if r is True:
                return True
            if r is None:
                unknown = True
        return None if unknown else False
    if t[0] == "v":
        return None
    if k == "ppath":
        if t[0] != "c":
            return False
        return _ctor_name(p[1]) == t[1] and not t[2]
    if k == "pts":
        if t[0] != "c" or _ctor_name(p[1]) != t[1]:
            return False
        if len(p[2]) != len(t[2]):
            return None
        res = True
        for q, a in zip(p[2], t[2]):
            r = pat_match(q, a, b)
            if r is False:
                return False
            if r is None:
                res = None
        return res
    if k == "ptuple":
        if t[0] != "c" or t[1] != "()" or len(p[1]) != len(t[2]):
            return None
        res = True
        for q, a in zip(p[1], t[2]):
            r = pat_match(q, a, b)
            if r is False:
                return False
            if r is None:
                res = None
        return res
    if k == "plit":
        if t[0] == "l" and is_node(p[1]) and len(p[1]) > 1:
            return str(p[1][1]) == t[1]
        return None
    return None


def subst_term(t, b):
    if t[0] == "v":
        return b.get(t[1], t)
    if t[0] == "c":
        return ("c", t[1], [subst_term(a, b) for a in t[2]])
    return t


def arms_idempotent(arms):
    """arms = [(pattern, guarded?, result VALUE or IDENTITY)] of the mapping x -> match x { pattern_i => result_i }, first match wins.
    True when f(f(x)) == f(x) for every x, decided by evaluating the arms on their own results; None when that cannot be decided
    (a result that is not a closed constructor term, a guard, a result whose re-classification depends on a value left open)."""
    terms = []
    for (p, g, val) in arms:
        if g:
            return None
        t = ctor_term(val, pat_binders(p))
        if t is None:
            return None
        terms.append(t)
    for t in terms:
        if t == IDENTITY:
            continue        # f(x) = x on this arm
        hit = None
        for j, (p, g, val) in enumerate(arms):
            b = {}
            r = pat_match(p, t, b)
            if r is None:
                return None
            if r:
                hit = (j, b)
                break
        if hit is None:
            return None
        j, b = hit
        if terms[j] == IDENTITY:
            continue
        # the binders of arm j are bound to sub-terms of t (expressed in the binders of the arm that produced t): compare after instantiation
        if subst_term(terms[j], b) != t:
            return None
    return True


def _matches_of(c):
    """(negated?, scrutinee, pattern key) of a condition `s matches pat` / its negation, else None"""
    c = _strip_at(c)
    neg = False
    while isinstance(c, tuple) and len(c) == 3 and c[0] == "un" and c[1] == "!":
        neg = not neg
        c = _strip_at(c[2])
    if isinstance(c, tuple) and len(c) == 4 and c[0] == "op" and c[1] == "matches" and isinstance(c[3], tuple) and c[3] and c[3][0] in ("arm", "pat"):
        return neg, c[2], c[3]
    return None


def _eq_const_of(c, tgt, outs):
    """(negated?, constant constructor) of a condition `P == C` / `P != C` / `!(..)` where P is the place tgt, else None"""
    c = _strip_at(c)
    neg = False
    while isinstance(c, tuple) and len(c) == 3 and c[0] == "un" and c[1] == "!":
        neg = not neg
        c = _strip_at(c[2])
    if not (isinstance(c, tuple) and len(c) == 4 and c[0] == "op" and c[1] in ("==", "!=")):
        return None
    if c[1] == "!=":
        neg = not neg
    for a, b in ((c[2], c[3]), (c[3], c[2])):
        if place_path(_strip_at(a), outs) == tgt:
            t = ctor_term(b, set())
            if t is not None and t != IDENTITY and t[0] == "c" and not t[2]:
                return neg, t
    return None


def projection(k, eff, outs):
    """E3: the write `eff` is (one arm of) a mapping of an output place P onto itself by cases on P's own previous value -

         P = match P { pat_i => ctor_i }            P = if P == C { A } else { B }
         match P { pat_i => { P = ctor_i } }        if let pat = P { P = A } else { P = B }        if P == C { P = A }

    - whose results are closed constructor terms, and the mapping is idempotent.  True / None (not this shape, or not decided)."""
    tgt = place_path(eff.target, outs)
    if tgt is None:
        return None
    v = _strip_at(eff.value)
    # ---- expression forms
    if isinstance(v, tuple) and v and v[0] == "match":
        if place_path(_strip_at(v[1]), outs) != tgt or any(outs & roots_in(x) for x in v[2]):
            return None
        node = k.asts.get(v[3])
        if node is None or len(node[2]) != len(v[2]):
            return None
        arms = []
        for arm, val in zip(node[2], v[2]):
            guarded = arm[1] is not None
            arms.append((arm[0], guarded, val))
        return arms_idempotent(arms)
    if isinstance(v, tuple) and v and v[0] == "ite":
        if outs & roots_in(v[2]) or outs & roots_in(v[3]):
            return None
        m = _matches_of(v[1])
        if m is not None and m[2][0] == "pat" and place_path(_strip_at(m[1]), outs) == tgt:
            a, b = (v[3], v[2]) if m[0] else (v[2], v[3])
            return arms_idempotent([(k.asts[m[2][1]], False, a), (["pwild"], False, b)])
        q = _eq_const_of(v[1], tgt, outs)
        if q is not None:
            a, b = (v[3], v[2]) if q[0] else (v[2], v[3])
            return arms_idempotent([(["ppath", q[1][1]], False, a), (["pwild"], False, b)])
        return None
    # ---- statement forms: the sibling writes of P under the other outcomes of the same test
    if outs & roots_in(eff.value) or not eff.conds:
        return None
    last = eff.conds[-1]
    base = list(eff.conds[:-1])

    def siblings(same_test):
        res = []
        for e2 in k.effects:
            if e2.kind in ("write", "mutate", "resize", "inplace", "copy", "opaque") and e2.conds and list(e2.conds[:len(base)]) == base and len(e2.conds) > len(base) \
                    and same_test(e2.conds[len(base)]) is not None and any(overlaps(w, tgt) for (w, _, _) in write_paths(e2, outs)):
                if not (e2.kind == "write" and place_path(e2.target, outs) == tgt and len(e2.conds) == len(base) + 1 and not e2.loops and not (outs & roots_in(e2.value))):
                    return None     # P is also written in a way this shape does not cover
                res.append((same_test(e2.conds[len(base)]), e2))
        return res
    m = _matches_of(last)
    if m is not None and place_path(_strip_at(m[1]), outs) == tgt:
        key = m[2]
        if key[0] == "arm":
            node = k.asts.get(key[1])

            def same(c):
                mm = _matches_of(c)
                return mm[2][2] if mm is not None and not mm[0] and mm[2][0] == "arm" and mm[2][1] == key[1] else None
            sib = siblings(same)
            if sib is None or node is None:
                return None
            arms = []
            for ai, arm in enumerate(node[2]):
                ws = [e2 for (a, e2) in sib if a == ai]
                if len(ws) > 1:
                    return None
                arms.append((arm[0], arm[1] is not None, ws[0].value if ws else IDENTITY))
            return arms_idempotent(arms)

        def same(c):
            mm = _matches_of(c)
            return ("neg" if mm[0] else "pos") if mm is not None and mm[2] == key else None
        sib = siblings(same)
        if sib is None:
            return None
        pos = [e2 for (a, e2) in sib if a == "pos"]
        negs = [e2 for (a, e2) in sib if a == "neg"]
        if len(pos) > 1 or len(negs) > 1:
            return None
        return arms_idempotent([(k.asts[key[1]], False, pos[0].value if pos else IDENTITY), (["pwild"], False, negs[0].value if negs else IDENTITY)])
    q = _eq_const_of(last, tgt, outs)
    if q is not None:
        def same(c):
            qq = _eq_const_of(c, tgt, outs)
            return ("neg" if qq[0] else "pos") if qq is not None and qq[1] == q[1] else None
        sib = siblings(same)
        if sib is None:
            return None
        pos = [e2 for (a, e2) in sib if a == "pos"]
        negs = [e2 for (a, e2) in sib if a == "neg"]
        if len(pos) > 1 or len(negs) > 1:
            return None
        return arms_idempotent([(["ppath", q[1][1]], False, pos[0].value if pos else IDENTITY), (["pwild"], False, negs[0].value if negs else IDENTITY)])
    return None
