"""Role interpreter: a small abstract interpreter over the syn JSON AST of a function body.

Purpose: recognise a mechanism by WHAT flows WHERE, not by how the code is spelled.  A rule binds the parameters of the routine it
inspects to role atoms (by position / declared type), runs the body once, and reads the log:

  * every container (`Vec::new()`, `vec![..]`, `HashMap::new()`, `.collect()`) is an object with an identity (allocation site), the
    loops it was allocated in, and the list of things put into it (`push` / `insert` / `extend` / `collect`), each with the path
    condition and the loop nest under which it happens;
  * `for` loops, `while` loops and iterator pipelines (`iter().filter(..).map(..).collect()`, `for_each`, `extend`, `all` / `any`)
    are the same thing: a loop over a source with an element value and filter conditions;
  * calls to private helpers of the same crate are evaluated in place with the parameters bound to the arguments (any depth up to
    MAX_DEPTH), so a block moved into a helper - or a helper inlined - gives the same log; a rule can keep chosen callees opaque
    (`opaque(item) -> bool`) when their result is itself a role (e.g. "builds one output row");
  * a parameter bound to a constant (an enum variant, a bool) is propagated: `match mode {..}`, `matches!(mode, A | B)`,
    `if let A = mode`, flags such as `let keep = matches!(mode, ..)` and `&&` / `||` / `!` over them are decided, so the routine can be
    specialised per variant whatever the spelling of the case distinction is;
  * `if c { return / continue / break }` makes `!c` a fact for the rest of the block (guard clauses == nested ifs).

Values are hashable tuples:
  ("atom", name) ("const", path) ("bool", b) ("int", n) ("str", s) ("unit",)
  ("field", base, name) ("index", base, idx) ("tuple", (v..)) ("proj", v, i) ("payload", v) ("range", lo, hi, inclusive)
  ("obj", id) ("elem", src, loop_id) ("idx", loop_id)
  ("call", name, (args..)) ("m", recv, name, (args..)) ("ctor", name, (args..)) ("struct", name, ((field, v)..))
  ("bin", op, a, b) ("not", v) ("neg", v) ("opt", presence, payload) ("is", pattern_text, v)
  ("quant", "all"|"any", loop_id, body) ("iter", loop_id, elem, conds) ("closure", id) ("phi", (v..)) ("rets", ((v, ctx, loops)..)) ("unk", text)
"""
import re
from collections import defaultdict
from lib.facts import is_node, render, render_pat, strip_generics

MAX_DEPTH = 6
NODE_BUDGET = 400000

TRANSPARENT = {"clone", "cloned", "copied", "to_owned", "borrow", "borrow_mut", "as_ref", "as_mut", "deref", "deref_mut", "as_slice", "as_mut_slice", "to_vec",
               "into", "by_ref", "as_str", "unwrap", "expect", "as_deref", "into_boxed_slice", "peekable", "fuse", "unwrap_unchecked"}
ITER_SOURCES = {"iter", "iter_mut", "into_iter", "drain", "keys", "values", "values_mut", "into_keys", "into_values", "chars", "bytes", "lines"}
ITER_ORDER_ADAPTORS = {"skip", "take", "step_by", "rev", "skip_while", "take_while", "chain", "cycle", "zip", "flat_map", "flatten", "dedup", "chunks", "windows"}
ITER_ADAPTORS = {"map", "filter", "filter_map", "enumerate", "inspect", "for_each", "all", "any", "collect", "count", "find", "position", "fold", "sum", "last", "next", "nth",
                 "max", "min", "find_map", "try_for_each", "partition", "unzip", "max_by_key", "min_by_key"} | ITER_ORDER_ADAPTORS
COLLECTION_TYPES = {"Vec", "HashMap", "HashSet", "IndexMap", "IndexSet", "BTreeMap", "BTreeSet", "VecDeque", "String"}
ADD_METHODS = {"push", "push_back", "push_front", "insert", "push_str"}
UNIT = ("unit",)


class GiveUp(Exception):
    pass


def is_receiver(inp):
    """a `self` entry of sig.inputs (mechsyn writes ["self", "<tokens>"])"""
    return bool(inp) and inp[0] == "self"


def phi(vals):
    out = []
    for v in vals:
        if v is None:
            continue
        if v[0] == "phi":
            for x in v[1]:
                if x not in out:
                    out.append(x)
        elif v not in out:
            out.append(v)
    if not out:
        return UNIT
    if len(out) == 1:
        return out[0]
    if len(out) == 2:
        # a flag that starts as b and is set to !b in some iteration of a loop under conditions C says, after the loop: "C held in some iteration" (or its negation)
        for a, b in ((out[0], out[1]), (out[1], out[0])):
            if a[0] == "bool" and b[0] == "flag" and b[3] == (not a[1]):
                ex = ("exists", b[1], b[2])
                return ex if not a[1] else ("not", ex)
            if a == ("bool", False) and b[0] == "exists":
                return b
            if a == ("bool", True) and b[0] == "not" and b[1][0] == "exists":
                return b
    return ("phi", tuple(out))


def proj(v, i):
    if v[0] == "tuple" and isinstance(i, int) and i < len(v[1]):
        return v[1][i]
    if v[0] == "phi":
        return phi([proj(x, i) for x in v[1]])
    return ("proj", v, i)


def last2(path):
    segs = [s for s in strip_generics(path).replace(" ", "").split("::") if s]
    return tuple(segs[-2:])


def same_variant(a, b):
    """two enum paths denote the same variant (last segment, and the enum name when both give one)"""
    a, b = last2(a), last2(b)
    if not a or not b or a[-1] != b[-1]:
        return False
    if len(a) == 2 and len(b) == 2 and a[0] != b[0] and "Self" not in (a[0], b[0]):
        return False
    return True


class Interp:
    def __init__(self, items, opaque=None, self_type=None, module=None):
        self.items = items
        self.fns = defaultdict(list)
        for it in items:
            if it.get("k") in ("fn", "method") and it.get("body") is not None and it.get("name"):
                self.fns[it["name"]].append(it)
        self.consts = defaultdict(list)
        for it in items:
            if it.get("k") in ("const", "static") and it.get("name") not in (None, "_") and it.get("val") is not None:
                self.consts[it["name"]].append(it)
        self.opaque = opaque or (lambda it: False)
        self.events = []          # dicts: k (add|set|clear|call), obj, value, ctx, loops, how ...
        self.objs = {}            # id -> {kind, ctx, loops, init}
        self.loops = {}           # id -> {src, adapt, exits, frame, ctx, outer, kind}
        self.closures = {}
        self.structs = []         # (name, fields dict, ctx, loops)
        self.undecided = []       # things met that the interpreter does not model (text)
        self.n = 0
        self.budget = NODE_BUDGET
        self.env = [{}]
        self.ctx = []
        self.loopstack = []
        self.callstack = []
        self.cur_item = None
        self.inlined = []         # names of helper items evaluated in place

    # ------------------------------------------------------------------ infrastructure
    def fresh(self):
        self.n += 1
        return self.n

    def lookup(self, name):
        for fr in reversed(self.env):
            if name in fr:
                return fr[name]
        return None

    def assign(self, name, v):
        for fr in reversed(self.env):
            if name in fr:
                d = fr.get("\0d:" + name)
                old = fr[name]
                if d is not None and len(self.loopstack) > d and v[0] == "bool":
                    # a boolean flag declared outside the loop(s) we are in, set to a constant inside: remember under which conditions of which loop
                    start = old[1] if old[0] == "bool" else (not old[3]) if old[0] == "flag" else False if old[0] == "exists" else True if (old[0] == "not" and old[1][0] == "exists") else None
                    if start is not None and start != v[1]:
                        lid = self.loopstack[d]
                        n0 = len(self.loops[lid]["ctx"] or ())
                        v = ("flag", lid, tuple(self.ctx[n0:]), v[1])
                fr[name] = v
                return
        self.env[-1][name] = v

    def fork(self):
        return [dict(fr) for fr in self.env]

    @staticmethod
    def merge(a, b):
        out = []
        for fa, fb in zip(a, b):
            fr = {}
            for k in set(fa) | set(fb):
                if k in fa and k in fb:
                    fr[k] = fa[k] if (fa[k] == fb[k] or k[:1] == "\0") else phi([fa[k], fb[k]])
                else:
                    fr[k] = fa.get(k, fb.get(k))
            out.append(fr)
        return out

    def new_obj(self, kind, init=None):
        oid = self.fresh()
        self.objs[oid] = {"kind": kind, "ctx": tuple(self.ctx), "loops": tuple(self.loopstack), "init": init}
        return ("obj", oid)

    def new_loop(self, src, kind="for"):
        lid = self.fresh()
        self.loops[lid] = {"src": src, "adapt": [], "exits": [], "frame": len(self.callstack), "ctx": None, "outer": None, "kind": kind}
        return lid

    def enter_loop(self, lid):
        lp = self.loops[lid]
        if lp["ctx"] is None:
            lp["ctx"] = tuple(self.ctx)
            lp["outer"] = tuple(self.loopstack)
            lp["frame"] = len(self.callstack)
        self.loopstack.append(lid)

    def event(self, k, **kw):
        e = {"k": k, "ctx": tuple(self.ctx), "loops": tuple(self.loopstack)}
        e.update(kw)
        self.events.append(e)
        return e

    # ------------------------------------------------------------------ entry points
    def run_item(self, it, args, self_val=None):
        """evaluate the body of a fn / method item with its parameters bound to `args` (by position; `self` separately)"""
        if len(self.callstack) >= MAX_DEPTH:
            return None
        saved = (self.env, self.cur_item)
        self.env = [{}]
        self.cur_item = it
        if self_val is not None:
            self.env[0]["self"] = self_val
        for inp, a in zip([p for p in it["sig"]["inputs"] if not is_receiver(p)], args):
            self.bind(inp[0], a)
        frame = {"item": it, "rets": [], "ctx0": len(self.ctx), "loops0": len(self.loopstack)}
        self.callstack.append(frame)
        ctx0 = len(self.ctx)
        v, div = self.block(it["body"])
        if not div:
            frame["rets"].append((v, tuple(self.ctx[frame["ctx0"]:]), tuple(self.loopstack[frame["loops0"]:])))
        del self.ctx[ctx0:]
        self.callstack.pop()
        self.env, self.cur_item = saved
        rets = frame["rets"]
        if not rets:
            return ("unk", "never-returns")
        if len(rets) == 1:
            return rets[0][0]
        if all(r[0] == rets[0][0] for r in rets):
            return rets[0][0]
        return ("rets", tuple(rets))

    # ------------------------------------------------------------------ patterns
    def bind(self, pat, v):
        if not is_node(pat):
            return
        t = pat[0]
        if t == "pident":
            if pat[1][:1].isupper() and not pat[2] and not pat[3] and not pat[4]:
                return
            self.env[-1][pat[1]] = v
            self.env[-1]["\0d:" + pat[1]] = len(self.loopstack)
            if pat[4]:
                self.bind(pat[4], v)
        elif t == "ptype":
            self.bind(pat[1], v)
        elif t == "pref":
            self.bind(pat[2], v)
        elif t == "ptuple":
            k = 0
            for p in pat[1]:
                if is_node(p) and p[0] == "prest":
                    continue
                self.bind(p, proj(v, k))
                k += 1
        elif t == "pts":
            name = last2(pat[1])[-1]
            subs = pat[2]
            if v[0] == "ctor" and last2(v[1])[-1] == name and len(v[2]) == len(subs):
                for p, a in zip(subs, v[2]):
                    self.bind(p, a)
            elif v[0] == "opt" and name == "Some" and len(subs) == 1:
                self.bind(subs[0], v[2])
            elif len(subs) == 1:
                self.bind(subs[0], ("payload", v))
            else:
                for k, p in enumerate(subs):
                    self.bind(p, proj(("payload", v), k))
        elif t == "pstruct":
            for f in pat[2]:
                self.bind(f[1], ("field", v, f[0]))
        elif t == "pslice":
            for k, p in enumerate(pat[1]):
                self.bind(p, ("index", v, ("int", k)))
        elif t == "por":
            for p in pat[1]:
                self.bind(p, v)

    def pat_match(self, pat, v):
        """'yes' / 'no' / 'maybe': does value v match the pattern (decidable for constants)"""
        t = pat[0]
        if t in ("pwild", "pident"):
            if t == "pident" and pat[4]:
                return self.pat_match(pat[4], v)
            if t == "pident" and pat[1][:1].isupper() and not pat[2] and not pat[3]:
                # a bare upper-case identifier is a unit variant / constant brought in scope by `use Enum::*`, not a binding
                if v[0] == "const":
                    return "yes" if same_variant(pat[1], v[1]) else "no"
                if v[0] == "phi":
                    rs = {self.pat_match(pat, x) for x in v[1]}
                    return rs.pop() if len(rs) == 1 else "maybe"
                return "maybe"
            # an identifier pattern can also be a constant / unit variant in scope: treated as a binding (upper-case single idents are rare here)
            return "yes"
        if t in ("ptype",):
            return self.pat_match(pat[1], v)
        if t == "pref":
            return self.pat_match(pat[2], v)
        if t == "por":
            rs = [self.pat_match(p, v) for p in pat[1]]
            return "yes" if "yes" in rs else "no" if all(r == "no" for r in rs) else "maybe"
        if v[0] == "phi":
            rs = {self.pat_match(pat, x) for x in v[1]}
            return rs.pop() if len(rs) == 1 else "maybe"
        if t == "ppath":
            if v[0] == "const":
                return "yes" if same_variant(pat[1], v[1]) else "no"
            if v[0] == "opt" and last2(pat[1])[-1] == "None":
                return "no" if v[1] == ("bool", True) else "yes" if v[1] == ("bool", False) else "maybe"
            return "maybe"
        if t == "pts":
            if v[0] == "const":
                return "no"
            if v[0] == "ctor":
                if last2(v[1])[-1] != last2(pat[1])[-1]:
                    return "no"
                rs = [self.pat_match(p, a) for p, a in zip(pat[2], v[2])]
                return "yes" if all(r == "yes" for r in rs) else "no" if "no" in rs else "maybe"
            if v[0] == "opt" and last2(pat[1])[-1] == "Some":
                return "yes" if v[1] == ("bool", True) else "no" if v[1] == ("bool", False) else "maybe"
            return "maybe"
        if t == "ptuple":
            if v[0] == "tuple" and len(v[1]) == len(pat[1]):
                rs = [self.pat_match(p, a) for p, a in zip(pat[1], v[1])]
                return "yes" if all(r == "yes" for r in rs) else "no" if "no" in rs else "maybe"
            rs = [self.pat_match(p, proj(v, k)) for k, p in enumerate(pat[1])]
            return "yes" if all(r == "yes" for r in rs) else "maybe"
        if t == "plit":
            lit = self.expr(pat[1])
            if v[0] in ("bool", "int", "str") and lit[0] == v[0]:
                return "yes" if lit == v else "no"
            return "maybe"
        return "maybe"

    # ------------------------------------------------------------------ statements
    def block(self, stmts, frame=True):
        """-> (value of the tail expression, diverged)"""
        if frame:
            self.env.append({})
        ctx0 = len(self.ctx)
        val, div = UNIT, False
        for st in stmts or []:
            if not is_node(st):
                continue
            val = UNIT
            if st[0] == "let":
                if st[2] is not None:
                    v, d = self.expr2(st[2])
                    if d:
                        div = True
                        break
                    if len(st) > 3 and st[3] is not None:
                        # let-else: the else branch diverges; the pattern matched afterwards
                        self.bind(st[1], self.refine(st[1], v))
                    else:
                        self.bind(st[1], v)
                else:
                    self.bind(st[1], ("unk", "uninit"))
            elif st[0] == "expr":
                v, d = self.expr2(st[1])
                semi = len(st) > 2 and st[2]
                val = UNIT if semi else v
                if d:
                    div = True
                    break
            elif st[0] == "item":
                pass
            else:
                v, d = self.expr2(st)
                val = v
                if d:
                    div = True
                    break
        keep = self.ctx[ctx0:]
        del self.ctx[ctx0:]
        if frame:
            self.env.pop()
        # facts established by guard clauses of this block are only valid inside it
        return val, div

    def refine(self, pat, v):
        if pat[0] == "pts" and last2(pat[1])[-1] in ("Some", "Ok") and v[0] not in ("opt", "ctor"):
            return v
        return v

    # ------------------------------------------------------------------ expressions
    def expr(self, e):
        return self.expr2(e)[0]

    def expr2(self, e):
        """-> (value, diverged)"""
        self.budget -= 1
        if self.budget < 0:
            raise GiveUp("node budget exceeded")
        if not is_node(e):
            return UNIT, False
        m = getattr(self, "x_" + e[0], None)
        if m is None:
            # unknown node: evaluate the children for their effects
            for c in e[1:]:
                if is_node(c):
                    self.expr2(c)
            return ("unk", e[0]), False
        saved = (len(self.ctx), len(self.loopstack), len(self.env), len(self.callstack), self.cur_item)
        try:
            r = m(e)
        except (IndexError, TypeError, KeyError, ValueError, AttributeError) as ex:
            del self.ctx[saved[0]:]
            del self.loopstack[saved[1]:]
            if len(self.env) > saved[2]:
                del self.env[saved[2]:]
            del self.callstack[saved[3]:]
            self.cur_item = saved[4]
            # a syntax shape the interpreter does not model: the value is unknown, the analysis goes on (the rules fail closed on what they then miss)
            self.undecided.append("%s: %s" % (e[0], ex))
            return ("unk", e[0]), False
        if isinstance(r, tuple) and len(r) == 2 and isinstance(r[1], bool) and isinstance(r[0], tuple):
            return r
        return r, False

    def x_path(self, e):
        p = e[1]
        if "::" not in p:
            v = self.lookup(p)
            if v is not None:
                return v
            if p == "None":
                return ("opt", ("bool", False), UNIT)
            if p in ("true", "false"):
                return ("bool", p == "true")
            c = self.const_item(p)
            if c is not None:
                return c
            return ("const", p) if p[:1].isupper() else ("fnref", p)
        if last2(p)[-1] == "None" and "Option" in p or p.endswith("::None"):
            return ("opt", ("bool", False), UNIT)
        c = self.const_item(p)
        if c is not None:
            return c
        return ("const", strip_generics(p).replace(" ", ""))

    def const_item(self, p):
        """value of a crate-local `const` / `static` item named by path p (a named constant is the value it names)"""
        name = last2(p)[-1] if last2(p) else p
        cs = self.consts.get(name)
        if not cs:
            return None
        if len(cs) > 1:
            cur = self.cur_item or {}
            cs = [c for c in cs if c.get("mod") == cur.get("mod")] or cs
        if len(cs) != 1 or self.budget < 0:
            return None
        val = cs[0]["val"]
        if not is_node(val) or val[0] not in ("int", "bool", "str", "un", "bin", "path", "cast", "paren", "char"):
            return None
        saved = self.env
        self.env = [{}]
        try:
            v = self.expr(val)
        finally:
            self.env = saved
        return v if v[0] in ("int", "bool", "str", "const") else None

    def x_int(self, e):
        try:
            return ("int", int(e[1]))
        except ValueError:
            return ("unk", "int")

    def x_bool(self, e):
        return ("bool", bool(e[1]))

    def x_str(self, e):
        return ("str", e[1])

    def x_char(self, e):
        return ("str", e[1])

    def x_lit(self, e):
        return ("unk", "lit")

    def x_macro(self, e):
        return ("unk", "macro:" + str(e[1]))

    def x_ref(self, e):
        return self.expr2(e[2])

    def x_rawaddr(self, e):
        return self.expr2(e[2])

    def x_paren(self, e):
        return self.expr2(e[1])

    def x_cast(self, e):
        return self.expr2(e[1])

    def x_try(self, e):
        v, d = self.expr2(e[1])
        if v[0] == "ctor" and last2(v[1])[-1] in ("Ok", "Some") and len(v[2]) == 1:
            return v[2][0], d
        if v[0] == "opt":
            return v[2], d
        return v, d

    def x_un(self, e):
        v, d = self.expr2(e[2])
        if e[1] == "*":
            return v, d
        if e[1] == "!":
            return self.negate(v), d
        return ("neg", v), d

    def negate(self, v):
        if v[0] == "bool":
            return ("bool", not v[1])
        if v[0] == "not":
            return v[1]
        return ("not", v)

    def x_field(self, e):
        v, d = self.expr2(e[1])
        if v[0] == "tuple" and str(e[2]).isdigit():
            return proj(v, int(e[2])), d
        if str(e[2]).isdigit():
            return proj(v, int(e[2])), d
        if v[0] == "struct":
            for f, x in v[2]:
                if f == e[2]:
                    return x, d
        return ("field", v, e[2]), d

    def x_index(self, e):
        b = self.expr(e[1])
        i = self.expr(e[2])
        return ("index", b, i)

    def x_tuple(self, e):
        return ("tuple", tuple(self.expr(x) for x in e[1]))

    def x_array(self, e):
        o = self.new_obj("array")
        for x in e[1]:
            self.event("add", obj=o[1], value=self.expr(x), how="literal")
        return o

    def x_repeat(self, e):
        v = self.expr(e[1])
        n = self.expr(e[2])
        return self.new_obj("filled", init=(v, n))

    def x_range(self, e):
        lo = self.expr(e[1]) if e[1] is not None else ("unk", "open")
        hi = self.expr(e[2]) if e[2] is not None else ("unk", "open")
        return ("range", lo, hi, bool(e[3]))

    def x_struct(self, e):
        fields = tuple((f[0], self.expr(f[1])) for f in e[2])
        name = last2(e[1])[-1] if e[1] else "?"
        if name == "Self" and self.cur_item is not None and self.cur_item.get("self"):
            name = strip_generics(self.cur_item["self"]).split("::")[-1]
        self.structs.append({"name": name, "fields": dict(fields), "ctx": tuple(self.ctx), "loops": tuple(self.loopstack)})
        return ("struct", name, fields)

    def x_closure(self, e):
        cid = self.fresh()
        self.closures[cid] = (e[1], e[2], self.fork())
        return ("closure", cid)

    def apply(self, cl, args):
        """evaluate a closure value on argument values (in its defining environment, which shares the objects)"""
        if cl[0] != "closure":
            if cl[0] in ("const", "fnref"):
                # a function item used as a value: `map(make_row)`
                return self.call_path(cl[1], list(args), None)
            return ("call", "<fnvalue>", (cl,) + tuple(args))
        pats, body, env = self.closures[cl[1]]
        saved = self.env
        self.env = [dict(fr) for fr in env] + [{}]
        # assignments made by the closure to captured variables are not propagated back (only container effects are, through the log)
        for k, p in enumerate(pats):
            self.bind(p, args[k] if k < len(args) else ("unk", "arg"))
        # `return` inside a closure leaves the closure only
        frame = {"item": None, "rets": [], "ctx0": len(self.ctx), "loops0": len(self.loopstack), "closure": True}
        self.callstack.append(frame)
        ctx0 = len(self.ctx)
        if is_node(body) and body[0] == "block":
            v, div = self.block(body[1])
        else:
            v, div = self.expr2(body)
        if not div:
            frame["rets"].append((v, tuple(self.ctx[ctx0:]), tuple(self.loopstack[frame["loops0"]:])))
        del self.ctx[ctx0:]
        self.callstack.pop()
        self.env = saved
        rets = frame["rets"]
        if not rets:
            return ("unk", "never-returns")
        if len(rets) == 1 or all(r[0] == rets[0][0] for r in rets):
            return rets[0][0]
        return ("rets", tuple(rets))

    # ---- control flow
    def x_block(self, e):
        return self.block(e[1])

    def x_unsafe(self, e):
        return self.block(e[1])

    def x_async(self, e):
        return self.block(e[1])

    def x_ret(self, e):
        v = self.expr(e[1]) if e[1] is not None else UNIT
        fr = self.callstack[-1] if self.callstack else None
        if fr is not None:
            fr["rets"].append((v, tuple(self.ctx[fr["ctx0"]:]), tuple(self.loopstack[fr["loops0"]:])))
            for lid in self.loopstack[fr["loops0"]:]:
                self.loops[lid]["exits"].append(("return", tuple(self.ctx)))
        return UNIT, True

    def x_break(self, e):
        if self.loopstack:
            self.loops[self.loopstack[-1]]["exits"].append(("break", tuple(self.ctx)))
        return UNIT, True

    def x_continue(self, e):
        return UNIT, True

    def cond(self, c):
        """evaluate a condition; `let` conditions bind into the CURRENT top frame.  -> value"""
        if is_node(c) and c[0] == "letc":
            v = self.expr(c[2])
            r = self.pat_match(c[1], v)
            if v[0] == "opt" and is_node(c[1]) and c[1][0] == "pts" and last2(c[1][1])[-1] == "Some":
                self.bind(c[1], v)
                return v[1]
            self.bind(c[1], v)
            if r == "yes":
                return ("bool", True)
            if r == "no":
                return ("bool", False)
            return ("is", render_pat(self.erase_bindings(c[1])), v)
        if is_node(c) and c[0] == "bin" and c[1] == "&&":
            a = self.cond(c[2])
            if a == ("bool", False):
                return a
            b = self.cond(c[3])
            return self.conj(a, b)
        if is_node(c) and c[0] == "paren":
            return self.cond(c[1])
        return self.expr(c)

    def erase_bindings(self, pat):
        """pattern with binding names replaced by `_` (so that the condition text does not depend on local names)"""
        if not is_node(pat):
            return self._erase_list(pat) if isinstance(pat, list) else pat
        if pat[0] == "pident":
            return self.erase_bindings(pat[4]) if pat[4] else ["pwild"]
        return [self._erase_list(x) if isinstance(x, list) else x for x in pat]

    def _erase_list(self, x):
        if is_node(x):
            return self.erase_bindings(x)
        return [self._erase_list(y) if isinstance(y, list) else y for y in x]

    def conj(self, a, b):
        if a == ("bool", True):
            return b
        if b == ("bool", True):
            return a
        if a == ("bool", False) or b == ("bool", False):
            return ("bool", False)
        return ("bin", "&&", a, b)

    def disj(self, a, b):
        if a == ("bool", False):
            return b
        if b == ("bool", False):
            return a
        if a == ("bool", True) or b == ("bool", True):
            return ("bool", True)
        return ("bin", "||", a, b)

    def dead(self, c, pol):
        """adding (c, pol) to the current path condition contradicts a fact already on it: the branch cannot be reached"""
        have = set(flat_conds(self.ctx))
        for a, p in flat_conds([(c, pol)]):
            if (a, not p) in have:
                return True
            em = emptiness(a, p)
            if em is not None:
                for b, q in have:
                    em2 = emptiness(b, q)
                    if em2 is not None and em2[0] == em[0] and em2[1] != em[1]:
                        return True
        return False

    def x_if(self, e):
        self.env.append({})
        c = self.cond(e[1])
        if c[0] != "bool":
            if self.dead(c, True):
                c = ("bool", False)
            elif self.dead(c, False):
                c = ("bool", True)
        try:
            if c == ("bool", True):
                return self.block(e[2])
            if c == ("bool", False):
                if e[3] is None:
                    return UNIT, False
                return self.expr2(e[3])
            env0 = self.fork()
            n0 = len(self.ctx)
            self.ctx.append((c, True))
            v1, d1 = self.block(e[2])
            del self.ctx[n0:]
            env1 = self.env
            self.env = env0
            if e[3] is not None:
                self.ctx.append((c, False))
                v2, d2 = self.expr2(e[3])
                del self.ctx[n0:]
            else:
                v2, d2 = UNIT, False
            env2 = self.env
            if d1 and not d2:
                self.env = env2
                self.ctx.append((c, False))
                return v2, False
            if d2 and not d1:
                self.env = env1
                self.ctx.append((c, True))
                return v1, False
            self.env = self.merge(env1, env2)
            if v1 == v2:
                return v1, d1 and d2
            return ("ite", c, v1, v2) if not (d1 and d2) else UNIT, d1 and d2
        finally:
            self.env.pop()

    def x_letc(self, e):
        return self.cond(e)

    def x_match(self, e):
        s = self.expr(e[1])
        cands = []
        for arm in e[2]:
            r = self.pat_match(arm[0], s)
            if r == "no":
                continue
            cands.append((arm, r))
            if r == "yes" and arm[1] is None:
                break
        if not cands:
            return ("unk", "no-arm"), True
        if len(cands) == 1 and cands[0][1] == "yes" and cands[0][0][1] is None:
            arm = cands[0][0]
            self.env.append({})
            self.bind(arm[0], s)
            r = self.expr2(arm[2])
            self.env.pop()
            return r
        env0 = self.fork()
        envs, vals, divs = [], [], []
        negs = []
        for arm, r in cands:
            self.env = [dict(fr) for fr in env0]
            self.env.append({})
            self.bind(arm[0], s)
            n0 = len(self.ctx)
            for ng in negs:
                self.ctx.append((ng, False))
            c = self.arm_cond(arm[0], s)
            if arm[1] is not None:
                c = self.conj(c, self.cond(arm[1]))
            if c == ("bool", False) or (c != ("bool", True) and self.dead(c, True)):
                del self.ctx[n0:]
                self.env.pop()
                continue
            if c != ("bool", True):
                self.ctx.append((c, True))
            v, d = self.expr2(arm[2])
            del self.ctx[n0:]
            self.env.pop()
            if c != ("bool", True):
                negs.append(c)
            envs.append(self.env)
            vals.append(v)
            divs.append(d)
        live = [(en, v) for en, v, d in zip(envs, vals, divs) if not d]
        if not live:
            self.env = env0
            return UNIT, True
        env = live[0][0]
        for en, _ in live[1:]:
            env = self.merge(env, en)
        self.env = env
        return phi([v for _, v in live]), False

    def arm_cond(self, pat, s):
        """the condition under which value s matches the pattern, as a value: constants are decided, a tuple pattern is the conjunction of its
        components, a bool literal is the component itself (`match (mode, hits.is_empty()) { (Inner, true) => ..` == `if hits.is_empty()` for Inner)"""
        r = self.pat_match(pat, s)
        if r == "yes":
            return ("bool", True)
        if r == "no":
            return ("bool", False)
        t = pat[0]
        if t == "ptype":
            return self.arm_cond(pat[1], s)
        if t == "pref":
            return self.arm_cond(pat[2], s)
        if t == "pident" and pat[4]:
            return self.arm_cond(pat[4], s)
        if t == "ptuple" and not any(is_node(p) and p[0] == "prest" for p in pat[1]):
            c = ("bool", True)
            for k, p in enumerate(pat[1]):
                c = self.conj(c, self.arm_cond(p, proj(s, k)))
            return c
        if t == "por":
            c = ("bool", False)
            for p in pat[1]:
                c = self.disj(c, self.arm_cond(p, s))
            return c
        if t == "plit":
            lit = self.expr(pat[1])
            if lit[0] == "bool":
                return s if lit[1] else self.negate(s)
            return ("bin", "==", s, lit)
        if s[0] == "opt" and t == "pts" and last2(pat[1])[-1] == "Some":
            return s[1]
        if s[0] == "opt" and t == "ppath" and last2(pat[1])[-1] == "None":
            return self.negate(s[1])
        return ("is", render_pat(self.erase_bindings(pat)), s)

    def loop_over(self, src_val):
        """(loop id, element value, filter conditions) for iterating `src_val`"""
        if src_val[0] == "iter":
            return src_val[1], src_val[2], src_val[3]
        lid = self.new_loop(src_val)
        return lid, ("elem", src_val, lid), ()

    def run_loop(self, lid, conds, fn):
        env0 = self.fork()
        self.enter_loop(lid)
        if conds:
            self.loops[lid]["conds"] = tuple(conds)
        n0 = len(self.ctx)
        for c in conds:
            self.ctx.append(c)
        self.env.append({})
        try:
            r = fn()
        finally:
            self.env.pop()
            del self.ctx[n0:]
            self.loopstack.pop()
        self.env = self.merge(env0, self.env)
        return r

    def x_for(self, e):
        src = self.expr(e[2])
        if src[0] == "chain":
            for part in src[1]:
                lid, el, conds = self.loop_over(part)
                self.run_loop(lid, conds, lambda: (self.bind(e[1], el), self.block(e[3])))
            return UNIT, False
        lid, el, conds = self.loop_over(src)

        def body():
            self.bind(e[1], el)
            self.block(e[3])
        self.run_loop(lid, conds, body)
        return UNIT, False

    def counted_while(self, cond, body):
        """`let mut i = a; while i < n { ..; i += 1 }` and `let mut k = n; while k > 0 { ..; k -= 1 }` are the counted loops a..n / 0..n:
        -> the range value, or None.  The counter must be stepped by exactly one top-level `+= 1` / `-= 1` of the body and not written otherwise."""
        c = cond
        while is_node(c) and c[0] == "paren":
            c = c[1]
        if not (is_node(c) and c[0] == "bin" and c[1] in ("<", "<=", ">", ">=", "!=")):
            return None
        op, a, b = c[1], c[2], c[3]
        var = lambda x: x[1] if is_node(x) and x[0] == "path" and "::" not in x[1] and self.lookup(x[1]) is not None else None

        def steps(name):
            tops = [st[1] for st in body if is_node(st) and st[0] == "expr" and is_node(st[1]) and st[1][0] == "bin" and st[1][1] in ("+=", "-=")
                    and is_node(st[1][2]) and st[1][2][0] == "path" and st[1][2][1] == name]
            writes = 0
            stack = [body]
            while stack:
                x = stack.pop()
                if isinstance(x, list):
                    if is_node(x) and ((x[0] == "assign" and is_node(x[1]) and x[1][0] == "path" and x[1][1] == name) or
                                       (x[0] == "bin" and x[1].endswith("=") and x[1] not in ("==", "!=", "<=", ">=") and is_node(x[2]) and x[2][0] == "path" and x[2][1] == name)):
                        writes += 1
                    stack.extend(y for y in x if isinstance(y, list))
            if len(tops) == 1 and writes == 1 and is_node(tops[0][3]) and tops[0][3][0] == "int" and str(tops[0][3][1]) == "1":
                return tops[0][1]
            return None
        flip = {"<": ">", "<=": ">=", ">": "<", ">=": "<=", "!=": "!="}
        for x, y, o in ((a, b, op), (b, a, flip[op])):
            name = var(x)
            if name is None:
                continue
            st = steps(name)
            start = self.lookup(name)
            other = self.expr(y)
            if st == "+=" and o in ("<", "<=", "!="):
                return ("range", start, other, o == "<=")
            if st == "-=" and o in (">", "!=") and other == ("int", 0):
                return ("range", ("int", 0), start, False)
            if st == "-=" and o == ">=" and other == ("int", 1):
                return ("range", ("int", 0), start, False)
        return None

    def x_while(self, e):
        rng = self.counted_while(e[1], e[2]) if not (is_node(e[1]) and e[1][0] == "letc") else None
        lid = self.new_loop(("while",), kind="while")
        env0 = self.fork()
        self.enter_loop(lid)
        self.env.append({})
        c = self.cond(e[1])
        self.loops[lid]["src"] = rng if rng is not None else ("while", c)
        if rng is not None:
            self.loops[lid]["kind"] = "counted-while"
            c = ("bool", True)
        n0 = len(self.ctx)
        self.ctx.append((c, True))
        self.block(e[2])
        del self.ctx[n0:]
        self.env.pop()
        self.loopstack.pop()
        self.env = self.merge(env0, self.env)
        return UNIT, False

    def x_loop(self, e):
        lid = self.new_loop(("loop",), kind="loop")
        env0 = self.fork()
        self.enter_loop(lid)
        self.block(e[1])
        self.loopstack.pop()
        self.env = self.merge(env0, self.env)
        return UNIT, False

    # ---- operators
    def x_bin(self, e):
        op = e[1]
        if op == "&&" or op == "||":
            a = self.cond(e[2]) if op == "&&" else self.expr(e[2])
            if op == "&&" and a == ("bool", False):
                return a
            if op == "||" and a == ("bool", True):
                return a
            if a[0] != "bool":
                n0 = len(self.ctx)
                self.ctx.append((a, op == "&&"))
                b = self.cond(e[3]) if op == "&&" else self.expr(e[3])
                del self.ctx[n0:]
            else:
                b = self.cond(e[3]) if op == "&&" else self.expr(e[3])
            return self.conj(a, b) if op == "&&" else self.disj(a, b)
        if op.endswith("=") and op not in ("==", "!=", "<=", ">="):
            b = self.expr(e[3])
            cur = self.expr(e[2])
            self.store(e[2], ("bin", op[:-1], cur, b))
            return UNIT
        a = self.expr(e[2])
        b = self.expr(e[3])
        if op in ("==", "!=") and a[0] in ("bool", "int", "str") and a[0] == b[0]:
            return ("bool", (a == b) == (op == "=="))
        if op in ("==", "!=") and a[0] == "const" and b[0] == "const":
            return ("bool", same_variant(a[1], b[1]) == (op == "=="))
        if op in ("==", "!=") and b[0] == "bool":
            return a if (op == "==") == b[1] else self.negate(a)
        if a[0] == "int" and b[0] == "int" and op in ("+", "-", "*"):
            return ("int", a[1] + b[1] if op == "+" else a[1] - b[1] if op == "-" else a[1] * b[1])
        if a[0] == "int" and b[0] == "int" and op in ("<", "<=", ">", ">="):
            return ("bool", {"<": a[1] < b[1], "<=": a[1] <= b[1], ">": a[1] > b[1], ">=": a[1] >= b[1]}[op])
        return ("bin", op, a, b)

    def x_assign(self, e):
        v = self.expr(e[2])
        self.store(e[1], v)
        return UNIT

    def store(self, target, v):
        t = target
        while is_node(t) and (t[0] in ("paren",) or (t[0] == "un" and t[1] == "*")):
            t = t[1] if t[0] == "paren" else t[2]
        if is_node(t) and t[0] == "path" and "::" not in t[1]:
            cur = self.lookup(t[1])
            if cur is not None and cur[0] in ("index", "field") and target is not t:
                # `*slot = v` where slot aliases a place
                self.store_place(cur, v)
                return
            self.assign(t[1], v)
            return
        if is_node(t) and t[0] in ("index", "field"):
            self.store_place(self.expr(t), v)
            return
        if is_node(t) and t[0] == "tuple":
            for k, x in enumerate(t[1]):
                self.store(x, proj(v, k))

    def store_place(self, place, v):
        if place[0] == "index":
            self.event("set", target=place[1], index=place[2], value=v)
        elif place[0] == "field":
            self.event("setfield", target=place[1], field=place[2], value=v)

    # ---- calls
    def resolve(self, path, nargs, method=False, recv_self=False):
        """the crate-local fn / method item a call path denotes, or None"""
        segs = [s for s in strip_generics(path).replace(" ", "").split("::") if s]
        if not segs:
            return None
        name = segs[-1]
        cands = self.fns.get(name, [])
        if not cands:
            return None
        cur = self.cur_item or {}
        cur_self = strip_generics(cur.get("self") or "").split("::")[-1]
        if method:
            cs = [it for it in cands if it["k"] == "method" and it["sig"]["inputs"] and is_receiver(it["sig"]["inputs"][0])]
            if recv_self and cur_self:
                cs = [it for it in cs if strip_generics(it.get("self") or "").split("::")[-1] == cur_self]
            else:
                return None
        elif len(segs) >= 2 and segs[-2] not in ("crate", "self", "super") and segs[-2][:1].isupper():
            ty = cur_self if segs[-2] == "Self" else segs[-2]
            cs = [it for it in cands if it["k"] == "method" and strip_generics(it.get("self") or "").split("::")[-1] == ty]
        else:
            cs = [it for it in cands if it["k"] == "fn"]
            if len(cs) > 1 and len(segs) >= 2:
                cs2 = [it for it in cs if (it.get("mod") or "").split("::")[-1] == segs[-2]]
                cs = cs2 or cs
        if len(cs) > 1:
            same = [it for it in cs if it.get("mod") == cur.get("mod")]
            cs = same or cs
        if len(cs) > 1:
            cs = [it for it in cs if not it.get("trait")] or cs
        if len(cs) != 1:
            return None
        it = cs[0]
        n_in = len([p for p in it["sig"]["inputs"] if not is_receiver(p)])
        if n_in != nargs:
            return None
        return it

    def x_call(self, e):
        f = e[1]
        args = [self.expr(a) for a in e[2]]
        if is_node(f) and f[0] == "path":
            local = self.lookup(f[1]) if "::" not in f[1] else None
            if local is not None:
                return self.apply(local, args)
            return self.call_path(f[1], args, e)
        fv = self.expr(f)
        if fv[0] == "closure":
            return self.apply(fv, args)
        return ("call", "<expr>", (fv,) + tuple(args))

    def call_path(self, p, args, e):
        segs = [s for s in strip_generics(p).replace(" ", "").split("::") if s]
        name = segs[-1] if segs else p
        ty = segs[-2] if len(segs) >= 2 else ""
        if name in ("Some", "Ok", "Err", "Box", "Rc", "Arc") or (ty in ("Box", "Rc", "Arc", "Ref", "RefCell", "Cell") and name == "new"):
            if name == "Some" and len(args) == 1:
                return ("opt", ("bool", True), args[0])
            if name in ("Ok", "Err"):
                return ("ctor", name, tuple(args))
            return args[0] if len(args) == 1 else ("ctor", name, tuple(args))
        if ty in COLLECTION_TYPES and name in ("new", "with_capacity", "default", "with_capacity_and_hasher", "new_in"):
            return self.new_obj(ty)
        if name == "from_elem" and len(args) == 2:
            return self.new_obj("filled", init=(args[0], args[1]))
        if name in ("into_vec", "box_new", "box_assume_init_into_vec_unsafe", "write_box_via_move") and args:
            return args[-1] if name != "write_box_via_move" else args[-1]
        if name in ("from", "from_iter") and ty in COLLECTION_TYPES and len(args) == 1:
            return self.collect_from(args[0], ty)
        if name == "drop":
            return UNIT
        it = self.resolve(p, len(args))
        if it is not None and not self.opaque(it) and not any(fr.get("item") is it for fr in self.callstack) and len(self.callstack) < MAX_DEPTH:
            self.inlined.append(it["name"])
            r = self.run_item(it, args)
            if r is not None:
                return r
        if p[:1].isupper() or (len(segs) >= 2 and segs[-1][:1].isupper()):
            # tuple-struct / enum-variant constructor
            return ("ctor", "::".join(segs[-2:]), tuple(args))
        self.event("call", name=name, recv=None, args=tuple(args), item=it["name"] if it is not None else None)
        return ("call", name, tuple(args))

    def collect_from(self, v, kind="collect"):
        o = self.new_obj(kind)
        lid, el, conds = self.loop_over(v)
        self.enter_loop(lid)
        self.events.append({"k": "add", "obj": o[1], "value": el, "how": "collect", "ctx": tuple(self.ctx) + tuple(conds), "loops": tuple(self.loopstack)})
        self.loopstack.pop()
        return o

    def as_iter(self, v):
        if v[0] == "iter":
            return v
        lid = self.new_loop(v)
        return ("iter", lid, ("elem", v, lid), ())

    def x_mcall(self, e):
        name = e[2]
        recv = self.expr(e[1])
        raw_args = e[4]
        # ---- transparent adaptors
        if name in TRANSPARENT and len(raw_args) <= 1 and recv[0] != "iter":
            if name in ("unwrap", "expect") and recv[0] == "opt":
                return recv[2]
            if name in ("unwrap", "expect") and recv[0] == "ctor" and len(recv[2]) == 1:
                return recv[2][0]
            return recv
        if name in TRANSPARENT and recv[0] == "iter":
            return recv
        # ---- iterator sources and pipelines
        if name in ITER_SOURCES and recv[0] != "iter":
            it = self.as_iter(recv)
            if name in ("keys", "into_keys"):
                return ("iter", it[1], proj(it[2], 0), it[3])
            if name in ("values", "values_mut", "into_values"):
                return ("iter", it[1], proj(it[2], 1), it[3])
            if name == "drain":
                self.loops[it[1]]["adapt"].append("drain") if raw_args and render(raw_args[0]) != ".." else None
            return it
        if recv[0] == "chain" and name in ITER_ADAPTORS:
            return self.chain_method(recv, name, raw_args, e)
        is_iterish = recv[0] in ("iter", "range")
        if is_iterish and name in ITER_ADAPTORS:
            return self.iter_method(self.as_iter(recv), name, raw_args, e)
        args = [self.expr(a) for a in raw_args]
        # ---- containers
        if recv[0] == "obj":
            oid = recv[1]
            if name in ADD_METHODS:
                val = args[0] if len(args) == 1 else ("tuple", tuple(args))
                self.event("add", obj=oid, value=val, how=name)
                return UNIT
            if name in ("extend", "append", "extend_from_slice"):
                for src_ in (args[0][1] if args and args[0][0] == "chain" else args[:1]):
                    lid, el, conds = self.loop_over(src_)
                    self.enter_loop(lid)
                    self.events.append({"k": "add", "obj": oid, "value": el, "how": name, "ctx": tuple(self.ctx) + tuple(conds), "loops": tuple(self.loopstack)})
                    self.loopstack.pop()
                return UNIT
            if name in ("clear", "truncate"):
                self.event("clear", obj=oid)
                return UNIT
            if name in ("entry",) and args:
                return ("m", recv, "entry", tuple(args))
        if recv[0] == "m" and recv[2] == "entry" and recv[1][0] == "obj" and name in ("or_default", "or_insert", "or_insert_with"):
            # map.entry(k).or_default() -> a per-key bucket: modelled as an object owned by the map
            b = self.new_obj("bucket", init=(recv[1], recv[3]))
            self.event("add", obj=recv[1][1], value=("tuple", (recv[3][0] if recv[3] else UNIT, b)), how="entry")
            return b
        # ---- Option / Result combinators
        if name in ("map", "and_then", "filter", "map_or", "map_or_else", "unwrap_or", "unwrap_or_else", "unwrap_or_default", "ok_or", "ok_or_else", "is_some", "is_none",
                    "is_ok", "is_err", "ok", "err", "or", "or_else", "get_or_insert_with"):
            return self.option_method(recv, name, args)
        # ---- inherent methods of a crate-local enum called on a known variant (`mode.keeps_left()`): evaluated with self = the variant
        if recv[0] == "const" and len(last2(recv[1])) == 2:
            ty = last2(recv[1])[0]
            cs = [it for it in self.fns.get(name, []) if it["k"] == "method" and strip_generics(it.get("self") or "").split("::")[-1] == ty and not it.get("trait")
                  and it["sig"]["inputs"] and is_receiver(it["sig"]["inputs"][0]) and len(it["sig"]["inputs"]) - 1 == len(args)]
            if len(cs) == 1 and not self.opaque(cs[0]) and not any(fr.get("item") is cs[0] for fr in self.callstack) and len(self.callstack) < MAX_DEPTH:
                self.inlined.append(cs[0]["name"])
                r = self.run_item(cs[0], args, self_val=recv)
                if r is not None:
                    return r
        # ---- crate-local methods on self
        if recv == self.lookup("self") and recv is not None:
            it = self.resolve(name, len(args), method=True, recv_self=True)
            if it is not None and not self.opaque(it) and not any(fr.get("item") is it for fr in self.callstack) and len(self.callstack) < MAX_DEPTH:
                self.inlined.append(it["name"])
                r = self.run_item(it, args, self_val=recv)
                if r is not None:
                    return r
        # ---- everything else: opaque; closures passed are evaluated for their effects
        args2 = []
        for a in args:
            if a[0] == "closure":
                npar = len(self.closures[a[1]][0])
                args2.append(self.apply(a, [("payload", recv)] * npar))
            else:
                args2.append(a)
        self.event("call", name=name, recv=recv, args=tuple(args2), item=None)
        return ("m", recv, name, tuple(args2))

    def chain_method(self, ch, name, raw_args, e):
        parts = list(ch[1])
        if name in ("collect", "partition", "unzip"):
            o = None
            for part in parts:
                r = self.iter_method(part, "collect", raw_args, e)
                if o is None:
                    o = r
                else:
                    # same container: re-target the adds of the later parts
                    for ev in self.events:
                        if ev["k"] == "add" and ev["obj"] == r[1]:
                            ev["obj"] = o[1]
                    del self.objs[r[1]]
            return o
        if name in ("for_each", "try_for_each"):
            for part in parts:
                self.iter_method(part, name, raw_args, e)
            return UNIT
        if name in ("all", "any"):
            out = None
            for part in parts:
                q = self.iter_method(part, name, raw_args, e)
                out = q if out is None else (self.conj(out, q) if name == "all" else self.disj(out, q))
            return out
        if name in ("map", "filter", "filter_map", "inspect", "chain") or name in TRANSPARENT:
            if name == "chain":
                args = [self.expr(a) for a in raw_args]
                more = args[0] if args and args[0][0] == "chain" else ("chain", (self.as_iter(args[0]),)) if args else ("chain", ())
                return ("chain", ch[1] + more[1])
            return ("chain", tuple(self.iter_method(part, name, raw_args, e) for part in parts))
        if name == "enumerate" or name in ITER_ORDER_ADAPTORS:
            for part in parts:
                self.loops[part[1]]["adapt"].append(name + "-after-chain")
            return ch
        args = [self.expr(a) for a in raw_args]
        self.event("call", name=name, recv=ch, args=tuple(a for a in args if a[0] != "closure"), item=None)
        return ("m", ch, name, tuple(a for a in args if a[0] != "closure"))

    def option_method(self, recv, name, args):
        pres = recv[1] if recv[0] == "opt" else ("is", "Some(_)", recv)
        pay = recv[2] if recv[0] == "opt" else ("payload", recv)

        def ap(a, *xs):
            return self.apply(a, list(xs)) if a[0] == "closure" else a
        if name == "map" and args:
            n0 = len(self.ctx)
            self.ctx.append((pres, True))
            v = self.apply(args[0], [pay])
            del self.ctx[n0:]
            return ("opt", pres, v)
        if name == "and_then" and args:
            n0 = len(self.ctx)
            self.ctx.append((pres, True))
            v = self.apply(args[0], [pay])
            del self.ctx[n0:]
            if v[0] == "opt":
                return ("opt", self.conj(pres, v[1]), v[2])
            return ("opt", self.conj(pres, ("is", "Some(_)", v)), ("payload", v))
        if name == "filter" and args:
            n0 = len(self.ctx)
            self.ctx.append((pres, True))
            c = ap(args[0], pay)
            del self.ctx[n0:]
            return ("opt", self.conj(pres, c), pay)
        if name in ("is_some", "is_ok"):
            return pres
        if name in ("is_none", "is_err"):
            return self.negate(pres)
        if name in ("ok", "err", "ok_or", "ok_or_else"):
            return recv
        if name in ("unwrap_or", "unwrap_or_else", "unwrap_or_default", "map_or", "map_or_else", "or", "or_else", "get_or_insert_with"):
            if pres == ("bool", True) and name.startswith("unwrap_or"):
                return pay
            alt = [ap(a, pay) for a in args]
            if name in ("map_or", "map_or_else") and len(args) == 2:
                return ("ite", pres, alt[1], alt[0])
            return ("ite", pres, pay, alt[0] if alt else ("unk", "default"))
        return ("m", recv, name, tuple(args))

    def iter_method(self, it, name, raw_args, e):
        lid, el, conds = it[1], it[2], it[3]
        lp = self.loops[lid]

        def with_loop(fn):
            return self.run_loop(lid, conds, fn)
        if name in ITER_ORDER_ADAPTORS:
            args = [self.expr(a) for a in raw_args]
            lp["adapt"].append(name)
            if name == "zip" and args:
                other = self.as_iter(args[0]) if args[0][0] != "closure" else None
                if other is not None:
                    lp.setdefault("zip", []).append(self.loops[other[1]]["src"])
                    return ("iter", lid, ("tuple", (el, other[2])), conds + other[3])
            if name == "chain" and args and args[0][0] != "closure":
                # a.chain(b): two traversals, one after the other, feeding the same consumer
                lp["adapt"].remove("chain")
                second = args[0] if args[0][0] == "chain" else ("chain", (self.as_iter(args[0]),))
                return ("chain", (it,) + second[1])
            if name in ("skip_while", "take_while", "flat_map") and args and args[0][0] == "closure":
                r = with_loop(lambda: self.apply(args[0], [el]))
                if name == "flat_map":
                    return ("iter", lid, ("elem", r, lid), conds)
            if name == "flatten":
                return ("iter", lid, ("elem", el, lid), conds)
            return it
        if name == "enumerate":
            return ("iter", lid, ("tuple", (("idx", lid), el)), conds)
        if name == "inspect":
            return it
        cl = self.expr(raw_args[0]) if raw_args else None
        if name == "map":
            v = with_loop(lambda: self.apply(cl, [el]))
            return ("iter", lid, v, conds)
        if name == "filter":
            c = with_loop(lambda: self.apply(cl, [el]))
            if c == ("bool", True):
                return it
            return ("iter", lid, el, conds + ((c, True),))
        if name in ("filter_map", "find_map") and name == "filter_map":
            r = with_loop(lambda: self.apply(cl, [el]))
            if r[0] == "opt":
                extra = () if r[1] == ("bool", True) else ((r[1], True),)
                return ("iter", lid, r[2], conds + extra)
            return ("iter", lid, ("payload", r), conds + ((("is", "Some(_)", r), True),))
        if name in ("for_each", "try_for_each"):
            with_loop(lambda: self.apply(cl, [el]))
            return UNIT
        if name in ("all", "any"):
            body = with_loop(lambda: self.apply(cl, [el]))
            return ("quant", name, lid, body, conds)
        if name == "collect" or name in ("partition", "unzip"):
            kind = "collect"
            tf = e[3] or ""
            m = re.search(r"(Vec|HashMap|HashSet|IndexMap|IndexSet|BTreeMap|BTreeSet|VecDeque|String|Result|Option)", tf)
            if m:
                kind = m.group(1)
            o = self.new_obj(kind)

            def add():
                self.event("add", obj=o[1], value=el, how="collect")
            with_loop(add)
            return o
        if name == "count":
            return ("m", ("iter", lid, el, conds), "count", ())
        # find / position / fold / sum / last / next / nth / max / min ...: position- or accumulation-sensitive, kept opaque
        args = []
        for a in raw_args:
            v = self.expr(a)
            if v[0] == "closure":
                npar = len(self.closures[v[1]][0])
                v = with_loop(lambda: self.apply(v, [el] * npar))
            args.append(v)
        self.event("call", name=name, recv=it, args=tuple(args), item=None)
        return ("m", it, name, tuple(args))


# ---------------------------------------------------------------------- queries over values / logs
def subvalues(v, seen=None):
    """every value nested in v (pre-order), v included"""
    st = [v]
    while st:
        x = st.pop()
        if not isinstance(x, tuple):
            continue
        if x and isinstance(x[0], str):
            yield x
            for y in x[1:]:
                if isinstance(y, tuple):
                    st.append(y)
        else:
            for y in x:
                if isinstance(y, tuple):
                    st.append(y)


def atoms_in(v):
    return {x[1] for x in subvalues(v) if x[0] == "atom"}


def flat_conds(ctx):
    """flatten a path condition into atomic (value, polarity) pairs: `!`, `&&` under true, `||` under false are split"""
    out = []
    todo = list(ctx)
    while todo:
        c, pol = todo.pop()
        if c[0] == "not":
            todo.append((c[1], not pol))
        elif c[0] == "bin" and c[1] == "&&" and pol:
            todo += [(c[2], True), (c[3], True)]
        elif c[0] == "bin" and c[1] == "||" and not pol:
            todo += [(c[2], False), (c[3], False)]
        elif c[0] == "bool":
            continue
        else:
            out.append((c, pol))
    return out


def emptiness(c, pol):
    """if (c, pol) states that a container is empty / non-empty: (container value, is_empty) else None.
    Recognised: x.is_empty(), x.len() == 0, x.len() != 0, x.len() > 0, x.len() >= 1, x.len() < 1, 0 == x.len() ..."""
    if c[0] == "m" and c[2] == "is_empty":
        return c[1], pol
    if c[0] == "bin" and c[1] in ("==", "!=", ">", ">=", "<", "<="):
        op, a, b = c[1], c[2], c[3]
        flip = {"<": ">", "<=": ">=", ">": "<", ">=": "<=", "==": "==", "!=": "!="}
        if a[0] == "int":
            a, b, op = b, a, flip[op]
        if b[0] == "int" and a[0] == "m" and a[2] in ("len", "count"):
            n = b[1]
            table = {("==", 0): True, ("!=", 0): False, (">", 0): False, (">=", 1): False, ("<", 1): True, ("<=", 0): True}
            if (op, n) in table:
                e = table[(op, n)]
                return a[1], e if pol else not e
    return None


def show(v, depth=0):
    """compact rendering of a value for messages (no local names survive: values are roles)"""
    if not isinstance(v, tuple) or not v:
        return str(v)
    t = v[0]
    if depth > 6:
        return "..."
    if not isinstance(t, str):
        return "(%s)" % ", ".join(show(x, depth + 1) for x in v)
    s = lambda x: show(x, depth + 1)
    if t == "atom":
        return v[1]
    if t == "const":
        return v[1]
    if t in ("bool", "int", "str"):
        return str(v[1]).lower() if t == "bool" else str(v[1])
    if t == "unit":
        return "()"
    if t == "field":
        return "%s.%s" % (s(v[1]), v[2])
    if t == "index":
        return "%s[%s]" % (s(v[1]), s(v[2]))
    if t == "tuple":
        return "(%s)" % ", ".join(s(x) for x in v[1])
    if t == "proj":
        return "%s.%s" % (s(v[1]), v[2])
    if t == "payload":
        return "some(%s)" % s(v[1])
    if t == "range":
        return "%s..%s%s" % (s(v[1]), "=" if v[3] else "", s(v[2]))
    if t == "obj":
        return "#%d" % v[1]
    if t == "elem":
        return "each(%s)" % s(v[1])
    if t == "idx":
        return "i%d" % v[1]
    if t == "call":
        return "%s(%s)" % (v[1], ", ".join(s(x) for x in v[2]))
    if t == "m":
        return "%s.%s(%s)" % (s(v[1]), v[2], ", ".join(s(x) for x in v[3]))
    if t == "ctor":
        return "%s(%s)" % (v[1], ", ".join(s(x) for x in v[2]))
    if t == "struct":
        return "%s{..}" % v[1]
    if t == "bin":
        return "(%s %s %s)" % (s(v[2]), v[1], s(v[3]))
    if t == "not":
        return "!%s" % s(v[1])
    if t == "neg":
        return "-%s" % s(v[1])
    if t == "opt":
        return "opt(%s)" % s(v[2])
    if t == "is":
        return "%s is %s" % (s(v[2]), v[1])
    if t == "quant":
        return "%s(%s)" % (v[1], s(v[3]))
    if t == "iter":
        return "iter(%s)" % s(v[2])
    if t == "phi":
        return "phi(%s)" % " | ".join(s(x) for x in v[1])
    if t == "exists":
        return "some-iteration(%s)" % " && ".join(("" if p else "!") + s(c) for c, p in v[2])
    if t == "flag":
        return "flag"
    if t == "ite":
        return "if %s {%s} else {%s}" % (s(v[1]), s(v[2]), s(v[3]))
    if t == "rets":
        return "rets(%s)" % " | ".join(s(r[0]) for r in v[1])
    return "<%s>" % t


def contents(I, oid, _seen=None):
    """what an object holds: [{value, ctx, loops, how}] for every element ever put into it.  An element that is itself `each element of
    another container` (extend / append / collect of a whole container) is replaced by that container's contents, conditions and loops combined."""
    seen = set(_seen or ())
    if oid in seen:
        return []
    seen.add(oid)
    out = []
    for e in I.events:
        if e["k"] != "add" or e["obj"] != oid:
            continue
        v = e["value"]
        if v[0] == "elem" and v[1][0] == "obj" and v[2] in e["loops"]:
            inner = contents(I, v[1][1], seen)
            rest = tuple(l for l in e["loops"] if l != v[2])
            for x in inner:
                out.append({"value": x["value"], "ctx": tuple(x["ctx"]) + tuple(e["ctx"]), "loops": tuple(x["loops"]) + rest, "how": x["how"], "via": oid})
            continue
        out.append({"value": v, "ctx": e["ctx"], "loops": e["loops"], "how": e["how"]})
    return out


LOOKUPS = {"get", "get_mut", "remove", "get_key_value", "first", "last", "pop", "index", "get_index", "get_full", "swap_remove", "shift_remove",
           "find", "nth", "next", "max", "min", "max_by_key", "min_by_key", "take", "peek"}


def origin_values(I, v, _seen=None):
    """values a value is MADE OF: like subvalues, but a lookup `m.get(k)` derives from what m holds (not from the key k), and a container
    stands for everything put into it"""
    seen = _seen if _seen is not None else set()
    st = [v]
    while st:
        x = st.pop()
        if not isinstance(x, tuple) or not x:
            continue
        if not isinstance(x[0], str):
            st.extend(y for y in x if isinstance(y, tuple))
            continue
        if x in seen:
            continue
        seen.add(x)
        yield x
        if x[0] == "m" and x[2] in LOOKUPS:
            st.append(x[1])
        elif x[0] == "index":
            st.append(x[1])
        elif x[0] == "obj":
            for c in contents(I, x[1]):
                st.append(c["value"])
        else:
            st.extend(y for y in x[1:] if isinstance(y, tuple))


def deep_values(I, v):
    """subvalues of v, containers expanded to their contents (keys of lookups included)"""
    seen = set()
    st = [v]
    while st:
        x = st.pop()
        if not isinstance(x, tuple) or not x:
            continue
        if not isinstance(x[0], str):
            st.extend(y for y in x if isinstance(y, tuple))
            continue
        if x in seen:
            continue
        seen.add(x)
        yield x
        if x[0] == "obj":
            for c in contents(I, x[1]):
                st.append(c["value"])
        st.extend(y for y in x[1:] if isinstance(y, tuple))


def loop_is_plain(I, lid):
    """the loop visits every element of its source once, in order: no skip / take / rev / step_by / zip ..., and is never left early"""
    lp = I.loops[lid]
    return not lp["adapt"] and not lp["exits"]


def param_indices(it, type_rx):
    """positions (among the non-receiver parameters) whose declared type matches type_rx"""
    out = []
    k = 0
    for inp in it["sig"]["inputs"]:
        if is_receiver(inp):
            continue
        if re.search(type_rx, (inp[1] or "").replace(" ", "")):
            out.append(k)
        k += 1
    return out


def zip_same_length(I, lid):
    """every `zip` partner of the loop is, by construction, exactly as long as the loop's own source (`vec![x; src.len()]`): the zip truncates nothing"""
    lp = I.loops[lid]
    src = lp["src"]
    for other in lp.get("zip", []):
        if not (other[0] == "obj" and I.objs[other[1]]["kind"] == "filled" and I.objs[other[1]]["init"] and I.objs[other[1]]["init"][1] == ("m", src, "len", ())
                and not any(e["k"] in ("add", "clear") and e["obj"] == other[1] for e in I.events)):
            return False
    return True
