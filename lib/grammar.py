"""Grammar skeletons of the nom-style parser functions of mech_syntax (from the syntax tree of the expanded crate).

A parser function is read as a sequence of steps `let (input, PAT) = COMBINATOR(input)?;` followed by `Ok((input, RESULT))`.
Each step becomes (bound variables, grammar term).  Grammar terms:
  ("nt", name) ("lit", text) ("opt", t) ("star", t) ("plus", t) ("sep", sep, elem) ("seq", [t]) ("alt", [t]) ("empty",) ("unk", text)
`lang(term)` is the finite set of texts a token-like term accepts (whitespace parsers accept "" for this purpose), or None.
"""
import re
from lib.facts import find, walk, is_node, path_of, render, render_pat, last_seg

WS = {"whitespace", "whitespace0", "whitespace1", "space", "space_tab", "space_tab0", "space_tab1", "ws0", "ws1", "ws0e", "ws1e", "list_separator_ws",
      "tab", "new_line", "newline", "skip_nil", "skip_spaces", "blank_line", "empty_line", "box_drawing_char", "box_drawing_emoji", "skip_empty_mech_directive"}
WRAP1 = {"label_without_recovery": 0, "label_with_recovery": 0, "range": 0, "cut": 0, "map": 0, "recognize": 0, "complete": 0, "context": 1, "null": 0, "labelr": 0, "label": 0}
LOOKAHEAD = {"is_not", "peek", "not"}


def term_of(e):
    """grammar term of the expression that is applied to `input`"""
    if not is_node(e):
        return ("unk", str(e)[:30])
    t = e[0]
    if t == "path":
        n = last_seg(e[1])
        return ("nt", n)
    if t == "paren":
        return term_of(e[1])
    if t == "closure":
        # |i| p(i)
        body = e[2]
        if is_node(body) and body[0] == "call":
            return term_of(body[1])
        return ("unk", render(e)[:30])
    if t == "call":
        f = path_of(e[1])
        args = e[2]
        if f is None:
            return ("unk", render(e)[:30])
        n = last_seg(f)
        if n == "tag" and args and args[0][0] == "str":
            return ("lit", args[0][1])
        if n in ("opt",):
            return ("opt", term_of(args[0]))
        if n in ("many0", "many0_count"):
            return ("star", term_of(args[0]))
        if n in ("many1", "many1_count"):
            return ("plus", term_of(args[0]))
        if n in ("separated_list0", "separated_list1", "separated_nonempty_list"):
            return ("sep", term_of(args[0]), term_of(args[1]), n.endswith("1"))
        if n in ("tuple", "nom_tuple", "pair", "separated_pair", "delimited", "preceded", "terminated"):
            if n in ("tuple", "nom_tuple") and args and args[0][0] == "tuple":
                return ("seq", [term_of(a) for a in args[0][1]])
            return ("seq", [term_of(a) for a in args])
        if n == "alt" and args and args[0][0] == "tuple":
            return ("alt", [term_of(a) for a in args[0][1]])
        if n in LOOKAHEAD:
            return ("empty",)
        if n in WRAP1:
            inner = term_of(args[WRAP1[n]])
            if n == "null" and inner == ("empty",):
                return ("empty",)
            return inner
        if n in ("many_till",):
            return ("star", term_of(args[0]))
        return ("unk", render(e)[:40])
    return ("unk", render(e)[:30])


def _applied(e, inputs=()):
    """if e is COMB(input-ish) possibly under `?` / match-unwrapping, return COMB else None.
    `inputs`: names known STRUCTURALLY to hold the parse input (the ParseString parameter and every rebinding of it, see input_vars)"""
    while is_node(e) and e[0] in ("try", "paren"):
        e = e[1]
    if is_node(e) and e[0] == "match":
        return _applied(e[1], inputs)
    if is_node(e) and e[0] == "call" and len(e[2]) == 1:
        a = e[2][0]
        while is_node(a) and a[0] in ("mcall",) and a[2] == "clone":
            a = a[1]
        if is_node(a) and a[0] == "path" and (a[1] in inputs or re.search(r"input|^i$|remaining", a[1])):
            return e[1]
    return None


def input_vars(it):
    """the local names that hold the parse input of a parser function, whatever they are called: the parameters of type ParseString and, transitively,
    the first component X of every `let (X, PAT) = COMB(Y)..` whose Y is already one of them (the nom convention: the remaining input comes first)"""
    names = {p[0][1] for p in it.get("sig", {}).get("inputs", []) if is_node(p[0]) and p[0][0] == "pident" and re.search(r"\bParseString\b", str(p[1]))}
    if not names:
        return names
    lets = [st for st in walk(it["body"]) if st[0] == "let" and len(st) == 4 and st[2] is not None and is_node(st[1]) and st[1][0] == "ptuple" and len(st[1][1]) == 2
            and st[1][1][0][0] == "pident"]
    changed = True
    while changed:
        changed = False
        for st in lets:
            x = st[1][1][0][1]
            if x not in names and _applied(st[2], names) is not None:
                names.add(x)
                changed = True
    return names


class Skeleton:
    def __init__(self, it):
        self.it = it
        self.name = it["name"]
        self.steps = []          # (vars [names in pattern order], term, raw pattern)
        self.results = []        # AST of the value returned with Ok((input, VALUE))
        self.straight = True     # no consuming step hidden inside control flow
        self._scan()

    def _scan(self):
        body = self.it["body"]
        inputs = input_vars(self.it)
        for st in body:
            if st[0] == "let" and st[2] is not None and st[1][0] == "ptuple" and len(st[1][1]) == 2:
                comb = _applied(st[2], inputs)
                first = st[1][1][0]
                if comb is not None and first[0] in ("pident", "pwild") and (first[0] == "pwild" or first[1] in inputs or re.search(r"input|^i$", first[1])):
                    vpat = st[1][1][1]
                    vs = [p[1] for p in find(vpat, "pident")]
                    self.steps.append((vs, term_of(comb), vpat))
                    continue
            # any other statement that applies a parser to input hides consumption
            if st[0] in ("let", "expr"):
                tgt = st[2] if st[0] == "let" else st[1]
                if tgt is not None and any(_applied(c, inputs) is not None for c in find(tgt, "call")):
                    if not (st[0] == "expr" and st is body[-1]):
                        self.straight = False
        for n in walk(body):
            if n[0] == "call" and path_of(n[1]) == "Ok" and n[2] and is_node(n[2][0]) and n[2][0][0] == "tuple" and len(n[2][0][1]) == 2:
                self.results.append(n[2][0][1][1])


class Grammar:
    def __init__(self, syn_items):
        self.fns = {}
        for it in syn_items:
            if it["k"] == "fn" and "formatter" not in it["mod"] and it.get("body") and (it["sig"].get("ret") or "").replace(" ", "").startswith("ParseResult<"):
                self.fns.setdefault(it["name"], it)
        self.skel = {}
        self._lang = {}

    def skeleton(self, name):
        if name not in self.skel and name in self.fns:
            self.skel[name] = Skeleton(self.fns[name])
        return self.skel.get(name)

    def ret_type(self, name):
        it = self.fns.get(name)
        return (it["sig"]["ret"]).replace(" ", "")[len("ParseResult<"):-1] if it else None

    def lang(self, term, depth=0):
        """finite set of accepted texts, or None"""
        if depth > 8:
            return None
        k = term[0]
        if k == "lit":
            return {term[1]}
        if k == "empty":
            return {""}
        if k == "nt":
            n = term[1]
            if n in WS:
                return {""}
            if n in self._lang:
                return self._lang[n]
            self._lang[n] = None          # cycle guard
            sk = self.skeleton(n)
            res = None
            if sk is not None and sk.steps and sk.straight and re.match(r"(Token|\(\)|\w+Op|String|&str)$", self.ret_type(n) or ""):
                acc = {""}
                for _, t, _ in sk.steps:
                    l = self.lang(t, depth + 1)
                    if l is None:
                        acc = None
                        break
                    acc = {a + b for a in acc for b in l}
                    if len(acc) > 64:
                        acc = None
                        break
                res = acc
            self._lang[n] = res
            return res
        if k == "seq":
            acc = {""}
            for t in term[1]:
                l = self.lang(t, depth + 1)
                if l is None:
                    return None
                acc = {a + b for a in acc for b in l}
                if len(acc) > 64:
                    return None
            return acc
        if k == "alt":
            acc = set()
            for t in term[1]:
                l = self.lang(t, depth + 1)
                if l is None:
                    return None
                acc |= l
            return acc
        if k == "opt":
            l = self.lang(term[1], depth + 1)
            return None if l is None else l | {""}
        if k in ("star", "plus"):
            l = self.lang(term[1], depth + 1)
            if l is not None and l <= {""}:
                return {""}
            return None
        return None


def show_term(t):
    k = t[0]
    if k == "nt":
        return t[1]
    if k == "lit":
        return repr(t[1])
    if k == "opt":
        return "(" + show_term(t[1]) + ")?"
    if k == "star":
        return "(" + show_term(t[1]) + ")*"
    if k == "plus":
        return "(" + show_term(t[1]) + ")+"
    if k == "sep":
        return "list(%s; %s)" % (show_term(t[2]), show_term(t[1]))
    if k == "seq":
        return " ".join(show_term(x) for x in t[1])
    if k == "alt":
        return "(" + " | ".join(show_term(x) for x in t[1]) + ")"
    if k == "empty":
        return "ε"
    return "?" + t[1]
