"""Byte-length sets of serialisers, derived from their MIR control-flow graphs.

A serialiser appends to a byte buffer (`Vec<u8>`) through a handful of primitives (byteorder `write_uN`, `extend_from_slice`, `push`) and through
calls of further serialisers that receive the same buffer.  The set of byte counts such a function can append is the set of path weights of its
CFG, where a block that ends in a write has the weight of that write, a block that calls another serialiser has that serialiser's set as weight, and
loops may repeat.  Over the unary alphabet this is computable exactly up to a bound: a monotone data-flow over bit sets, with an outer fixpoint for
(mutually) recursive serialisers.

Every set is a pair (must, may) of bit sets over 0..bound:
    may   every length some CFG path produces (over-approximation of what the function can write)
    must  lengths that have a witness: a CFG path all of whose variable-length pieces are *free data* (the bytes of a string, a nested
          serialiser applied to data reached from the function's parameters).  A nested serialiser applied to a value COMPUTED by a crate
          function (`self.value_kind().write_le(out)`) is correlated with the rest of the value; it contributes to `may` only, unless the
          variants that function can return are known (`variant restriction`, see `returned_variants`).
A rule may report "the reader rejects length n" as a defect only for n in must.

Roles, not names: the measured buffer is a parameter of type `&mut Vec<u8>` (writer functions) or whatever local feeds the byte-slice argument
of the *sink* (the function that builds a constant-table entry from a byte slice); callees are resolved (`f`), generic callees are resolved
through the binding of the caller's type parameters (lib/tyuni.py).
"""
import re
from lib import tyuni as T

WIDTH = {"u8": 1, "i8": 1, "u16": 2, "i16": 2, "u32": 4, "i32": 4, "u64": 8, "i64": 8, "u128": 16, "i128": 16, "f32": 4, "f64": 8,
         "u24": 3, "i24": 3, "u48": 6, "i48": 6}
PASS_THROUGH = re.compile(r"(^|::)(deref|deref_mut|as_slice|as_mut_slice|as_ref|as_mut|borrow|borrow_mut|as_bytes|as_str|as_mut_vec|by_ref)$")
ACCESSOR_CRATES = re.compile(r"^<?&?('\w+\s)?(mut\s)?(core|alloc|std|indexmap|nalgebra|hashbrown)::")
BYTE_VEC = re.compile(r"^(&(mut )?)*alloc::vec::Vec<u8(,alloc::alloc::Global)?>$")
BYTE_ANY = re.compile(r"^(&(mut )?)*(alloc::vec::Vec<u8(,alloc::alloc::Global)?>|\[u8(;\d+)?\])$")


def bits(xs):
    m = 0
    for x in xs:
        m |= 1 << x
    return m


def members(m):
    out, i = [], 0
    while m:
        if m & 1:
            out.append(i)
        m >>= 1
        i += 1
    return out


class Lengths:
    def __init__(self, cg, bound=128):
        self.bodies = cg.bodies
        self.res = T.Resolver(cg.bodies)
        self.bound = bound
        self.mask = (1 << (bound + 1)) - 1
        self.table = {}          # request -> (must, may)
        self.pending = set()
        self.notes = []
        self._defs = {}
        self._sink = {}
        self._retvar = {}

    # ---------------------------------------------------------------- bit-set arithmetic
    def msum(self, a, b):
        if a == 0 or b == 0:
            return 0
        out, i = 0, 0
        x = a
        while x:
            if x & 1:
                out |= b << i
            x >>= 1
            i += 1
        return out & self.mask

    def psum(self, p, q):
        return (self.msum(p[0], q[0]), self.msum(p[1], q[1]))

    def any_len(self):
        return self.mask

    # ---------------------------------------------------------------- def-use
    def defs(self, body):
        d = self._defs.get(body.fn)
        if d is None:
            d = {}
            for i, blk in enumerate(body.blocks):
                for s in blk["s"]:
                    d.setdefault(s["d"][0], []).append((i, s))
                t = blk["t"]
                if t["k"] == "call":
                    d.setdefault(t["d"][0], []).append((i, t))
            self._defs[body.fn] = d
        return d

    def root(self, body, op, seen=None):
        """where a reference / value comes from: ("param", i) | ("local", i) (an owned local that is written by a non-accessor) |
        ("const", type) | ("call", callee path, block) | None"""
        if isinstance(op, dict):
            return ("const", op.get("t", ""))
        l = op[0]
        seen = seen or set()
        if l in seen:
            return None
        seen.add(l)
        ds = self.defs(body).get(l, [])
        whole = [(b, s) for b, s in ds if s["d"][1] == ""]
        if 1 <= l <= body.nargs and not whole:
            return ("param", l)
        if len(whole) != 1:
            return ("local", l)
        b, s = whole[0]
        if "rk" in s:
            if s["rk"] in ("use", "ref", "cast") and s["src"]:
                src = s["src"][0]
                if isinstance(src, dict):
                    return ("const", src.get("t", ""))
                if src[0] == l:
                    return ("local", l)
                return self.root(body, src, seen)
            return ("local", l)
        # call result
        name = s.get("f") or s.get("tf") or ""
        if PASS_THROUGH.search(name) and s["args"]:
            return self.root(body, s["args"][0], seen)
        if ACCESSOR_CRATES.search(name) and s["args"] and not re.search(r"::(new|with_capacity|default|from|clone|to_vec|to_owned|collect)$", name):
            r = self.root(body, s["args"][0], seen)
            if r and r[0] in ("param", "data"):
                return ("data", r[1])
            return ("call", name, b)
        if re.search(r"::(new|with_capacity|default)$", name):
            return ("local", l)
        return ("call", name, b)

    def array_len(self, body, op, depth=0):
        """N when the operand is (a reference to / an unsized view of) a `[u8; N]`: `out.extend_from_slice(&x.to_le_bytes())`"""
        if op is None or depth > 6:
            return None
        ty = op.get("t", "") if isinstance(op, dict) else body.locals[op[0]] if op[1] == "" else ""
        m = re.match(r"^(&(mut )?)*\[u8;\s*(\d+)\]$", ty)
        if m:
            return int(m.group(3))
        if isinstance(op, dict):
            return None
        ds = [sd for _, sd in self.defs(body).get(op[0], []) if sd["d"][1] == ""]
        if len(ds) == 1 and ds[0].get("rk") in ("use", "ref", "cast") and ds[0]["src"]:
            src = ds[0]["src"][0]
            if isinstance(src, list) and src[1] not in ("", "*"):
                return None
            return self.array_len(body, [src[0], ""] if isinstance(src, list) else src, depth + 1)
        return None

    def is_free_data(self, body, op):
        """the operand is (a reference into) data reached from a parameter through field projections / accessors of external crates"""
        r = self.root(body, op)
        return r is not None and r[0] in ("param", "data")

    # ---------------------------------------------------------------- sink
    def sink_param(self, key):
        """index (1-based local) of the byte-slice parameter if `key` is the function that builds a constant-table entry, else None"""
        if key not in self._sink:
            b = self.bodies.get(key)
            p = None
            if b is not None and any(s.get("rk") == "agg" and s.get("adt", "").endswith("::ConstEntry") for blk in b.blocks for s in blk["s"]):
                for i in range(1, b.nargs + 1):
                    if re.match(r"^&\[u8\]$", b.locals[i]):
                        p = i
            self._sink[key] = p
        return self._sink[key]

    # ---------------------------------------------------------------- requests
    def written(self, key, env, pidx, variant=None):
        """bytes appended to the `&mut Vec<u8>` parameter #pidx of `key` on normal return; `variant` = (param local, discriminant value)
        restricts the first switch on that parameter's discriminant to one arm"""
        return self._get(("w", key, self._envkey(env), pidx, variant))

    def emitted(self, key, env):
        """byte lengths of the constants `key` hands to the sink, directly or through the functions it calls"""
        return self._get(("e", key, self._envkey(env)))

    def _envkey(self, env):
        return tuple(sorted((k, v) for k, v in env.items()))

    def _get(self, req):
        v = self.table.get(req)
        if v is None:
            self.table[req] = (0, 0)
            self.pending.add(req)
            return (0, 0)
        return v

    def solve(self):
        """Kleene iteration over all requests made so far (requests made while computing are added and iterated too)"""
        for _ in range(500):
            changed = False
            for req in list(self.table):
                new = self._compute(req)
                old = self.table[req]
                merged = (old[0] | new[0], old[1] | new[1])
                if merged != old:
                    self.table[req] = merged
                    changed = True
            if self.pending:
                self.pending.clear()
                changed = True
            if not changed:
                break
        return self

    def _compute(self, req):
        kind, key, envk = req[0], req[1], req[2]
        env = dict(envk)
        body = self.bodies.get(key)
        if body is None:
            return (0, self.any_len())
        if kind == "w":
            return self._flow(body, env, ("param", req[3]), at="ret", variant=req[4])[0]
        # emitted: union over sink calls and emitting callees
        must = may = 0
        roots = {}
        for bi, blk in enumerate(body.blocks):
            t = blk["t"]
            if t["k"] != "call" or blk["cl"]:
                continue
            ck, cenv = self.res.callee(t, env)
            name = ck or t.get("f") or t.get("tf")
            sp = self.sink_param(name) if name in self.bodies else None
            if sp is not None:
                arg = t["args"][sp - 1]
                r = self.root(body, arg)
                roots.setdefault(r, []).append(bi)
            elif ck is not None and self._emits(ck):
                e = self.emitted(ck, cenv)
                must |= e[0]
                may |= e[1]
        for r, blocks in roots.items():
            if r is None or r[0] == "call":
                may |= self.any_len()
                continue
            if r[0] == "const":
                m = re.match(r"^&?\[u8;\s*(\d+)\]$", r[1])
                if m and int(m.group(1)) <= self.bound:
                    must |= 1 << int(m.group(1))
                    may |= 1 << int(m.group(1))
                else:
                    may |= self.any_len()
                continue
            if r[0] in ("param", "data"):
                may |= self.any_len()
                continue
            _, at_blocks = self._flow(body, env, r, at=set(blocks))
            for bi in blocks:
                p = at_blocks.get(bi, (0, 0))
                must |= p[0]
                may |= p[1]
        return (must, may)

    _emit_memo = None

    def _emits(self, key):
        """does `key` (transitively, through resolved or trait calls by name) reach the sink?  cheap name-level closure"""
        if self._emit_memo is None:
            self._emit_memo = {}
        memo = self._emit_memo
        if key in memo:
            return memo[key]
        memo[key] = False
        b = self.bodies.get(key)
        out = False
        if b is not None:
            for blk in b.blocks:
                t = blk["t"]
                if t["k"] != "call":
                    continue
                for name in (t.get("f"), t.get("tf")):
                    if not name:
                        continue
                    if name in self.bodies and self.sink_param(name) is not None:
                        out = True
                    elif name in self.bodies and name != key and self._emits(name):
                        out = True
                    elif name not in self.bodies:
                        m = re.match(r"^(.*)::(\w+)$", name)
                        if m:
                            for k2, _ in self.res.impls.get((m.group(1), m.group(2)), ()):
                                if k2 != key and self._emits(k2):
                                    out = True
                                    break
                if out:
                    break
        memo[key] = out
        return out

    # ---------------------------------------------------------------- the data-flow
    def _weight(self, body, env, t, target):
        """(must, may) appended to the buffer `target` by call terminator t, or None when the call does not touch it"""
        name = t.get("f") or t.get("tf") or ""
        tf = t.get("tf") or ""
        args = t["args"]
        hits = [i for i, a in enumerate(args) if not isinstance(a, dict) and BYTE_VEC.match(body.locals[a[0]]) and self._same(body, a, target)]
        if not hits:
            return None
        if PASS_THROUGH.search(name):
            return None
        m = re.search(r"WriteBytesExt::write_(\w+)$", tf)
        if m and hits == [0]:
            w = WIDTH.get(m.group(1))
            if w is None:
                return (0, self.any_len())
            return (1 << w, 1 << w)
        if re.search(r"Vec::<T, A>::push$", tf) and hits == [0]:
            return (2, 2)
        if re.search(r"(Vec::<T, A>::extend_from_slice|io::Write::write_all)$", tf) and hits == [0]:
            src = args[1] if len(args) > 1 else None
            k = self.array_len(body, src)
            if k is not None:
                return ((1 << k,) * 2) if k <= self.bound else (0, 0)
            if isinstance(src, dict):
                return (0, self.any_len())
            r = self.root(body, src)
            # the bytes of a string / byte vector reached from a parameter: any length occurs
            if r is not None and r[0] in ("param", "data"):
                return (self.any_len(), self.any_len())
            return (0, self.any_len())
        if re.search(r"Vec::<T, A>::(len|capacity|is_empty|as_ptr|reserve|iter|as_slice)$", tf):
            return None
        if re.search(r"Vec::<T, A>::(clear|truncate|resize|drain|split_off|pop|remove|insert|append|extend_from_within|set_len|dedup\w*|retain\w*)$", tf):
            return (0, self.any_len())
        ck, cenv = self.res.callee(t, env)
        if ck is not None:
            cb = self.bodies[ck]
            if len(hits) == 1 and hits[0] < cb.nargs:
                pidx = hits[0] + 1
                variant = None
                # receiver: the first argument that is not the buffer
                recv = [a for i, a in enumerate(args) if i not in hits]
                free = bool(recv) and not isinstance(recv[0], dict) and self.is_free_data(body, recv[0])
                if not free and recv and not isinstance(recv[0], dict):
                    vs = self.returned_variants(body, env, recv[0])
                    if vs is not None:
                        ridx = [i for i, a in enumerate(args) if i not in hits][0] + 1
                        must = may = 0
                        for v in sorted(vs):
                            w = self.written(ck, cenv, pidx, (ridx, v))
                            must |= w[0]
                            may |= w[1]
                        return (must, may)
                w = self.written(ck, cenv, pidx)
                if free or not recv:
                    return w
                return (0, w[1])
            return (0, self.any_len())
        # an unresolved callee that receives the buffer
        return (0, self.any_len())

    def _same(self, body, op, target):
        r = self.root(body, op)
        if r is None:
            return False
        if target[0] == "param":
            return r == ("param", target[1])
        return r == target

    def _flow(self, body, env, target, at="ret", variant=None):
        """forward data-flow of (must, may) byte counts appended to `target`.  Returns ((must, may) at normal returns, {block: state at entry})"""
        n = len(body.blocks)
        IN = [(0, 0)] * n
        IN[0] = (1, 1)
        weights = {}
        for bi, blk in enumerate(body.blocks):
            t = blk["t"]
            if t["k"] == "call" and not blk["cl"]:
                weights[bi] = self._weight(body, env, t, target)
        restrict = None
        if variant is not None:
            restrict = self._variant_switch(body, variant)
        work = [0]
        inq = {0}
        while work:
            b = work.pop()
            inq.discard(b)
            blk = body.blocks[b]
            if blk["cl"]:
                continue
            st = IN[b]
            w = weights.get(b)
            if w is not None:
                st = self.psum(st, w)
            succ = body.succ(b)
            if restrict is not None and b == restrict[0]:
                succ = [restrict[1]]
            for s in succ:
                old = IN[s]
                new = (old[0] | st[0], old[1] | st[1])
                if new != old:
                    IN[s] = new
                    if s not in inq:
                        inq.add(s)
                        work.append(s)
        must = may = 0
        for b in body.ret_blocks():
            must |= IN[b][0]
            may |= IN[b][1]
        if isinstance(at, set):
            return (must, may), {b: IN[b] for b in at}
        return (must, may), {}

    def _variant_switch(self, body, variant):
        """(switch block, target block) of the first switch on the discriminant of parameter `variant[0]` for discriminant value variant[1]"""
        pl, val = variant
        for bi, blk in enumerate(body.blocks):
            t = blk["t"]
            if t["k"] != "switch" or isinstance(t["on"], dict):
                continue
            on = t["on"][0]
            for s in blk["s"]:
                if s["d"][0] == on and s.get("rk") == "discr":
                    src = s["src"][0]
                    r = self.root(body, [src[0], ""])
                    if src[0] == pl or r == ("param", pl):
                        for v, tgt in t["targets"]:
                            if v == val:
                                return (bi, tgt)
                        return (bi, t["else"])
        return None

    # ---------------------------------------------------------------- variants a computed value can have
    def returned_variants(self, body, env, op, depth=0):
        """the operand is (a reference to) the result of a crate function: the set of enum variant indices that function can return
        (every return path builds an aggregate of one enum, possibly through further calls), else None"""
        r = self.root(body, op)
        if r is None or r[0] != "call" or depth > 3:
            return None
        blk = body.blocks[r[2]]
        ck, cenv = self.res.callee(blk["t"], env)
        if ck is None:
            return None
        return self._ret_variants(ck, cenv, depth)

    def _ret_variants(self, key, env, depth):
        memo_key = (key, self._envkey(env))
        if memo_key in self._retvar:
            return self._retvar[memo_key]
        self._retvar[memo_key] = None
        body = self.bodies[key]
        out = set()
        ok = True
        ds = [(b, s) for b, s in self.defs(body).get(0, []) if s["d"][1] == "" and not body.blocks[b]["cl"]]
        if not ds:
            ok = False
        for b, s in ds:
            if s.get("rk") == "agg" and "adt" in s:
                idx = self.variant_index(s["adt"], s["var"])
                if idx is None:
                    ok = False
                else:
                    out.add(idx)
            elif s.get("k") == "call":
                ck, cenv = self.res.callee(s, env)
                sub = self._ret_variants(ck, cenv, depth + 1) if ck is not None and depth < 3 else None
                if sub is None:
                    ok = False
                else:
                    out |= sub
            elif s.get("rk") == "use" and s["src"] and not isinstance(s["src"][0], dict):
                # `_0 = move _k` where _k is an aggregate / call result
                sub = None
                src = s["src"][0]
                if src[1] == "":
                    dd = [(b2, s2) for b2, s2 in self.defs(body).get(src[0], []) if s2["d"][1] == ""]
                    if len(dd) == 1 and dd[0][1].get("rk") == "agg" and "adt" in dd[0][1]:
                        idx = self.variant_index(dd[0][1]["adt"], dd[0][1]["var"])
                        sub = {idx} if idx is not None else None
                    elif len(dd) == 1 and dd[0][1].get("k") == "call":
                        ck, cenv = self.res.callee(dd[0][1], env)
                        sub = self._ret_variants(ck, cenv, depth + 1) if ck is not None and depth < 3 else None
                if sub is None:
                    ok = False
                else:
                    out |= sub
            else:
                ok = False
        res = out if ok and out else None
        self._retvar[memo_key] = res
        return res

    adts = None

    def variant_index(self, adt, var):
        """discriminant value of a field-carrying enum variant = its index (enums with explicit discriminants are not handled here)"""
        if self.adts is None:
            return None
        a = self.adts.get(adt)
        if a is None or not a.get("enum"):
            return None
        for i, v in enumerate(a["variants"]):
            if v["name"] == var:
                return i
        return None
