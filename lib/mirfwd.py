"""MIR-level helpers that make rules follow a mechanism through private helper functions and through
equivalent control-flow spellings (used by C20; nothing here knows a function or local by name).

  bool_switches    every branch on the bool result of a call, with polarity (`if c`, `if !c`, `let f = c; .. if !f`, `c == false`)
  cycle_members    the functions on a recursion cycle through a given function (strongly connected component of the call graph)
  forwarded_sites  call sites of a set of target functions as seen from one body, directly or through helper functions,
                   with every argument of the target call mapped back to operands of that body (parameters bound to arguments)
  helper_frames    (body, call chain) of local helper functions reachable from a body - lets a rule look for a call one or two
                   levels down and evaluate provenance with `ip_roots`
  ip_roots         Slice.roots across frames: an `arg` root of an inner frame is replaced by the roots of the operand the
                   enclosing frame passes for it
  result_checked   `?` == map_err(..)? == match r { Ok(v) => v, Err(e) => return Err(..) } == let-else
"""
import re
from lib.mirq import Slice, result_exits


def callee_of(t):
    return t.get("f") or t["tf"]


# ---------------------------------------------------------------- branches on a bool

def bool_switches(body, term):
    """branches on the bool returned by call terminator `term`:
    list of (switch_block, target_when_result_true, target_when_result_false).
    Flow-insensitive over copies, `!x`, `x == true/false`, `x != true/false` (MIR temporaries are single-assignment)."""
    pol = {term["d"][0]: True}
    changed = True
    while changed:
        changed = False
        for _, s in body.stmts():
            d = s["d"]
            if d[1] != "" or d[0] in pol:
                continue
            src = s.get("src") or []
            rk = s.get("rk")
            p = None
            if rk == "use" and len(src) == 1 and isinstance(src[0], list) and src[0][1] == "" and src[0][0] in pol:
                p = pol[src[0][0]]
            elif rk == "un" and s.get("op") == "Not" and isinstance(src[0], list) and src[0][1] == "" and src[0][0] in pol:
                p = not pol[src[0][0]]
            elif rk == "bin" and s.get("op") in ("Eq", "Ne") and len(src) == 2:
                loc = [o for o in src if isinstance(o, list) and o[1] == "" and o[0] in pol]
                cst = [o for o in src if isinstance(o, dict) and o.get("c") in ("true", "false")]
                if len(loc) == 1 and len(cst) == 1:
                    same = (cst[0]["c"] == "true") == (s["op"] == "Eq")
                    p = pol[loc[0][0]] if same else not pol[loc[0][0]]
            if p is not None:
                pol[d[0]] = p
                changed = True
    out = []
    for i, blk in enumerate(body.blocks):
        t = blk["t"]
        if t["k"] == "switch" and isinstance(t["on"], list) and t["on"][1] == "" and t["on"][0] in pol:
            false_t = true_t = None
            for v, tgt in t["targets"]:
                if v == 0:
                    false_t = tgt
                elif v == 1:
                    true_t = tgt
            if true_t is None:
                true_t = t["else"]
            if false_t is None:
                false_t = t["else"]
            if true_t == false_t:
                continue
            if not pol[t["on"][0]]:
                true_t, false_t = false_t, true_t
            out.append((i, true_t, false_t))
    return out


# ---------------------------------------------------------------- recursion cycle

def cycle_members(cg, fn):
    """local functions f with fn ->* f ->* fn (fn included)"""
    fw = cg.reach([fn])
    return {f for f in fw if f in cg.bodies and (f == fn or fn in cg.reach([f]))}


# ---------------------------------------------------------------- calls through helpers

class ArgFlow:
    """what a top-level body supplies for one argument of a (possibly indirect) call:
    `ops` operands of the top-level body, `foreign` roots that originate inside a helper on the way"""

    def __init__(self, ops, foreign=(), captured=False):
        self.ops = list(ops)
        self.foreign = set(foreign)
        self.captured = captured      # came through the environment of a closure: `ops` is then the closure value (ALL its captures)


class Site:
    """a call of `callee` as seen from `body`: block/terminator of the call IN `body` that leads to it,
    `chain` = functions entered on the way (last = callee), `flows[k]` = ArgFlow of the callee's argument k"""

    def __init__(self, blk, term, chain, flows):
        self.blk, self.term, self.chain, self.flows = blk, term, chain, flows
        self.callee = chain[-1]
        self.direct = len(chain) == 1
        self.opaque = False           # set when a closure on the way could not be bound (argument tuple not found)


def forwarded_sites(cg, body, targets, via, depth=3, _stack=()):
    """call sites of `targets` reachable from `body` directly or through the functions in `via` (not entered twice)"""
    out = []
    for blk, t in body.calls():
        cal = callee_of(t)
        if cal in targets:
            out.append(Site(blk, t, [cal], [ArgFlow([a]) for a in t["args"]]))
        if cal in via and cal in cg.bodies and depth > 0 and cal != body.fn and cal not in _stack and cal not in targets:
            hb = cg.bodies[cal]
            sl = Slice(hb)
            # a closure is called as Fn*::call*(closure, (a, b, ..)): parameter i+2 of its body is element i of the tuple,
            # parameter 1 is the environment (the captures)
            elems = None
            is_closure = "{closure" in cal and len(t["args"]) == 2
            if is_closure and isinstance(t["args"][1], list):
                tds = [x for _, x in body.defs().get(t["args"][1][0], []) if x.get("rk") == "agg" and "adt" not in x and "closure" not in x]
                if len(tds) == 1:
                    elems = tds[0]["src"]
            for inner in forwarded_sites(cg, hb, targets, via, depth - 1, _stack + (body.fn,)):
                flows = []
                for fl in inner.flows:
                    ops, foreign, captured = [], set(fl.foreign), fl.captured
                    for op in fl.ops:
                        for r in sl.roots(op):
                            if r[0] != "arg":
                                foreign.add(r)
                            elif not is_closure:
                                if r[1] - 1 < len(t["args"]):
                                    ops.append(t["args"][r[1] - 1])
                            elif r[1] == 1:
                                ops.append(t["args"][0])
                                captured = True
                            elif elems is not None and r[1] - 2 < len(elems):
                                ops.append(elems[r[1] - 2])
                            else:
                                ops.append(t["args"][1])
                    flows.append(ArgFlow(ops, foreign, captured))
                site = Site(blk, t, [cal] + inner.chain, flows)
                site.opaque = inner.opaque or (is_closure and elems is None)
                out.append(site)
    return out


def helper_frames(cg, body, stop=(), depth=2, private=None):
    """frames reachable from `body` through direct calls of local functions not in `stop`:
    yields lists [(body, None), (helper_body, call_term_in_body), ...] including the one-element frame list of `body` itself.
    `private(fn_name)` may veto a helper."""
    out = [[(body, None)]]

    def rec(frames, d, seen):
        b = frames[-1][0]
        for _, t in b.calls():
            cal = callee_of(t)
            if cal in cg.bodies and cal not in stop and cal not in seen and (private is None or private(cal)):
                fr = frames + [(cg.bodies[cal], t)]
                out.append(fr)
                if d > 1:
                    rec(fr, d - 1, seen | {cal})
    if depth > 0:
        rec(out[0], depth, {body.fn})
    return out


def ip_roots(frames, operand, idx=None, _slices=None):
    """roots of `operand` (an operand of frames[idx], default the innermost frame); `arg` roots of an inner frame are resolved
    through the call site in the enclosing frame.  Roots are the tuples of Slice.roots with the frame index appended."""
    if idx is None:
        idx = len(frames) - 1
    if _slices is None:
        _slices = {}
    body, call_t = frames[idx]
    sl = _slices.get(idx)
    if sl is None:
        sl = _slices[idx] = Slice(body)
    out = set()
    for r in sl.roots(operand):
        if r[0] == "arg" and idx > 0 and r[1] - 1 < len(call_t["args"]):
            out |= ip_roots(frames, call_t["args"][r[1] - 1], idx - 1, _slices)
        else:
            out.add(tuple(r) + (idx,))
    return out


def derives_from_call(cg, body, operand, rx, depth=2):
    """does `operand` derive from a call matching `rx`, directly or as the return value of a local helper (depth levels)?"""
    for r in Slice(body).roots(operand):
        if r[0] == "call":
            if rx.search(r[1]):
                return True
            if depth > 0 and r[1] in cg.bodies and r[1] != body.fn and derives_from_call(cg, cg.bodies[r[1]], [0, ""], rx, depth - 1):
                return True
    return False


# ---------------------------------------------------------------- error propagation

CARRY = ("map_err", "::ok_or", "::ok_or_else", "::map", "::and_then", "::or_else", "::into", "::from")


def result_checked(body, term, hops=5):
    """how the Result/Option produced by call `term` is consumed:
      'try'     it reaches `?` (Try::branch), possibly through map_err / map / ok_or ..
      'match'   its discriminant is switched on and the failure edge reaches only Err exits of the function
      'return'  it is (part of) the function's own return value
      None      none of these (result dropped, unwrapped, defaulted ..)"""
    ok_exits, err_exits = result_exits(body)
    cur = {term["d"][0]}
    allv = set(cur)
    for _ in range(hops):
        nxt = set()
        # plain moves / copies of the value
        grew = True
        while grew:
            grew = False
            for _, s in body.stmts():
                if s.get("rk") == "use" and s["d"][1] == "" and s["src"] and isinstance(s["src"][0], list) and s["src"][0][1] == "" \
                        and s["src"][0][0] in cur and s["d"][0] not in cur:
                    cur.add(s["d"][0])
                    grew = True
        allv |= cur
        if 0 in cur:
            return "return"
        for _, t2 in body.calls():
            if any(isinstance(a, list) and a[0] in cur for a in t2["args"]):
                c2 = callee_of(t2)
                if c2.endswith("Try>::branch") or c2.endswith("Try::branch"):
                    return "try"
                if any(c2.endswith(x) for x in CARRY):
                    nxt.add(t2["d"][0])
        for i, blk in enumerate(body.blocks):
            t = blk["t"]
            if t["k"] != "switch" or not isinstance(t["on"], list):
                continue
            for s in blk["s"]:
                if s.get("rk") == "discr" and s["d"][0] == t["on"][0] and s["src"][0][0] in cur and s["src"][0][1] == "":
                    tg = dict((v, g) for v, g in t["targets"])
                    okt = tg.get(0, t["else"])
                    errt = tg.get(1, t["else"])
                    if body.locals[s["src"][0][0]].startswith("core::option::Option"):
                        okt, errt = errt, okt        # None = 0 is the failure
                    if okt == errt:
                        continue
                    reach = body.reachable_from([errt], avoid={okt})
                    if (reach & err_exits) and not (reach & ok_exits):
                        return "match"
        # `if r.is_err() { return Err(..) }` / `if !r.is_ok() { .. }`
        for _, t2 in body.calls():
            c2 = callee_of(t2)
            m = [x for x in ("::is_err", "::is_none", "::is_ok", "::is_some") if c2.endswith(x)]
            if m and t2["args"] and isinstance(t2["args"][0], list) and (Slice(body).locals_feeding(t2["args"][0]) & cur):
                for swb, tt, ft in bool_switches(body, t2):
                    fail, good = (tt, ft) if m[0] in ("::is_err", "::is_none") else (ft, tt)
                    reach = body.reachable_from([fail], avoid={good})
                    if (reach & err_exits) and not (reach & ok_exits):
                        return "match"
        if not nxt:
            break
        cur = nxt
    return None


def result_edges(body, term, hops=5):
    """the branches that consume the Result returned by call `term`: list of (switch_block, ok_target, err_target) for
    `r?` / `r.map_err(..)?` (the switch after Try::branch) and for `match r { Ok(..) => .., Err(..) => .. }` / let-else"""
    out = []
    cur = {term["d"][0]}
    for _ in range(hops):
        grew = True
        while grew:
            grew = False
            for _, s in body.stmts():
                if s.get("rk") == "use" and s["d"][1] == "" and s["src"] and isinstance(s["src"][0], list) and s["src"][0][1] == "" \
                        and s["src"][0][0] in cur and s["d"][0] not in cur:
                    cur.add(s["d"][0])
                    grew = True
        nxt = set()
        scrut = set(cur)
        for _, t2 in body.calls():
            if any(isinstance(a, list) and a[0] in cur for a in t2["args"]):
                c2 = callee_of(t2)
                if c2.endswith("Try>::branch") or c2.endswith("Try::branch"):
                    scrut.add(t2["d"][0])
                elif any(c2.endswith(x) for x in CARRY):
                    nxt.add(t2["d"][0])
        for i, blk in enumerate(body.blocks):
            t = blk["t"]
            if t["k"] != "switch" or not isinstance(t["on"], list):
                continue
            for s in blk["s"]:
                if s.get("rk") == "discr" and s["d"][0] == t["on"][0] and s["src"][0][0] in scrut and s["src"][0][1] == "":
                    tg = dict((v, g) for v, g in t["targets"])
                    okt, errt = tg.get(0, t["else"]), tg.get(1, t["else"])
                    if okt != errt:
                        out.append((i, okt, errt))
        if not nxt:
            break
        cur = nxt
    return out


# ---------------------------------------------------------------- edge sets, emptiness tests

def edges_dominate(body, edges, target):
    """True iff every path entry -> target uses at least one of the CFG edges in `edges` ((src, dst) pairs)"""
    edges = set(edges)
    seen = set()
    st = [0]
    while st:
        b = st.pop()
        if b in seen:
            continue
        seen.add(b)
        if b == target:
            return False
        for s in body.succ(b):
            if (b, s) not in edges:
                st.append(s)
    return True


def blocks_between(body, target, cut_edges=()):
    """blocks on some path entry -> target that uses none of `cut_edges`"""
    cut = set(cut_edges)
    fwd, st = set(), [0]
    while st:
        b = st.pop()
        if b in fwd:
            continue
        fwd.add(b)
        st += [s for s in body.succ(b) if (b, s) not in cut]
    bwd, st = set(), [target]
    while st:
        b = st.pop()
        if b in bwd:
            continue
        bwd.add(b)
        st += [p for p in body.pred(b) if (p, b) not in cut]
    return fwd & bwd


EMPTY_RX = re.compile(r"(::<impl str>|::String|::<impl \[T\]>|::Vec<T, A>|::Vec<T>)::is_empty$")
LEN_RX = re.compile(r"(::<impl str>|::String|::<impl \[T\]>|::Vec<T, A>|::Vec<T>)::len$")


def empty_edges(body, params):
    """CFG edges (src, dst) taken exactly when the text/slice parameter (one of `params`) is empty:
    the true edge of `p.is_empty()`, of `p.len() == 0`, the false edge of `p.len() != 0` (any polarity spelling)"""
    sl = Slice(body)
    out = []

    def only_param(op):
        rr = sl.roots(op)
        return bool(rr) and all(r[0] == "arg" and r[1] in params for r in rr)
    for b, t in body.calls():
        cal = callee_of(t)
        if EMPTY_RX.search(cal) and t["args"] and only_param(t["args"][0]):
            out += [(swb, tt) for swb, tt, ft in bool_switches(body, t)]
        elif LEN_RX.search(cal) and t["args"] and only_param(t["args"][0]):
            d = t["d"][0]
            for _, s in body.stmts():
                if s.get("rk") == "bin" and s.get("op") in ("Eq", "Ne") and len(s["src"]) == 2:
                    loc = [o for o in s["src"] if isinstance(o, list) and o[0] == d and o[1] == ""]
                    cst = [o for o in s["src"] if isinstance(o, dict) and str(o.get("c")) == "0"]
                    if loc and cst:
                        for swb, tt, ft in bool_switches(body, {"d": s["d"]}):
                            out.append((swb, tt) if s["op"] == "Eq" else (swb, ft))
    return out


# ---------------------------------------------------------------- added for C20-R12 (reusable; nothing below knows a name)

def reach_cut(body, starts, avoid=(), cut=()):
    """blocks reachable from `starts` without entering a block of `avoid` and without using a CFG edge of `cut` ((src, dst) pairs)"""
    cut = set(cut)
    seen = set()
    st = [s for s in starts if s not in avoid]
    while st:
        b = st.pop()
        if b in seen:
            continue
        seen.add(b)
        for s in body.succ(b):
            if s not in seen and s not in avoid and (b, s) not in cut:
                st.append(s)
    return seen


def deep_locals(body, operand, stop_terms=()):
    """locals on the backward data slice of `operand` through EVERY statement and EVERY call (the result of a call derives from all
    its arguments), field-insensitive.  The slice does not continue behind the call terminators in `stop_terms` (their destination
    is still part of the result)."""
    defs = body.defs()
    stop = {id(t) for t in stop_terms}
    seen = set()
    st = [operand[0]] if isinstance(operand, list) else []
    if isinstance(operand, list):
        st += [int(m) for m in re.findall(r"\[_(\d+)\]", operand[1])]
    while st:
        l = st.pop()
        if l in seen:
            continue
        seen.add(l)
        for _, s in defs.get(l, []):
            if id(s) in stop:
                continue
            ops = s["args"] if s.get("k") == "call" else s.get("src", [])
            for o in ops:
                if isinstance(o, list):
                    st.append(o[0])
    return seen


def emptiness_edges(body, pred):
    """CFG edges (src, dst) taken exactly when a text / slice operand satisfying `pred(operand)` is EMPTY: the true edge of
    `x.is_empty()`, of `x.len() == 0`, the false edge of `x.len() != 0` (any polarity spelling).  Generalises empty_edges."""
    out = []
    for b, t in body.calls():
        cal = callee_of(t)
        if EMPTY_RX.search(cal) and t["args"] and pred(t["args"][0]):
            out += [(swb, tt) for swb, tt, ft in bool_switches(body, t)]
        elif LEN_RX.search(cal) and t["args"] and pred(t["args"][0]):
            d = t["d"][0]
            for _, s in body.stmts():
                if s.get("rk") == "bin" and s.get("op") in ("Eq", "Ne") and len(s["src"]) == 2:
                    loc = [o for o in s["src"] if isinstance(o, list) and o[0] == d and o[1] == ""]
                    cst = [o for o in s["src"] if isinstance(o, dict) and str(o.get("c")) == "0"]
                    if loc and cst:
                        for swb, tt, ft in bool_switches(body, {"d": s["d"]}):
                            out.append((swb, tt) if s["op"] == "Eq" else (swb, ft))
    return out


VALUE_PASS = re.compile(r"(::deref$|::deref_mut$|::as_ref$|::as_mut$|::borrow$|::borrow_mut$|::clone$|::into$|::from$|::as_str$|::as_mut_str$|"
                        r"::to_owned$|::to_string$|::as_bytes$|Try>::branch$|Try::branch$|core::fmt::rt::Argument.*::new_\w+$|core::fmt::Arguments.*::new\w*$|alloc::fmt::format$)")
OPTION_SELECT = re.compile(r"option::Option::<T>::(map_or|map_or_else|unwrap_or|unwrap_or_else)$")
CLOSURE_TY = re.compile(r"^C\{(.+?)\|")


def value_leaves(cg, body, operand, classify_call=None, field=None, _seen=None, _ctx=None):
    """Where the VALUE of `operand` comes from, field-sensitively for tuples (`let (a, b) = match .. { .. => (x, y), .. }`: the
    leaves of `b` are the second components only) and through value-preserving calls only (deref / as_str / clone / fmt plumbing;
    NOT trim / strip_suffix / index - those change the value and are leaves).  `Option::map_or(default, closure)` and friends are
    selections: the leaves are those of the default and of the closure's return value, tagged ("sel", "some"|"none", receiver operand).
    Leaves:  ("const", text, where)   where = ("blk", block) in `body` or the ("sel", ..) tag
             ("local", l)             a local without definition here that `stop(l)` accepts: reported as it is (e.g. the loop item)
             ("arg", i) | ("call", callee, block, term) | ("op", kind, block)
    `classify_call(term)` may return a leaf for a call (e.g. ("prefix", term)); None = default treatment."""
    out = set()
    seen = _seen if _seen is not None else set()
    defs = body.defs()

    def where(blk):
        return _ctx if _ctx is not None else ("blk", blk)

    def op_leaves(o, fld, blk):
        if isinstance(o, dict):
            out.add(("fn", o["fn"]) if "fn" in o else ("const", str(o.get("c")), where(blk)))
        elif isinstance(o, list):
            m = re.match(r"^\.(\d+)$", o[1])
            if m and fld is None:
                loc(o[0], int(m.group(1)))
            elif m:
                out.add(("op", "nested-field", blk))
            else:
                loc(o[0], fld)

    def loc(l, fld):
        if (l, fld) in seen:
            return
        seen.add((l, fld))
        if 1 <= l <= body.nargs:
            out.add(("arg", l))
            return
        ds = defs.get(l, [])
        if not ds:
            out.add(("local", l))
        for blk, s in ds:
            if s.get("k") == "call":
                cal = callee_of(s)
                leaf = classify_call(s, fld) if classify_call else None
                if leaf is not None:
                    out.add(leaf)
                elif VALUE_PASS.search(cal) or (cal.endswith("::index") and any("RangeFull" in str(g) for g in s.get("ga", []))):
                    for a in s["args"]:
                        op_leaves(a, fld, blk)
                elif OPTION_SELECT.search(cal) and len(s["args"]) >= 2:
                    recv = s["args"][0]
                    tag = lambda side: ("sel", side, recv[0] if isinstance(recv, list) else None)
                    parts = [(s["args"][1], "none")] + ([(s["args"][2], "some")] if len(s["args"]) > 2 else [])
                    if not cal.endswith("map_or") and not cal.endswith("map_or_else"):
                        # unwrap_or(default): the Some side is the receiver's payload
                        op_leaves(recv, fld, blk)
                    for o, side in parts:
                        cm = CLOSURE_TY.match(body.locals[o[0]]) if isinstance(o, list) else None
                        cb = cg.bodies.get(cm.group(1)) if cm else None
                        if cb is not None:
                            for x in value_leaves(cg, cb, [0, ""], None, fld, None, tag(side)):
                                if x[0] == "arg" and x[1] >= 2 and side == "some":
                                    op_leaves(recv, None, blk)          # the closure's parameter = the payload of the receiver
                                elif x[0] == "arg":
                                    out.add(("op", "capture", blk))
                                else:
                                    out.add(x)
                        else:
                            sub = value_leaves(cg, body, o, classify_call, fld, set(seen), _ctx)
                            out.update(("const", x[1], tag(side)) if x[0] == "const" and _ctx is None else x for x in sub)
                else:
                    out.add(("call", cal, blk, id(s)))
            else:
                rk = s.get("rk")
                if s["d"][1] not in ("", "*"):
                    out.add(("op", "partial-write", blk))
                elif rk in ("use", "ref", "cast", "rawptr"):
                    op_leaves(s["src"][0], fld, blk)
                elif rk == "agg" and s.get("tuple") and fld is not None and fld < len(s["src"]):
                    op_leaves(s["src"][fld], None, blk)
                elif rk == "agg" and "adt" not in s and "closure" not in s:
                    for o in s["src"]:
                        op_leaves(o, None, blk)
                else:
                    out.add(("op", rk, blk))
    op_leaves(operand, field, None)
    return out
