"""Alpha-normalisation of syn ASTs: make a rendered body independent of how its parameters and locals are spelled,
plus a few syntactic equivalences (`if let` == two-arm `match`, a block holding one expression == that expression).

  canon_names(item)          mapping {spelling -> canonical name} for the parameters and bound locals of a fn / method item
  rename(node, mapping)      copy of an AST with paths / pattern idents renamed
  desugar(node)              copy of an AST with `if let P = X { A } else { B }` written as `match X { P => A, _ => B }`,
                             `match X { Some(b) => .., _ => .. }` written with `None` and single-expression blocks unwrapped in match arms
"""
import copy
from lib.facts import is_node, walk


def _is_binding(name):
    # an upper-case identifier pattern is a constant / unit variant (`None`), not a binding
    return bool(name) and (name[0].islower() or name[0] == "_") and name not in ("self",)


def binders(node):
    """names bound by patterns inside node, in order of first appearance"""
    out = []
    for x in walk(node):
        if x[0] == "pident" and _is_binding(x[1]) and x[1] not in out:
            out.append(x[1])
    return out


def canon_names(item, param_names=("value", "other", "third"), local_prefix="val"):
    """parameters (except self) -> param_names by position; bound locals -> val, val2, val3 ... by first appearance"""
    m = {}
    k = 0
    for inp in item.get("sig", {}).get("inputs", []):
        if inp and inp[0] == "self":
            continue
        pat = inp[0]
        names = binders(pat) if is_node(pat) else []
        for nme in names:
            if nme not in m:
                m[nme] = param_names[k] if k < len(param_names) else "param%d" % k
                k += 1
    j = 0
    for nme in binders(item.get("body") or []):
        if nme in m:
            continue
        j += 1
        m[nme] = local_prefix if j == 1 else "%s%d" % (local_prefix, j)
    return m


def rename(node, mapping):
    """deep copy with every single-segment path and pattern ident in `mapping` renamed (shadowing is not modelled: names are renamed consistently)"""
    if isinstance(node, list):
        if node and isinstance(node[0], str):
            if node[0] == "path" and len(node) > 1 and isinstance(node[1], str) and node[1] in mapping:
                return ["path", mapping[node[1]]] + [rename(x, mapping) for x in node[2:]]
            if node[0] == "pident" and node[1] in mapping and _is_binding(node[1]):
                return ["pident", mapping[node[1]]] + [rename(x, mapping) for x in node[2:]]
            if node[0] == "struct":
                # shorthand fields `S { x }` carry the local as the value expression
                return [node[0], node[1], [[f[0], rename(f[1], mapping)] + list(f[2:]) for f in node[2]]] + [rename(x, mapping) for x in node[3:]]
            return [node[0]] + [rename(x, mapping) for x in node[1:]]
        return [rename(x, mapping) for x in node]
    if isinstance(node, dict):
        return {k: rename(v, mapping) for k, v in node.items()}
    return node


def _unwrap_block(e):
    while is_node(e) and e[0] == "block" and len(e[1]) == 1 and e[1][0][0] == "expr" and not (len(e[1][0]) > 2 and e[1][0][2]):
        inner = e[1][0][1]
        if not is_node(inner):
            break
        e = inner
    return e


def desugar(node):
    if isinstance(node, list):
        if node and isinstance(node[0], str):
            n = [node[0]] + [desugar(x) for x in node[1:]]
            if n[0] == "if" and is_node(n[1]) and n[1][0] == "letc" and n[3] is not None:
                pat, scrut = n[1][1], n[1][2]
                els = n[3]
                n = ["match", scrut, [[pat, None, ["block", n[2]], 0], [["pwild"], None, els, 0]]]
            if n[0] == "match" and len(n[2]) == 2:
                a0, a1 = n[2]
                if is_node(a0[0]) and a0[0][0] == "pts" and a0[0][1].split("::")[-1] == "Some" and a0[1] is None and is_node(a1[0]) and a1[0][0] == "pwild" and a1[1] is None:
                    a1 = [["pident", "None", False, False, None]] + list(a1[1:])
                n = ["match", n[1], [a0, a1]] + n[3:]
            return n
        return [desugar(x) for x in node]
    if isinstance(node, dict):
        return {k: desugar(v) for k, v in node.items()}
    return node


def unwrap_arm_blocks(node):
    """match arms `P => { e }` -> `P => e` (a block holding a single tail expression)"""
    if isinstance(node, list):
        if node and isinstance(node[0], str):
            n = [node[0]] + [unwrap_arm_blocks(x) for x in node[1:]]
            if n[0] == "match":
                n[2] = [[a[0], a[1], _unwrap_block(a[2])] + list(a[3:]) for a in n[2]]
            return n
        return [unwrap_arm_blocks(x) for x in node]
    if isinstance(node, dict):
        return {k: unwrap_arm_blocks(v) for k, v in node.items()}
    return node


_STMT = ("let", "expr", "item")


def scoped_walk(body):
    """yield (node, env) for every AST node of a function body, where env maps a local's name to the initialiser of the
    nearest `let` that is in scope at that point (names bound by other patterns are absent): lets a rule read
    `let w = e.shape()[1]; i += w` as `i += e.shape()[1]` even when the same name is bound in many sibling blocks"""
    def stmts(lst, env):
        env = dict(env)
        for st in lst:
            if not is_node(st):
                continue
            if st[0] == "let":
                if len(st) > 2 and st[2] is not None:
                    for x in expr(st[2], env):
                        yield x
                pat = st[1]
                if is_node(pat) and pat[0] == "ptype" and is_node(pat[1]):
                    pat = pat[1]
                if is_node(pat) and pat[0] == "pident" and len(st) > 2 and st[2] is not None:
                    env[pat[1]] = st[2]
                else:
                    for b in walk(pat):
                        if b[0] == "pident":
                            env.pop(b[1], None)
            elif st[0] == "expr":
                for x in expr(st[1], env):
                    yield x

    def expr(e, env):
        if not isinstance(e, list):
            return
        if is_node(e):
            yield e, env
            kids = e[1:]
        else:
            kids = e
        for c in kids:
            if isinstance(c, list):
                if c and all(is_node(y) and y[0] in _STMT for y in c):
                    for x in stmts(c, env):
                        yield x
                else:
                    for x in expr(c, env):
                        yield x
    for x in stmts(body, {}):
        yield x


def resolve_local(e, env, hops=3):
    """follow a bare local name to its initialiser (see scoped_walk)"""
    while is_node(e) and e[0] == "paren":
        e = e[1]
    while hops > 0 and is_node(e) and e[0] == "path" and e[1] in env:
        e = env[e[1]]
        hops -= 1
        while is_node(e) and e[0] == "paren":
            e = e[1]
    return e
