#!/bin/bash
# usage: merge_clone.sh <clone-name> <prop>...  — merge /tmp/vf/<name>/verif into /verif; evidence conflicts are resolved by re-running the checks
N=$1; shift
cd /verif
git add -A; git commit -qm "wip before merging $N" 2>/dev/null
git pull -q --no-edit /tmp/vf/$N/verif 2>&1 | grep -v "^hint" | tail -5
for f in $(git diff --name-only --diff-filter=U); do
  case $f in evidence/*|MANIFEST.json) git checkout --theirs -- $f; git add $f;; *) echo "CONFLICT NEEDS HAND MERGE: $f";; esac
done
if [ -n "$(git diff --name-only --diff-filter=U)" ]; then echo "MERGE STOPPED: resolve by hand, then commit (do NOT delete the clone yet)"; exit 1; fi
git commit -qm "Merge /tmp/vf/$N/verif" 2>/dev/null
python3 tools/gen_manifest.py > /dev/null
for p in "$@"; do python3 verif.py $p | tail -1; done
git add -A; git commit -qm "merged $N: manifest + evidence refresh" -q
