#!/bin/bash
# usage: [BENIGN=1|all] seedall_par.sh [K] [filter-regex]   (BENIGN=all: every benign variant is run through ALL 20 checks)
# usage: seedall_par.sh [K] [filter-regex] — replay every stored seeded change, own mutant revert and (with BENIGN=1) benign variant in K parallel
# own-cache clones of /verif at HEAD (committed state!). Each change is applied to a scratch copy of /repo (never /repo itself).
# Output: one line per change: OK (reported) / MISSED / NOAPPLY for seeds and reverts; SILENT / FALSE-ALARM for benign variants.
K=${1:-4}; FILT=${2:-.}
cd /verif
LIST=/tmp/vf/replay_list.txt; mkdir -p /tmp/vf; : > $LIST
for d in seeded/*/; do n=$(basename $d); [ -f $d/patch.diff ] && echo "seed ${n%%-*} $d/patch.diff $n" >> $LIST; done
for f in mutants/reverts/*.diff; do n=$(basename $f .diff); echo "revert ${n%%-*} $f $n" >> $LIST; done
if [ -n "$BENIGN" ]; then for d in benign/*/; do n=$(basename $d); [ -f $d/patch.diff ] && echo "benign ${n%%-*} $d/patch.diff $n" >> $LIST; done; fi
grep -E "$FILT" $LIST > $LIST.f; mv $LIST.f $LIST
for i in $(seq 1 $K); do
  if [ ! -d /tmp/vf/rp$i/verif ]; then bash tools/mkclone.sh rp$i own > /dev/null; else git -C /tmp/vf/rp$i/verif pull -q; fi
done
worker() {
  i=$1; source /tmp/vf/rp$i/env.sh; cd /tmp/vf/rp$i/verif
  awk -v k=$K -v i=$i 'NR % k == i % k' $LIST | while read kind prop patch name; do
    props=$prop; [ $kind = benign ] && [ "$BENIGN" = all ] && props="C01 C02 C03 C04 C05 C06 C07 C08 C09 C10 C11 C12 C13 C14 C15 C16 C17 C18 C19 C20"
    out=$(VC_MAX=60 bash tools/variantcheck.sh /verif/$patch $props 2>&1)
    mkdir -p /tmp/vf/replay_out; echo "$out" > /tmp/vf/replay_out/$kind-$name.txt
    if echo "$out" | grep -q "patch does not apply"; then echo "NOAPPLY $kind $name";
    elif echo "$out" | grep -q "INFRA"; then echo "INFRA   $kind $name";
    elif echo "$out" | grep -q "^VIOLATION"; then [ $kind = benign ] && echo "FALSE-ALARM $name: $(echo "$out" | grep 'violation:' | cut -c1-160 | head -4 | tr '\n' ';')" || echo "OK      $kind $name";
    else [ $kind = benign ] && echo "SILENT  $name" || echo "MISSED  $kind $name"; fi
  done
}
for i in $(seq 1 $K); do worker $i & done; wait
