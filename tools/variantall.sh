#!/bin/bash
# usage: variantall.sh <repo-dir> [props...] — run the checks against another tree (MECH_REPO); evidence goes to /tmp/mechverif-variant/evidence
D=$(readlink -f $1); shift
PROPS=${@:-C01 C02 C03 C04 C05 C06 C07 C08 C09 C10 C11 C12 C13 C14 C15 C16 C17 C18 C19 C20}
mkdir -p /tmp/mechverif-variant/evidence /tmp/mechverif-variant/logs
cd /verif
for p in $PROPS; do
  MECH_REPO=$D VERIF_EVIDENCE_DIR=/tmp/mechverif-variant/evidence python3 verif.py $p > /tmp/mechverif-variant/logs/$p.log 2>&1
  rc=$?
  echo "$p rc=$rc viol=$(grep -c '  violation:' /tmp/mechverif-variant/logs/$p.log)"
done
