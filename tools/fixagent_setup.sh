#!/bin/bash
# usage: fixagent_setup.sh <name> <props (space separated, quoted)> <alarms-file> <patch-dirs...>
# creates an own-cache clone /tmp/vf/<name>/verif and the prompt /tmp/vf/<name>/PROMPT.txt from tools/PROMPT_REFACTOR.tmpl
N=$1; PROPS=$2; AL=$3; shift 3
bash /verif/tools/mkclone.sh $N own > /dev/null
D=/tmp/vf/$N
python3 - "$N" "$PROPS" "$AL" "$@" > $D/PROMPT.txt <<'P'
import sys
n, props, al = sys.argv[1:4]; patches = sys.argv[4:]
d = "/tmp/vf/%s" % n
s = open('/verif/tools/PROMPT_REFACTOR.tmpl').read()
s = s.replace('__PROPS__', props).replace('__PATCHES__', "\n".join("    %s/patch.diff   (notes: %s/notes.md)" % (p.rstrip('/'), p.rstrip('/')) for p in patches))
s = s.replace('__ALARMS__', open(al).read()).replace('__CLONE_DIR__', d).replace('__CLONE__', d + '/verif')
print(s)
P
echo $D/PROMPT.txt
