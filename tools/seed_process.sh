#!/bin/bash
# usage: seed_process.sh <tag> <Cxx> [slot]  — confirm the change an agent left in /tmp/seed/out_<tag> (seed_verify.sh in verification worktree <slot>),
# run the property's check on a scratch copy of /repo + patch (own-cache clone rp<slot>), free the agent's worktree. Prints CONFIRMED/REJECTED and OK/MISSED.
TAG=$1; PROP=$2; SLOT=${3:-1}
OUT=/tmp/seed/out_$TAG
[ -f $OUT/patch.diff ] || { echo "$TAG: no patch.diff"; exit 2; }
# the agent's worktree is no longer needed: free its build output first (disk is tight)
git -C /repo worktree remove --force /tmp/seed/wt_$TAG 2>/dev/null; rm -rf /tmp/seed/wt_$TAG
( flock 9; VWT=/tmp/seed/vwt$SLOT bash /verif/tools/seed_verify.sh $OUT ) 9>/tmp/seed/vwt$SLOT.lock > $OUT/verify.out 2>&1
if ! grep -q "^CONFIRMED" $OUT/verify.out; then echo "$TAG REJECTED: $(grep RESULT $OUT/verify.out)"; exit 1; fi
[ -d /tmp/vf/rp$SLOT/verif ] || bash /verif/tools/mkclone.sh rp$SLOT own > /dev/null
( flock 8; cd /tmp/vf/rp$SLOT/verif && git pull -q; source /tmp/vf/rp$SLOT/env.sh; VC_MAX=20 bash tools/variantcheck.sh $OUT/patch.diff $PROP ) 8>/tmp/vf/rp$SLOT.lock > $OUT/check.txt 2>&1
if grep -q "^VIOLATION" $OUT/check.txt; then echo "$TAG CONFIRMED; OK (reported): $(grep 'violation:' $OUT/check.txt | head -3 | cut -c1-200 | tr '\n' ';')"; else echo "$TAG CONFIRMED; MISSED: $(tail -1 $OUT/check.txt)"; fi
