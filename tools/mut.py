#!/usr/bin/env python3
"""Checker self-test: apply hand-written mutants (mutants/<prop>.json) to a scratch copy of /repo and
verify that the named rule fires (and that `benign` twins stay silent).
usage: tools/mut.py Cxx [name-substring]"""
import json
import os
import shutil
import subprocess
import sys

VERIF = os.path.dirname(os.path.dirname(os.path.abspath(__file__)))
MUT = (os.path.dirname(os.environ["VERIF_CLONE"]) + "/mut/repo") if os.environ.get("VERIF_CLONE") else "/tmp/mechverif-mut/repo"


def main():
    prop = sys.argv[1]
    flt = sys.argv[2] if len(sys.argv) > 2 else ""
    muts = json.load(open(os.path.join(VERIF, "mutants", prop + ".json")))
    res = []
    for m in muts:
        if flt and flt not in m["name"]:
            continue
        os.makedirs(MUT, exist_ok=True)
        subprocess.check_call(["rsync", "-a", "--delete", "--exclude", "target", "--exclude", ".git", "/repo/", MUT + "/"])
        for e in m["edits"]:
            p = os.path.join(MUT, e["file"])
            s = open(p, newline="").read()
            old = e["old"]
            if s.count(old) != e.get("count", 1):
                old = old.replace("\n", "\r\n")
            assert s.count(old) == e.get("count", 1), (m["name"], e["file"], s.count(old))
            s = s.replace(old, e["new"].replace("\n", "\r\n") if "\r\n" in old else e["new"])
            open(p, "w", newline="").write(s)
        env = dict(os.environ, MECH_REPO=MUT, VERIF_EVIDENCE_DIR=os.path.dirname(MUT) + "/evidence")
        r = subprocess.run([sys.executable, os.path.join(VERIF, "verif.py"), prop], env=env, stdout=subprocess.PIPE, stderr=subprocess.PIPE, text=True)
        benign = m.get("benign", False)
        if benign:
            ok = r.returncode == 0
        else:
            ok = r.returncode == 1 and "VIOLATION property=%s" % prop in r.stdout and m["expect"] in r.stdout
        res.append((m["name"], ok, r.returncode))
        print("%-50s %s (exit %d)" % (m["name"], "OK" if ok else "MISSED" if not benign else "FALSE-ALARM", r.returncode))
        if not ok:
            print(r.stdout[-1500:])
            print(r.stderr[-800:])
    shutil.rmtree(os.path.dirname(MUT), ignore_errors=True) if not os.environ.get("MUT_KEEP") else None
    # leave the cache pointing at /repo again is not needed: facts are keyed by tree hash
    sys.exit(0 if all(r[1] for r in res) else 1)


if __name__ == "__main__":
    main()
