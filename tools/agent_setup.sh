#!/bin/bash
# usage: agent_setup.sh seed|benign <Cxx> <tag> [extra-text-file]
# creates a scratch worktree /tmp/seed/wt_<tag> of /repo HEAD (warm target copied from /tmp/seed/base), /tmp/seed/out_<tag>, and the prompt /tmp/seed/prompt_<tag>.txt
KIND=$1; PROP=$2; TAG=$3; EXTRA=$4
WT=/tmp/seed/wt_$TAG; OUT=/tmp/seed/out_$TAG
[ -d $WT ] && { git -C /repo worktree remove --force $WT; rm -rf $WT; }
git -C /repo worktree add --detach $WT HEAD -q || exit 2
cp -a /tmp/seed/base/target $WT/target
mkdir -p $OUT
T=/verif/seeded/PROMPT.tmpl; [ "$KIND" = benign ] && T=/verif/seeded/PROMPT_BENIGN.tmpl
python3 - "$T" "$WT" "$OUT" "$PROP" "$EXTRA" > /tmp/seed/prompt_$TAG.txt <<'P'
import sys, json
t, wt, out, prop, extra = sys.argv[1:6]
rec = [l for l in open('/verif/properties.jsonl') if json.loads(l)['id'] == prop][0].strip()
s = open(t).read().replace('__WT__', wt).replace('__OUT__', out).replace('__PROPERTY__', rec)
if extra:
    s += "\n" + open(extra).read()
print(s)
P
echo /tmp/seed/prompt_$TAG.txt
