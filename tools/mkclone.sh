#!/bin/bash
# usage: mkclone.sh <name> [own]  — a working clone of /verif under /tmp/vf/<name>/verif.
#  default: shares /verif's fact cache, analysis tools and scratch copy (pipeline runs are serialised by the cache lock);
#  "own":   shares only the analysis tools; own fact cache (warm copy of target-nightly) and own scratch copy, so pipeline runs of several clones go in parallel.
N=$1; D=/tmp/vf/$N
rm -rf $D; mkdir -p $D
git clone -q /verif $D/verif
ln -s /verif/tools/mechfacts/target $D/verif/tools/mechfacts/target
ln -s /verif/tools/mechsyn/target $D/verif/tools/mechsyn/target
find $D/verif/tools/mechfacts $D/verif/tools/mechsyn -type f \( -name "*.rs" -o -name "Cargo.toml" \) -exec touch -d "2020-01-01" {} +   # never rebuild the shared tools from a clone
printf "cache\ntools/*/target\n" >> $D/verif/.git/info/exclude
if [ "$2" = own ]; then
  mkdir -p $D/cache; cp -a /verif/cache/target-nightly $D/cache/target-nightly
  cat > $D/env.sh <<EOF
export MECH_CACHE=$D/cache
export MECH_SCRATCH=$D/scratch
export MECH_FACTS_KEEP=12
export VERIF_CLONE=$D/verif
EOF
else
  ln -s /verif/cache $D/verif/cache
  SCR=/tmp/mechverif-scratch-$(python3 -c "import hashlib;print(hashlib.sha256(b'/verif').hexdigest()[:8])")
  cat > $D/env.sh <<EOF
export MECH_SCRATCH=$SCR
export VERIF_CLONE=$D/verif
EOF
fi
echo $D/verif
