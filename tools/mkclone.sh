#!/bin/bash
# usage: mkclone.sh <name>  — a working clone of /verif under /tmp/vf/<name>/verif that shares /verif's fact cache, analysis tools and scratch copy
# (so that several people/agents can edit rules independently; pipeline runs are serialised by the cache lock).
N=$1; D=/tmp/vf/$N
rm -rf $D; mkdir -p $D
git clone -q /verif $D/verif
ln -s /verif/cache $D/verif/cache
ln -s /verif/tools/mechfacts/target $D/verif/tools/mechfacts/target
ln -s /verif/tools/mechsyn/target $D/verif/tools/mechsyn/target
find $D/verif/tools/mechfacts $D/verif/tools/mechsyn -type f \( -name "*.rs" -o -name "Cargo.toml" \) -exec touch -d "2020-01-01" {} +   # never rebuild the shared tools from a clone
printf "cache\ntools/*/target\n" >> $D/verif/.git/info/exclude
SCR=/tmp/mechverif-scratch-$(python3 -c "import hashlib;print(hashlib.sha256(b'/verif').hexdigest()[:8])")
cat > $D/env.sh <<EOF
export MECH_SCRATCH=$SCR
export VERIF_CLONE=$D/verif
EOF
echo $D/verif
