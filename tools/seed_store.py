#!/usr/bin/env python3
"""seed_store.py <Cxx> <name> <needs...>  — copy a confirmed seeded change from /tmp/seed/out_<Cxx> into /verif/seeded/<name>/"""
import json, os, shutil, sys
prop, name, needs = sys.argv[1], sys.argv[2], sys.argv[3]
caught = sys.argv[4] if len(sys.argv) > 4 else ""
src = os.environ.get("SEED_SRC") or "/tmp/seed/out_%s" % prop
dst = "/verif/seeded/%s" % name
os.makedirs(dst, exist_ok=True)
for f in ("patch.diff", "demo.rs", "demo_cmd.txt", "notes.md"):
    if os.path.exists(os.path.join(src, f)):
        shutil.copy(os.path.join(src, f), os.path.join(dst, f))
log = open(os.path.join(src, "verify.log")).read() if os.path.exists(os.path.join(src, "verify.log")) else ""
res = [l for l in log.splitlines() if l.startswith("RESULT") or l.startswith("CONFIRMED") or "tests run" in l]
meta = {"property": prop, "needs_to_manifest": needs,
        "what_i_ran": ["tools/seed_verify.sh /tmp/seed/out_%s  (scratch worktree of /repo at /repo HEAD: demo test passes without the patch, fails with it; `cargo nextest run --workspace --offline` passes 652/652 with the patch)" % prop,
                       "tools/seedcheck.sh seeded/%s/patch.diff %s  (git -C /repo apply, run the check, git -C /repo checkout -- .)" % (name, prop)],
        "verification_result": res[-3:], "origin": "independent sub-agent given only the property text and a scratch worktree",
        "caught_by": caught}
json.dump(meta, open(os.path.join(dst, "meta.json"), "w"), indent=1)
print("stored", dst)
