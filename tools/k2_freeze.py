#!/usr/bin/env python3
"""Freeze the sibling partitions of the functions listed in rules/k2_targets.py from the CURRENT /repo tree (review the output)."""
import json, os, sys
sys.path.insert(0, os.path.dirname(os.path.dirname(os.path.abspath(__file__))))
import pipeline
from lib.facts import Facts
from lib import k2
from rules.k2_targets import collect
F = Facts(pipeline.ensure_facts())
ref = {}
for key, part, where in collect(F):
    ref[key] = k2.classes(part)
    print(key, [c if len(c) < 6 else c[:5] + ["...%d" % len(c)] for c in ref[key]])
json.dump(ref, open(k2.REF, "w"), indent=1, sort_keys=True)
