#!/usr/bin/env python3
"""Unit cases for lib/pegsim.py (the concrete simulation of nom-style parser functions used by C08-R16) on small grammar snippets parsed with
`mechsyn --raw` (no pipeline run): ordered choice, cut, look-aheads, white-space leaves, helper levels, `?` == match-Err-return, closures.
usage: python3 tools/ut_pegsim.py        (exit 0 = all cases as expected)"""
import json, os, subprocess, sys, tempfile
VERIF = os.path.dirname(os.path.dirname(os.path.abspath(__file__)))
sys.path.insert(0, VERIF)
from lib.pegsim import PegSim
MS = os.path.join(VERIF, "tools/mechsyn/target/release/mechsyn")
TMP = tempfile.mkdtemp(prefix="ut_pegsim_")

BASE = r'''
pub fn space(input: ParseString) -> ParseResult<Token> {
  if input.is_empty() { return Err(nom::Err::Error(ParseError::new(input, "Unexpected eof"))) }
  let start = input.loc();
  let (input, _) = tag(" ")(input)?;
  Ok((input, Token{kind: TokenKind::Space}))
}
pub fn ws0e(input: ParseString) -> ParseResult<()> { let (input, _) = many0(space)(input)?; Ok((input, ())) }
pub fn ws1e(input: ParseString) -> ParseResult<()> { let (input, _) = many1(space)(input)?; Ok((input, ())) }
pub fn power(input: ParseString) -> ParseResult<PowerOp> {
  let (input, _) = ws0e(input)?;
  let (input, _) = tag("^")(input)?;
  let (input, _) = ws0e(input)?;
  Ok((input, PowerOp::Pow))
}
pub fn power_operator(input: ParseString) -> ParseResult<FormulaOperator> { let (input, op) = power(input)?; Ok((input, FormulaOperator::Power(op))) }
pub fn xor(input: ParseString) -> ParseResult<LogicOp> {
  let (input, _) = ws0e(input)?;
  let (input, _) = alt((tag("^^"), tag("⊕"), tag("⊻")))(input)?;
  let (input, _) = ws0e(input)?;
  Ok((input, LogicOp::Xor))
}
pub fn and(input: ParseString) -> ParseResult<LogicOp> {
  let (input, _) = nom::sequence::delimited(ws0e, alt((tag("&&"), tag("∧"))), ws0e)(input)?;
  Ok((input, LogicOp::And))
}
pub fn logic_operator(input: ParseString) -> ParseResult<FormulaOperator> { let (input, op) = alt((and, xor))(input)?; Ok((input, FormulaOperator::Logic(op))) }
pub fn less_than(input: ParseString) -> ParseResult<ComparisonOp> {
  let (input, _) = ws0e(input)?;
  let (input, _) = is_not(tag("<-"))(input)?;
  let (input, _) = tag("<")(input)?;
  let (input, _) = ws0e(input)?;
  Ok((input, ComparisonOp::LessThan))
}
pub fn less_than_equal(input: ParseString) -> ParseResult<ComparisonOp> {
  let (input, _) = ws0e(input)?;
  let (input, _) = match alt((tag("<="),tag("≤")))(input) { Ok(v) => v, Err(e) => return Err(e), };
  let (input, _) = ws0e(input)?;
  Ok((input, ComparisonOp::LessThanEqual))
}
pub fn raw_subtract(input: ParseString) -> ParseResult<AddSubOp> { let (input, _) = pair(is_not(comment_sigil), tag("-"))(input)?; Ok((input, AddSubOp::Sub)) }
pub fn spaced_subtract(input: ParseString) -> ParseResult<AddSubOp> { let (input, _) = ws1e(input)?; let (input, _) = raw_subtract(input)?; let (input, _) = ws1e(input)?; Ok((input, AddSubOp::Sub)) }
pub fn subtract(input: ParseString) -> ParseResult<AddSubOp> { let (input, _) = alt((spaced_subtract, raw_subtract))(input)?; Ok((input, AddSubOp::Sub)) }
pub fn comment_sigil(input: ParseString) -> ParseResult<()> { let (input, _) = alt((tag("--"),tag("//")))(input)?; Ok((input, ())) }
pub fn add_sub_operator(input: ParseString) -> ParseResult<FormulaOperator> { let (input, op) = subtract(input)?; Ok((input, FormulaOperator::AddSub(op))) }
pub fn l1(input: ParseString) -> ParseResult<Factor> {
  let (input, lhs) = l2(input)?;
  let (input, rhs) = many0(pair(logic_operator,cut(l2)))(input)?;
  let factor = if rhs.is_empty() { lhs } else { Factor::Term(Box::new(Term { lhs, rhs })) };
  Ok((input, factor))
}
pub fn l3(input: ParseString) -> ParseResult<Factor> {
  let (input, lhs) = l5(input)?;
  let (input, rhs) = many0(nom_tuple((add_sub_operator,cut(l5))))(input)?;
  Ok((input, lhs))
}
fn binary_level<'a>(input: ParseString<'a>, next: fn(ParseString<'a>) -> ParseResult<'a, Factor>, op: fn(ParseString<'a>) -> ParseResult<'a, FormulaOperator>) -> ParseResult<'a, Factor> {
  let (input, lhs) = next(input)?;
  let (input, rhs) = many0(pair(op,cut(next)))(input)?;
  Ok((input, lhs))
}
pub fn l5(input: ParseString) -> ParseResult<Factor> { binary_level(input, factor, power_operator) }
pub fn negate_factor(input: ParseString) -> ParseResult<Factor> { let (input, _) = tag("-")(input)?; let (input, expr) = factor(input)?; Ok((input, Factor::Negate(Box::new(expr)))) }
pub fn op_list(input: ParseString) -> ParseResult<Vec<LogicOp>> { let (input, v) = separated_list1(tag(","), |i| xor(i))(input)?; Ok((input, v)) }
pub fn soft(input: ParseString) -> ParseResult<Factor> {
  let (input, lhs) = factor(input)?;
  let (input, rhs) = many0(pair(power_operator, factor))(input)?;
  let (input, rhs2) = many0(pair(logic_operator, factor))(input)?;
  Ok((input, lhs))
}
'''
L2_GOOD = r'''
pub fn comparison_operator(input: ParseString) -> ParseResult<FormulaOperator> { let (input, op) = alt((less_than_equal, less_than))(input)?; Ok((input, FormulaOperator::Comparison(op))) }
pub fn l2(input: ParseString) -> ParseResult<Factor> { let (input, lhs) = l3(input)?; let (input, rhs) = many0(pair(comparison_operator,cut(l3)))(input)?; Ok((input, lhs)) }
'''
LOOPS = r'''
pub fn comparison_operator(input: ParseString) -> ParseResult<FormulaOperator> { nom::combinator::map(alt((less_than_equal, less_than)), FormulaOperator::Comparison)(input) }
fn join_ops(first: Factor, rest: Vec<(FormulaOperator, Factor)>) -> Factor { if rest.is_empty() { first } else { Factor::Term(Box::new(Term { lhs: first, rhs: rest })) } }
pub fn l2(input: ParseString) -> ParseResult<Factor> {
  let (mut input, lhs) = l3(input)?;
  let mut rhs = Vec::new();
  loop {
    let (after_op, operator) = match comparison_operator(input.clone()) {
      Ok(found) => found,
      Err(nom::Err::Error(_)) => break,
      Err(e) => return Err(e),
    };
    let (after_operand, operand) = cut(l3)(after_op)?;
    rhs.push((operator, operand));
    input = after_operand;
  }
  Ok((input, join_ops(lhs, rhs)))
}
pub fn w1(input: ParseString) -> ParseResult<Factor> {
  let next = l2;
  let (input, lhs) = next(input)?;
  let mut rest = input;
  let mut rhs = vec![];
  while let Ok((after_op, operator)) = logic_operator(rest.clone()) {
    let (after_operand, operand) = cut(next)(after_op)?;
    rhs.push((operator, operand));
    rest = after_operand;
  }
  Ok((rest, join_ops(lhs, rhs)))
}
fn level_c<'a, N, O>(next: N, op: O) -> impl FnOnce(ParseString<'a>) -> ParseResult<'a, Factor> {
  move |input| {
    let (input, first) = next(input)?;
    let (input, rest) = many0(|i| { let (i, operator) = op(i)?; let (i, operand) = cut(next)(i)?; Ok((i, (operator, operand))) })(input)?;
    Ok((input, join_ops(first, rest)))
  }
}
pub fn c1(input: ParseString) -> ParseResult<Factor> { level_c(l2, logic_operator)(input) }
pub fn postfix(input: ParseString) -> ParseResult<Factor> {
  let (input, f) = factor(input)?;
  let (input, mark) = opt(tag("'"))(input)?;
  if mark.is_some() { Ok((input, Factor::Transpose(Box::new(f)))) } else { Ok((input, f)) }
}
'''
L2_BAD = L2_GOOD.replace("alt((less_than_equal, less_than))", "alt((less_than, less_than_equal))")


def sim(src):
    p = os.path.join(TMP, "g.rs"); o = os.path.join(TMP, "g.jsonl")
    open(p, "w").write(src)
    r = subprocess.run([MS, "--raw", o, p], capture_output=True, text=True)
    assert r.returncode == 0, r.stderr
    items = [json.loads(l) for l in open(o)]
    for it in items:
        it.setdefault("mod", "expressions")
    return PegSim(items, {"PowerOp", "LogicOp", "ComparisonOp", "AddSubOp"}, {"factor"}, "§", "-+*/^")


CASES = [
    # (grammar, start, text, status, consumed all?, ops)
    (L2_GOOD, "l1", "§ ⊻ §", "ok", True, ["LogicOp::Xor"]),
    (L2_GOOD, "l1", "§ ^^ §", "fail", False, None),                      # tighter level takes `^`, right operand under cut fails
    (L2_GOOD, "soft", "§ ^^ §", "ok", True, ["LogicOp::Xor"]),            # without cut the repetition stops and the looser operator is tried
    (L2_GOOD, "l1", "§ ^ §", "ok", True, ["PowerOp::Pow"]),               # level delegated to a helper taking (input, next, op)
    (L2_GOOD, "l1", "§ && §", "ok", True, ["LogicOp::And"]),              # delimited(ws, alt, ws)
    (L2_GOOD, "l1", "§ <= §", "ok", True, ["ComparisonOp::LessThanEqual"]),  # match-Err-return == `?`
    (L2_BAD, "l1", "§ <= §", "fail", False, None),                        # `<` listed before `<=`: ordered choice
    (L2_BAD, "l1", "§ ≤ §", "ok", True, ["ComparisonOp::LessThanEqual"]),
    (L2_GOOD, "l1", "§ < §", "ok", True, ["ComparisonOp::LessThan"]),
    (L2_GOOD, "l1", "§ <- §", "ok", False, []),                           # look-ahead excludes `<-`: nothing consumed after the operand
    (L2_GOOD, "l1", "§ - §", "ok", True, ["AddSubOp::Sub"]),              # re-labelled through three functions: one value
    (L2_GOOD, "l1", "§-§", "ok", True, []),                               # glued into one identifier-like operand
    (L2_GOOD, "l1", "§ -§", "ok", False, []),                             # blanks on one side only
    (L2_GOOD, "l1", "§ -- §", "ok", False, []),                           # comment sigil is not a subtraction
    (L2_GOOD, "negate_factor", "-§", "ok", True, []),
    (L2_GOOD, "op_list", "⊻,⊕", "ok", True, ["LogicOp::Xor", "LogicOp::Xor"]),   # closure |i| p(i), separated_list1
    (L2_GOOD, "l1", "", "err", True, None),
    # hand-written repetitions: loop + match + break, while-let, closure-returning helper, local alias of a parser, choice on a plain value
    (LOOPS, "l1", "§ <= § < §", "ok", True, ["ComparisonOp::LessThanEqual", "ComparisonOp::LessThan"]),
    (LOOPS, "l1", "§ < ^ §", "fail", False, None),                         # cut inside the loop: `?` on the right operand
    (LOOPS, "w1", "§ ⊻ § < §", "ok", True, ["LogicOp::Xor", "ComparisonOp::LessThan"]),
    (LOOPS, "w1", "§ ^^ §", "fail", False, None),
    (LOOPS, "c1", "§ && § ⊻ §", "ok", True, ["LogicOp::And", "LogicOp::Xor"]),
    (LOOPS, "c1", "§ ^^ §", "fail", False, None),
    (LOOPS, "postfix", "§'", "ok", True, []),
    (LOOPS, "postfix", "§", "ok", True, []),
]


def main():
    bad = 0
    cache = {}
    for g, start, text, status, full, ops in CASES:
        S = cache.setdefault(g, sim(BASE + g))
        r = S.run(start, text)
        ok = r.status == status and (r.pos == len(text)) == full and (ops is None or list(r.ops) == ops)
        print("%-4s %-14s %-10r -> %s" % ("ok" if ok else "BAD", start, text, r))
        bad += 0 if ok else 1
    print("%d cases, %d unexpected" % (len(CASES), bad))
    sys.exit(1 if bad else 0)


if __name__ == "__main__":
    main()
