#!/bin/bash
# usage: benign_verify.sh <benign-dir>...  — apply each stored benign patch in the scratch worktree /tmp/seed/vwt (of /repo HEAD) and run the unedited suite: must be 652/652.
WT=/tmp/seed/vwt
if [ ! -d $WT ]; then git -C /repo worktree add --detach $WT HEAD -q && cp -a /tmp/seed/base/target $WT/target; fi
cd $WT || exit 2
for d in "$@"; do
  git checkout -q -- . ; git clean -fdq -e target
  git apply $d/patch.diff || { echo "$(basename $d): PATCH DOES NOT APPLY"; continue; }
  cargo nextest run --workspace --no-fail-fast --test-threads 8 --offline > $d/verify.log 2>&1
  echo "$(basename $d): $(grep -E 'Summary' $d/verify.log | tail -1)"
done
git checkout -q -- . ; git clean -fdq -e target
