#!/usr/bin/env python3
"""Shape self-test of C19-R7 (output freshness, lib/outfresh.py) on small `solve` bodies parsed with `mechsyn --raw` (no pipeline run, a few seconds):
behaviour-preserving spellings of a recomputation must stay silent, every way of letting the previous evaluation's output reach the new one must be reported.
usage: python3 tools/ut_c19_fresh.py [-v]        (exit 0 = all cases as expected)"""
import json, os, subprocess, sys, tempfile
VERIF = os.path.dirname(os.path.dirname(os.path.abspath(__file__)))
sys.path.insert(0, VERIF)
from lib import outfresh as OF
from lib.synflow import Inliner
MS = os.path.join(VERIF, "tools/mechsyn/target/release/mechsyn")
TMP = tempfile.mkdtemp(prefix="ut_c19_")

SET_PRE = """
      let out_ptr: &mut MechSet = &mut *(self.out.as_mut_ptr());
      let set_ptr: &MechSet = &*(self.arg1.as_ptr());
      let elem_ptr: &Value = &*(self.arg2.as_ptr());
"""
SET_FIELDS = [("arg1", "Ref<MechSet>"), ("arg2", "Ref<Value>"), ("out", "Ref<MechSet>")]
MAT_PRE = """
      let lhs_ptr = self.lhs.as_ptr();
      let rhs_ptr = self.rhs.as_ptr();
      let out_ptr = self.out.as_mut_ptr();
"""
MAT_FIELDS = [("lhs", "Ref<DVector<T>>"), ("rhs", "Ref<DVector<T>>"), ("out", "Ref<DVector<T>>")]

# name -> (fields, helper items source, solve body source, expected: None = silent, str = substring of the reported place / kind)
CASES = {
    # ------------------------------------------------------------------------------------------------ set/insert family: metadata of the output set
    "insert-original": (SET_FIELDS, "", SET_PRE + """
      out_ptr.set.clear();
      out_ptr.set = set_ptr.set.clone();
      out_ptr.set.insert(elem_ptr.clone());
      out_ptr.num_elements = out_ptr.set.len();
      out_ptr.kind = if set_ptr.kind == ValueKind::Empty { elem_ptr.kind() } else { set_ptr.kind.clone() };
    """, None),
    "insert-seed": (SET_FIELDS, "", SET_PRE + """
      out_ptr.set.clear();
      out_ptr.set = set_ptr.set.clone();
      out_ptr.set.insert(elem_ptr.clone());
      out_ptr.num_elements = out_ptr.set.len();
      out_ptr.kind = if out_ptr.kind == ValueKind::Empty { elem_ptr.kind() } else { set_ptr.kind.clone() };
    """, "out.kind"),
    "seed-as-statements": (SET_FIELDS, "", SET_PRE + """
      if out_ptr.kind == ValueKind::Empty { out_ptr.kind = elem_ptr.kind(); } else { out_ptr.kind = set_ptr.kind.clone(); }
    """, "out.kind"),
    "seed-through-named-flag": (SET_FIELDS, "", SET_PRE + """
      let untyped = out_ptr.kind == ValueKind::Empty;
      out_ptr.set = set_ptr.set.clone();
      if untyped { out_ptr.kind = elem_ptr.kind(); }
    """, "out.kind"),
    "seed-through-match": (SET_FIELDS, "", SET_PRE + """
      out_ptr.kind = match out_ptr.kind.clone() { ValueKind::Empty => elem_ptr.kind(), k => set_ptr.kind.clone() };
    """, "out.kind"),
    "seed-guard-clause": (SET_FIELDS, "", SET_PRE + """
      out_ptr.set = set_ptr.set.clone();
      if out_ptr.kind != ValueKind::Empty { return; }
      out_ptr.kind = elem_ptr.kind();
    """, "out.kind"),
    "seed-in-private-helper": (SET_FIELDS, """
      fn refresh_kind(dst: &mut MechSet, src: &MechSet, item: &Value) {
        if dst.kind == ValueKind::Empty { dst.kind = item.kind(); return; }
        dst.kind = src.kind.clone();
      }""", SET_PRE + """
      out_ptr.set = set_ptr.set.clone();
      refresh_kind(out_ptr, set_ptr, elem_ptr);
    """, "out.kind"),
    "seed-in-private-helper-guard-clause": (SET_FIELDS, """
      fn refresh_kind(dst: &mut MechSet, src: &MechSet, item: &Value) {
        if dst.kind != ValueKind::Empty { return; }
        dst.kind = item.kind();
      }""", SET_PRE + """
      out_ptr.set = set_ptr.set.clone();
      refresh_kind(out_ptr, set_ptr, elem_ptr);
    """, "out.kind"),
    "helper-benign": (SET_FIELDS, """
      fn refresh_kind(dst: &mut MechSet, src: &MechSet, item: &Value) {
        if src.kind == ValueKind::Empty { dst.kind = item.kind(); return; }
        dst.kind = src.kind.clone();
      }""", SET_PRE + """
      out_ptr.set = set_ptr.set.clone();
      refresh_kind(out_ptr, set_ptr, elem_ptr);
    """, None),
    "count-from-stale-set": (SET_FIELDS, "", SET_PRE + """
      out_ptr.num_elements = out_ptr.set.len();
      out_ptr.set = set_ptr.set.clone();
    """, "out.set"),
    "count-from-fresh-set": (SET_FIELDS, "", SET_PRE + """
      out_ptr.set = set_ptr.set.clone();
      let n = out_ptr.set.len();
      out_ptr.num_elements = n;
      out_ptr.kind = if out_ptr.num_elements > 0 { out_ptr.set.iter().next().unwrap().kind() } else { ValueKind::Empty };
    """, None),
    "snapshot-taken-before-the-write": (SET_FIELDS, "", SET_PRE + """
      let n = out_ptr.set.len();
      out_ptr.set = set_ptr.set.clone();
      out_ptr.num_elements = n;
    """, "out.set"),
    "insert-without-redefinition": (SET_FIELDS, "", SET_PRE + """
      out_ptr.set.insert(elem_ptr.clone());
      out_ptr.num_elements = out_ptr.set.len();
    """, "out.set"),
    "insert-after-clear": (SET_FIELDS, "", SET_PRE + """
      out_ptr.set.clear();
      out_ptr.set.insert(elem_ptr.clone());
      out_ptr.num_elements = out_ptr.set.len();
    """, None),
    "redefined-only-on-one-path": (SET_FIELDS, "", SET_PRE + """
      if set_ptr.kind == elem_ptr.kind() { out_ptr.set = set_ptr.set.clone(); }
      out_ptr.num_elements = out_ptr.set.len();
    """, "out.set"),
    "memoised-on-own-count": (SET_FIELDS, "", SET_PRE + """
      if out_ptr.num_elements > 0 { return; }
      out_ptr.set = set_ptr.set.clone();
      out_ptr.num_elements = out_ptr.set.len();
    """, "out.num_elements"),
    "field-never-written-is-invariant": (SET_FIELDS, "", SET_PRE + """
      if out_ptr.kind == ValueKind::Empty { out_ptr.set.clear(); } else { out_ptr.set = set_ptr.set.clone(); }
      out_ptr.num_elements = out_ptr.set.len();
    """, None),
    "else-if-chain-defines-on-every-path": (SET_FIELDS, "", SET_PRE + """
      if set_ptr.kind == ValueKind::Empty { out_ptr.set.clear(); } else if set_ptr.kind == elem_ptr.kind() { out_ptr.set = set_ptr.set.clone(); } else { out_ptr.set.clear(); }
      out_ptr.num_elements = out_ptr.set.len();
    """, None),
    "match-defines-in-every-arm": (SET_FIELDS, "", SET_PRE + """
      match set_ptr.kind.clone() { ValueKind::Empty => { out_ptr.set.clear(); } k => { out_ptr.set = set_ptr.set.clone(); } }
      out_ptr.num_elements = out_ptr.set.len();
    """, None),
    "match-defines-in-one-arm-only": (SET_FIELDS, "", SET_PRE + """
      match set_ptr.kind.clone() { ValueKind::Empty => { } k => { out_ptr.set = set_ptr.set.clone(); } }
      out_ptr.num_elements = out_ptr.set.len();
    """, "out.set"),
    "clone-from-redefines": (SET_FIELDS, "", SET_PRE + """
      out_ptr.set.clone_from(&set_ptr.set);
      out_ptr.set.insert(elem_ptr.clone());
      out_ptr.num_elements = out_ptr.set.len();
    """, None),
    "mem-swap-is-not-decided": (SET_FIELDS, "", SET_PRE + """
      let mut tmp = set_ptr.set.clone();
      std::mem::swap(&mut out_ptr.set, &mut tmp);
      out_ptr.num_elements = out_ptr.set.len();
    """, None),
    "foreign-method-is-not-decided": (SET_FIELDS, "", SET_PRE + """
      out_ptr.refresh_from(set_ptr, elem_ptr);
      out_ptr.num_elements = out_ptr.set.len();
    """, None),
    "insertion-loop-after-clear": (SET_FIELDS, "", SET_PRE + """
      out_ptr.set.clear();
      for v in set_ptr.set.iter() { out_ptr.set.insert(v.clone()); }
      out_ptr.num_elements = out_ptr.set.len();
    """, None),
    "insertion-loop-without-clear": (SET_FIELDS, "", SET_PRE + """
      for v in set_ptr.set.iter() { out_ptr.set.insert(v.clone()); }
      out_ptr.num_elements = out_ptr.set.len();
    """, "out.set"),
    "early-return-then-unconditional": (SET_FIELDS, "", SET_PRE + """
      out_ptr.set.clear();
      if set_ptr.kind != elem_ptr.kind() { out_ptr.num_elements = 0; return; }
      out_ptr.set = set_ptr.set.clone();
      out_ptr.num_elements = out_ptr.set.len();
    """, None),
    "while-loop-kernel": (MAT_FIELDS, "", MAT_PRE + """
      let mut i = 0;
      while i < (*out_ptr).len() { (*out_ptr)[i] = (*lhs_ptr)[i] + (*rhs_ptr)[i]; i += 1; }
    """, None),
    "nalgebra-whole-write": (MAT_FIELDS, "", MAT_PRE + """
      (*lhs_ptr).add_to(&*rhs_ptr, &mut *out_ptr);
    """, None),
    "nalgebra-in-place": (MAT_FIELDS, "", MAT_PRE + """
      (*out_ptr).neg_mut();
    """, "out"),
    "whole-cell-assignment-then-read": (SET_FIELDS, "", SET_PRE + """
      *out_ptr = MechSet::from_vec(set_ptr.set.iter().cloned().collect());
      if out_ptr.kind == ValueKind::Empty { out_ptr.kind = elem_ptr.kind(); }
    """, None),
    "projection-guards-another-field": (SET_FIELDS, "", SET_PRE + """
      out_ptr.num_elements = set_ptr.set.len();
      if out_ptr.kind == ValueKind::Empty { out_ptr.kind = ValueKind::F64; out_ptr.num_elements = 7; }
    """, "out.kind"),
    "previous-value-through-the-accessor": (SET_FIELDS, "", SET_PRE + """
      let before = self.out();
      out_ptr.set = set_ptr.set.clone();
      if before.kind() == elem_ptr.kind() { out_ptr.set.insert(elem_ptr.clone()); }
    """, "out"),
    # ---- E3: projections of a place onto itself
    "projection-expression": (SET_FIELDS, "", SET_PRE + """
      out_ptr.kind = match out_ptr.kind.clone() { ValueKind::Set(k1, _) => ValueKind::Set(k1, None), _ => ValueKind::Empty };
    """, None),
    "projection-through-local": (SET_FIELDS, "", SET_PRE + """
      let before = out_ptr.kind.clone();
      out_ptr.kind = match before { ValueKind::Set(k1, _) => ValueKind::Set(k1, None), _ => ValueKind::Empty };
    """, None),
    "projection-if-let": (SET_FIELDS, "", SET_PRE + """
      if let ValueKind::Set(k1, _) = out_ptr.kind.clone() { out_ptr.kind = ValueKind::Set(k1, None); } else { out_ptr.kind = ValueKind::Empty; }
    """, None),
    "projection-match-statement": (SET_FIELDS, "", SET_PRE + """
      match out_ptr.kind.clone() { ValueKind::Set(k1, _) => { out_ptr.kind = ValueKind::Set(k1, None); } _ => { out_ptr.kind = ValueKind::Empty; } }
    """, None),
    "projection-one-sided": (SET_FIELDS, "", SET_PRE + """
      if out_ptr.kind == ValueKind::Empty { out_ptr.kind = ValueKind::F64; }
    """, None),
    "toggle-is-not-a-projection": (SET_FIELDS, "", SET_PRE + """
      out_ptr.kind = match out_ptr.kind.clone() { ValueKind::Empty => ValueKind::F64, _ => ValueKind::Empty };
    """, "out.kind"),
    "rotation-is-not-a-projection": (SET_FIELDS, "", SET_PRE + """
      out_ptr.kind = match out_ptr.kind.clone() { ValueKind::Set(k1, Some(n)) => ValueKind::Set(k1, None), ValueKind::Set(k1, None) => ValueKind::Empty, _ => ValueKind::Empty };
    """, "out.kind"),
    "projection-with-input-result": (SET_FIELDS, "", SET_PRE + """
      out_ptr.kind = match out_ptr.kind.clone() { ValueKind::Set(k1, _) => ValueKind::Set(k1, None), _ => elem_ptr.kind() };
    """, "out.kind"),
    # ------------------------------------------------------------------------------------------------ matrix kernels
    "zip-kernel": (MAT_FIELDS, "", MAT_PRE + """
      for (o, (l, r)) in (*out_ptr).iter_mut().zip((*lhs_ptr).iter().zip((*rhs_ptr).iter())) { *o = *l + *r; }
    """, None),
    "counted-kernel-on-own-extent": (MAT_FIELDS, "", MAT_PRE + """
      for i in 0..(*out_ptr).len() { (*out_ptr)[i] = (*lhs_ptr)[i] + (*rhs_ptr)[i]; }
    """, None),
    "running-max-against-own-output": (MAT_FIELDS, "", MAT_PRE + """
      for i in 0..(*lhs_ptr).len() {
        let a = (&*lhs_ptr)[i].clone();
        let b = (&*out_ptr)[i].clone();
        (&mut *out_ptr)[i] = if a > b { a } else { b };
      }
    """, "out[..]"),
    "write-guarded-by-own-element": (MAT_FIELDS, "", MAT_PRE + """
      for i in 0..(*lhs_ptr).len() { if (*out_ptr)[i] < (*lhs_ptr)[i] { (*out_ptr)[i] = (*lhs_ptr)[i]; } }
    """, "out[..]"),
    "two-pass-kernel": (MAT_FIELDS, "", MAT_PRE + """
      for i in 0..(*lhs_ptr).len() { (*out_ptr)[i] = (*lhs_ptr)[i]; }
      for i in 0..(*rhs_ptr).len() { (*out_ptr)[i] = (*out_ptr)[i] * (*rhs_ptr)[i]; }
    """, None),
    "mask-count-resize-copy": (MAT_FIELDS, "", MAT_PRE + """
      let mut j = 0;
      let out_len = (*out_ptr).len();
      for i in 0..(*rhs_ptr).len() { if (*rhs_ptr)[i] == true { j += 1; } }
      if j != out_len { (*out_ptr).resize_vertically_mut(j, (&(*out_ptr))[0].clone()); }
      j = 0;
      for i in 0..(*lhs_ptr).len() { if (*rhs_ptr)[i] == true { (&mut (*out_ptr))[j] = (*lhs_ptr).index(i).clone(); j += 1; } }
    """, None),
    "mask-resize-spelt-differently": (MAT_FIELDS, "", MAT_PRE + """
      let mut j = 0;
      for i in 0..(*rhs_ptr).len() { if (*rhs_ptr)[i] == true { j += 1; } }
      if !((*out_ptr).nrows() == j) { (*out_ptr).resize_vertically_mut(j, (&(*out_ptr))[0].clone()); }
    """, None),
    "mask-resize-unconditional": (MAT_FIELDS, "", MAT_PRE + """
      let mut j = 0;
      for i in 0..(*rhs_ptr).len() { if (*rhs_ptr)[i] == true { j += 1; } }
      (*out_ptr).resize_vertically_mut(j, (&(*out_ptr))[0].clone());
      for i in 0..(*out_ptr).len() { (*out_ptr)[i] = (*lhs_ptr)[i]; }
    """, None),
    "mask-resize-only-when-growing": (MAT_FIELDS, "", MAT_PRE + """
      let mut j = 0;
      let out_len = (*out_ptr).len();
      for i in 0..(*rhs_ptr).len() { if (*rhs_ptr)[i] == true { j += 1; } }
      if j > out_len { (*out_ptr).resize_vertically_mut(j, (&(*out_ptr))[0].clone()); }
    """, "out.len()"),
    "loop-on-extent-read-before-a-resize": (MAT_FIELDS, "", MAT_PRE + """
      let n = (*out_ptr).len();
      (*out_ptr).resize_vertically_mut((*lhs_ptr).len() + n, (&(*lhs_ptr))[0].clone());
    """, "out.len()"),
    "scalar-accumulator-without-reset": ([("arg", "Ref<DVector<T>>"), ("out", "Ref<T>")], "", """
      let arg_ptr = self.arg.as_ptr();
      let out_ptr = self.out.as_mut_ptr();
      for i in 0..(*arg_ptr).len() { *out_ptr = *out_ptr + (*arg_ptr)[i]; }
    """, "out"),
    "scalar-accumulator-with-reset": ([("arg", "Ref<DVector<T>>"), ("out", "Ref<T>")], "", """
      let arg_ptr = self.arg.as_ptr();
      let out_ptr = self.out.as_mut_ptr();
      *out_ptr = T::zero();
      for i in 0..(*arg_ptr).len() { *out_ptr = *out_ptr + (*arg_ptr)[i]; }
    """, None),
    "local-accumulator": ([("arg", "Ref<DVector<T>>"), ("out", "Ref<T>")], "", """
      let arg_ptr = self.arg.as_ptr();
      let out_ptr = self.out.as_mut_ptr();
      let mut sum = T::zero();
      for i in 0..(*arg_ptr).len() { sum += (*arg_ptr)[i]; }
      *out_ptr = sum;
    """, None),
    "borrowed-output-instead-of-pointer": (SET_FIELDS, "", """
      let mut o = self.out.borrow_mut();
      let a = self.arg1.borrow();
      if o.kind == ValueKind::Empty { o.kind = a.kind.clone(); }
      o.set = a.set.clone();
    """, "out.kind"),
}


def items_of(src):
    p = os.path.join(TMP, "t.rs")
    o = os.path.join(TMP, "t.jsonl")
    open(p, "w").write(src)
    r = subprocess.run([MS, "--raw", o, p], capture_output=True, text=True)
    assert r.returncode == 0, r.stderr
    items = [json.loads(l) for l in open(o)]
    for it in items:
        it.setdefault("mod", "m")
    return items


def main():
    verbose = "-v" in sys.argv
    fail = 0
    for name, (fields, helpers, body, want) in CASES.items():
        src = "%s\nimpl MechFunctionImpl for S {\n  fn solve(&self) { unsafe {\n%s\n  } }\n}\n" % (helpers, body)
        items = items_of(src)
        solve = [it for it in items if it["k"] == "method" and it["name"] == "solve"][0]
        k, R, why = OF.analyse_solve(solve["body"], fields, ["out"], Inliner(items), solve.get("mod", ""), "S")
        if k is None:
            got = "UNRECOGNISED: " + why
            ok = False
        else:
            got = "; ".join("%s %s" % (p.kind, p.place) for p in R.problems) or None
            ok = (want is None and got is None) or (want is not None and got is not None and want in got)
        if not ok:
            fail += 1
        if verbose or not ok:
            print("%-42s %s   expected %s, got %s%s" % (name, "ok" if ok else "FAIL", want or "silent", got or "silent",
                                                         ("  idioms=%s" % R.idioms) if (k is not None and R.idioms) else ""))
            if not ok and k is not None:
                for e in k.effects:
                    print("      %s %s := %s   if %s   in %s" % (e.kind, OF.show(e.target), OF.show(e.value)[:120], [OF.show(c) for c in e.conds], [OF.show(l) for l in e.loops]))
    print("ut_c19_fresh: %d cases, %d failed" % (len(CASES), fail))
    sys.exit(1 if fail else 0)


if __name__ == "__main__":
    main()
