// mechfacts: a rustc_private driver used as RUSTC_WRAPPER.
//
// For every crate whose name starts with `mech` it
//   (A) runs the real rustc with -Zunpretty=expanded and stores the cfg-resolved,
//       macro-expanded source                     -> $MECHFACTS_OUT/<crate>.<ctype>.expanded.rs
//   (B) runs the compiler in-process and, after analysis, dumps one JSON line per MIR
//       body (blocks, statements, terminators with resolved callees, aggregates, asserts)
//                                                 -> $MECHFACTS_OUT/<crate>.<ctype>.mir.jsonl
// Every other crate is compiled unchanged.
#![feature(rustc_private)]
#![allow(unused)]

extern crate rustc_abi;
extern crate rustc_driver;
extern crate rustc_hir;
extern crate rustc_interface;
extern crate rustc_middle;
extern crate rustc_session;
extern crate rustc_span;

use rustc_driver::{run_compiler, Callbacks, Compilation};
use rustc_hir::def::DefKind;
use rustc_hir::def_id::DefId;
use rustc_middle::mir::{
    AggregateKind, AssertKind, BasicBlock, Body, Const, Operand, Place, ProjectionElem, Rvalue,
    StatementKind, TerminatorKind, UnwindAction,
};
use rustc_middle::ty::{self, GenericArgKind, GenericArgsRef, Instance, Ty, TyCtxt, TyKind};
use rustc_span::Span;
use std::fmt::Write as _;
use std::io::Write as _;

fn esc(s: &str, out: &mut String) {
    out.push('"');
    for c in s.chars() {
        match c {
            '"' => out.push_str("\\\""),
            '\\' => out.push_str("\\\\"),
            '\n' => out.push_str("\\n"),
            '\r' => out.push_str("\\r"),
            '\t' => out.push_str("\\t"),
            c if (c as u32) < 0x20 => {
                let _ = write!(out, "\\u{:04x}", c as u32);
            }
            c => out.push(c),
        }
    }
    out.push('"');
}

fn trunc(mut s: String, n: usize) -> String {
    if s.len() > n {
        let mut k = n;
        while !s.is_char_boundary(k) {
            k -= 1;
        }
        s.truncate(k);
        s.push('…');
    }
    s
}

struct Cx<'tcx> {
    tcx: TyCtxt<'tcx>,
}

impl<'tcx> Cx<'tcx> {
    fn path(&self, d: DefId) -> String {
        self.tcx.def_path_str(d)
    }

    // structured type printer: FnDef -> F{path}, Closure -> C{path}, everything else by Display
    fn ty(&self, t: Ty<'tcx>, depth: usize, out: &mut String) {
        if depth > 6 {
            out.push('_');
            return;
        }
        match t.kind() {
            TyKind::FnDef(d, args) => {
                out.push_str("F{");
                out.push_str(&self.path(*d));
                self.args(args, depth + 1, out);
                out.push('}');
            }
            TyKind::Closure(d, args) => {
                out.push_str("C{");
                out.push_str(&self.path(*d));
                let ca = args.as_closure();
                out.push('|');
                // upvar types
                if let TyKind::Tuple(ts) = ca.tupled_upvars_ty().kind() {
                    let mut first = true;
                    for u in ts.iter() {
                        if !first {
                            out.push(',');
                        }
                        first = false;
                        self.ty(u, depth + 1, out);
                    }
                }
                out.push('}');
            }
            TyKind::Adt(def, args) => {
                out.push_str(&self.path(def.did()));
                self.args(args, depth + 1, out);
            }
            TyKind::Ref(_, inner, m) => {
                out.push('&');
                if m.is_mut() {
                    out.push_str("mut ");
                }
                self.ty(*inner, depth + 1, out);
            }
            TyKind::RawPtr(inner, m) => {
                out.push_str(if m.is_mut() { "*mut " } else { "*const " });
                self.ty(*inner, depth + 1, out);
            }
            TyKind::Tuple(ts) => {
                out.push('(');
                let mut first = true;
                for u in ts.iter() {
                    if !first {
                        out.push(',');
                    }
                    first = false;
                    self.ty(u, depth + 1, out);
                }
                out.push(')');
            }
            TyKind::Slice(inner) => {
                out.push('[');
                self.ty(*inner, depth + 1, out);
                out.push(']');
            }
            TyKind::Array(inner, n) => {
                out.push('[');
                self.ty(*inner, depth + 1, out);
                let _ = write!(out, ";{}]", n);
            }
            _ => {
                let _ = write!(out, "{}", t);
            }
        }
    }

    fn args(&self, args: GenericArgsRef<'tcx>, depth: usize, out: &mut String) {
        let mut first = true;
        let mut any = false;
        for a in args.iter() {
            match a.kind() {
                GenericArgKind::Type(t) => {
                    if first {
                        out.push('<');
                        any = true;
                    } else {
                        out.push(',');
                    }
                    first = false;
                    self.ty(t, depth, out);
                }
                GenericArgKind::Const(c) => {
                    if first {
                        out.push('<');
                        any = true;
                    } else {
                        out.push(',');
                    }
                    first = false;
                    let _ = write!(out, "{}", c);
                }
                _ => {}
            }
        }
        if any {
            out.push('>');
        }
    }

    fn tys(&self, t: Ty<'tcx>) -> String {
        let mut s = String::new();
        self.ty(t, 0, &mut s);
        trunc(s, 4000)
    }

    fn place(&self, p: &Place<'tcx>, out: &mut String) {
        // [local, "proj"]
        let _ = write!(out, "[{},", p.local.as_u32());
        let mut pr = String::new();
        for e in p.projection.iter() {
            match e {
                ProjectionElem::Deref => pr.push_str("*"),
                ProjectionElem::Field(f, _) => {
                    let _ = write!(pr, ".{}", f.as_u32());
                }
                ProjectionElem::Index(l) => {
                    let _ = write!(pr, "[_{}]", l.as_u32());
                }
                ProjectionElem::ConstantIndex { offset, from_end, .. } => {
                    let _ = write!(pr, "[{}{}]", if from_end { "-" } else { "" }, offset);
                }
                ProjectionElem::Subslice { from, to, from_end } => {
                    let _ = write!(pr, "[{}..{}{}]", from, if from_end { "-" } else { "" }, to);
                }
                ProjectionElem::Downcast(name, v) => {
                    let _ = write!(
                        pr,
                        "@{}",
                        name.map(|s| s.to_string()).unwrap_or_else(|| v.as_u32().to_string())
                    );
                }
                _ => pr.push('?'),
            }
        }
        esc(&pr, out);
        out.push(']');
    }

    fn operand(&self, o: &Operand<'tcx>, out: &mut String) {
        match o {
            Operand::Copy(p) | Operand::Move(p) => self.place(p, out),
            Operand::Constant(c) => {
                let t = c.const_.ty();
                match t.kind() {
                    TyKind::FnDef(..) | TyKind::Closure(..) => {
                        out.push_str("{\"fn\":");
                        esc(&self.tys(t), out);
                        out.push('}');
                    }
                    _ => {
                        out.push_str("{\"c\":");
                        let mut s = String::new();
                        // try to evaluate integer scalars
                        let mut done = false;
                        if let Const::Val(v, _) = c.const_ {
                            if let Some(sc) = v.try_to_scalar_int() {
                                if t.is_bool() {
                                    let _ = write!(s, "{}", sc.to_bits_unchecked() != 0);
                                } else if t.is_integral() || t.is_char() {
                                    if t.is_signed() {
                                        let size = sc.size();
                                        let _ = write!(s, "{}", size.sign_extend(sc.to_bits_unchecked()));
                                    } else {
                                        let _ = write!(s, "{}", sc.to_bits_unchecked());
                                    }
                                }
                                done = !s.is_empty();
                            }
                        }
                        if !done {
                            let _ = write!(s, "{}", c.const_);
                        }
                        esc(&trunc(s, 200), out);
                        out.push_str(",\"t\":");
                        esc(&self.tys(t), out);
                        out.push('}');
                    }
                }
            }
            _ => out.push_str("{\"c\":\"?\"}"),
        }
    }

    fn line(&self, sp: Span) -> (String, usize) {
        let sm = self.tcx.sess.source_map();
        // use the outermost call site for macro-generated code
        let sp0 = sp.source_callsite();
        let lo = sm.lookup_char_pos(sp0.lo());
        let f = match &lo.file.name {
            rustc_span::FileName::Real(r) => {
                r.local_path().map(|p| p.display().to_string()).unwrap_or_else(|| format!("{:?}", r))
            }
            o => format!("{:?}", o),
        };
        (f, lo.line)
    }

    fn body(&self, def: DefId, body: &Body<'tcx>, krate: &str, ctype: &str, out: &mut String) {
        let tcx = self.tcx;
        out.push_str("{\"k\":\"body\",\"crate\":");
        esc(krate, out);
        out.push_str(",\"ctype\":");
        esc(ctype, out);
        out.push_str(",\"fn\":");
        esc(&self.path(def), out);
        let (f, l) = self.line(body.span);
        out.push_str(",\"file\":");
        esc(&f, out);
        let _ = write!(out, ",\"line\":{}", l);
        let _ = write!(out, ",\"exp\":{}", body.span.from_expansion());
        let _ = write!(out, ",\"nargs\":{}", body.arg_count);
        let dk = tcx.def_kind(def);
        let _ = write!(out, ",\"dk\":\"{:?}\"", dk);
        if matches!(dk, DefKind::Fn | DefKind::AssocFn) {
            let _ = write!(out, ",\"pub\":{}", tcx.visibility(def).is_public());
        }
        // locals
        out.push_str(",\"locals\":[");
        for (i, d) in body.local_decls.iter().enumerate() {
            if i > 0 {
                out.push(',');
            }
            esc(&self.tys(d.ty), out);
        }
        out.push_str("],\"vars\":{");
        let mut first = true;
        let mut seen = std::collections::HashSet::new();
        for v in body.var_debug_info.iter() {
            if let rustc_middle::mir::VarDebugInfoContents::Place(p) = &v.value {
                let key = format!("{}", v.name);
                let mut k = key.clone();
                let mut n = 1;
                while !seen.insert(k.clone()) {
                    n += 1;
                    k = format!("{}#{}", key, n);
                }
                if !first {
                    out.push(',');
                }
                first = false;
                esc(&k, out);
                out.push(':');
                self.place(p, out);
            }
        }
        out.push_str("},\"blocks\":[");
        let typing_env = ty::TypingEnv::post_analysis(tcx, def);
        for (bi, bb) in body.basic_blocks.iter_enumerated() {
            if bi.as_u32() > 0 {
                out.push(',');
            }
            let _ = write!(out, "{{\"cl\":{},\"s\":[", bb.is_cleanup);
            let mut firsts = true;
            for st in bb.statements.iter() {
                match &st.kind {
                    StatementKind::Assign(b) => {
                        let (pl, rv) = &**b;
                        if !firsts {
                            out.push(',');
                        }
                        firsts = false;
                        out.push_str("{\"d\":");
                        self.place(pl, out);
                        let (_, ln) = self.line(st.source_info.span);
                        let _ = write!(out, ",\"l\":{}", ln);
                        self.rvalue(rv, out);
                        out.push('}');
                    }
                    StatementKind::SetDiscriminant { place, variant_index } => {
                        if !firsts {
                            out.push(',');
                        }
                        firsts = false;
                        out.push_str("{\"d\":");
                        self.place(place, out);
                        let _ = write!(out, ",\"rk\":\"setdiscr\",\"v\":{}}}", variant_index.as_u32());
                    }
                    _ => {}
                }
            }
            out.push_str("],\"t\":");
            let term = bb.terminator();
            let (_, tl) = self.line(term.source_info.span);
            match &term.kind {
                TerminatorKind::Goto { target } => {
                    let _ = write!(out, "{{\"k\":\"goto\",\"t\":{}}}", target.as_u32());
                }
                TerminatorKind::SwitchInt { discr, targets } => {
                    out.push_str("{\"k\":\"switch\",\"on\":");
                    self.operand(discr, out);
                    out.push_str(",\"ty\":");
                    esc(&self.tys(discr.ty(body, tcx)), out);
                    out.push_str(",\"targets\":[");
                    let mut f2 = true;
                    for (v, t) in targets.iter() {
                        if !f2 {
                            out.push(',');
                        }
                        f2 = false;
                        let _ = write!(out, "[{},{}]", v, t.as_u32());
                    }
                    let _ = write!(out, "],\"else\":{},\"l\":{}}}", targets.otherwise().as_u32(), tl);
                }
                TerminatorKind::Return => out.push_str("{\"k\":\"ret\"}"),
                TerminatorKind::Unreachable => out.push_str("{\"k\":\"unreachable\"}"),
                TerminatorKind::UnwindResume => out.push_str("{\"k\":\"resume\"}"),
                TerminatorKind::UnwindTerminate(_) => out.push_str("{\"k\":\"terminate\"}"),
                TerminatorKind::Drop { place, target, unwind, .. } => {
                    out.push_str("{\"k\":\"drop\",\"p\":");
                    self.place(place, out);
                    let _ = write!(out, ",\"t\":{}", target.as_u32());
                    if let UnwindAction::Cleanup(u) = unwind {
                        let _ = write!(out, ",\"u\":{}", u.as_u32());
                    }
                    out.push('}');
                }
                TerminatorKind::Assert { cond, expected, msg, target, unwind } => {
                    out.push_str("{\"k\":\"assert\",\"cond\":");
                    self.operand(cond, out);
                    let _ = write!(out, ",\"exp\":{},\"t\":{},\"l\":{}", expected, target.as_u32(), tl);
                    let (kind, ops): (String, Vec<&Operand<'tcx>>) = match &**msg {
                        AssertKind::BoundsCheck { len, index } => ("BoundsCheck".into(), vec![len, index]),
                        AssertKind::Overflow(op, a, b) => (format!("Overflow({:?})", op), vec![a, b]),
                        AssertKind::OverflowNeg(a) => ("OverflowNeg".into(), vec![a]),
                        AssertKind::DivisionByZero(a) => ("DivisionByZero".into(), vec![a]),
                        AssertKind::RemainderByZero(a) => ("RemainderByZero".into(), vec![a]),
                        other => (trunc(format!("{:?}", other), 60), vec![]),
                    };
                    out.push_str(",\"msg\":");
                    esc(&kind, out);
                    out.push_str(",\"ops\":[");
                    for (i, o) in ops.iter().enumerate() {
                        if i > 0 {
                            out.push(',');
                        }
                        self.operand(o, out);
                    }
                    out.push_str("]}");
                }
                TerminatorKind::Call { func, args, destination, target, unwind, .. } => {
                    out.push_str("{\"k\":\"call\"");
                    let fty = func.ty(body, tcx);
                    match fty.kind() {
                        TyKind::FnDef(d, ga) => {
                            out.push_str(",\"tf\":");
                            esc(&self.path(*d), out);
                            // resolve
                            let mut resolved: Option<(DefId, GenericArgsRef<'tcx>)> = None;
                            if matches!(tcx.def_kind(*d), DefKind::Fn | DefKind::AssocFn | DefKind::Ctor(..)) {
                                if let Ok(Some(inst)) = Instance::try_resolve(tcx, typing_env, *d, ga) {
                                    let rd = inst.def_id();
                                    resolved = Some((rd, inst.args));
                                }
                            }
                            if let Some((rd, ra)) = resolved {
                                if rd != *d {
                                    out.push_str(",\"f\":");
                                    esc(&self.path(rd), out);
                                }
                            }
                            out.push_str(",\"ga\":[");
                            let mut f3 = true;
                            for a in ga.iter() {
                                if let GenericArgKind::Type(t) = a.kind() {
                                    if !f3 {
                                        out.push(',');
                                    }
                                    f3 = false;
                                    esc(&self.tys(t), out);
                                }
                            }
                            out.push(']');
                        }
                        TyKind::FnPtr(..) => {
                            out.push_str(",\"tf\":\"<fnptr>\",\"fp\":");
                            self.operand(func, out);
                        }
                        _ => {
                            out.push_str(",\"tf\":\"<dyn>\",\"fp\":");
                            self.operand(func, out);
                            out.push_str(",\"fty\":");
                            esc(&self.tys(fty), out);
                        }
                    }
                    out.push_str(",\"args\":[");
                    for (i, a) in args.iter().enumerate() {
                        if i > 0 {
                            out.push(',');
                        }
                        self.operand(&a.node, out);
                    }
                    out.push_str("],\"d\":");
                    self.place(destination, out);
                    if let Some(t) = target {
                        let _ = write!(out, ",\"t\":{}", t.as_u32());
                    }
                    if let UnwindAction::Cleanup(u) = unwind {
                        let _ = write!(out, ",\"u\":{}", u.as_u32());
                    }
                    let _ = write!(out, ",\"l\":{},\"x\":{}}}", tl, term.source_info.span.from_expansion());
                }
                other => {
                    // FalseEdge etc. never appear in optimized MIR; be robust anyway
                    out.push_str("{\"k\":\"other\",\"succ\":[");
                    let mut f4 = true;
                    for s in term.successors() {
                        if !f4 {
                            out.push(',');
                        }
                        f4 = false;
                        let _ = write!(out, "{}", s.as_u32());
                    }
                    out.push_str("]}");
                }
            }
            out.push('}');
        }
        out.push_str("]}\n");
    }

    fn rvalue(&self, rv: &Rvalue<'tcx>, out: &mut String) {
        match rv {
            Rvalue::Use(o, ..) => {
                out.push_str(",\"rk\":\"use\",\"src\":[");
                self.operand(o, out);
                out.push(']');
            }
            Rvalue::Ref(_, bk, p) => {
                let m = matches!(bk, rustc_middle::mir::BorrowKind::Mut { .. });
                let _ = write!(out, ",\"rk\":\"ref\",\"mut\":{},\"src\":[", m);
                self.place(p, out);
                out.push(']');
            }
            Rvalue::RawPtr(k, p) => {
                let _ = write!(out, ",\"rk\":\"rawptr\",\"mut\":{},\"src\":[", matches!(k, rustc_middle::mir::RawPtrKind::Mut));
                self.place(p, out);
                out.push(']');
            }
            Rvalue::CopyForDeref(p) => {
                out.push_str(",\"rk\":\"use\",\"src\":[");
                self.place(p, out);
                out.push(']');
            }
            Rvalue::Cast(k, o, t) => {
                let _ = write!(out, ",\"rk\":\"cast\",\"ck\":");
                esc(&trunc(format!("{:?}", k), 60), out);
                out.push_str(",\"to\":");
                esc(&self.tys(*t), out);
                out.push_str(",\"src\":[");
                self.operand(o, out);
                out.push(']');
            }
            Rvalue::BinaryOp(op, b) => {
                let _ = write!(out, ",\"rk\":\"bin\",\"op\":\"{:?}\",\"src\":[", op);
                self.operand(&b.0, out);
                out.push(',');
                self.operand(&b.1, out);
                out.push(']');
            }
            Rvalue::UnaryOp(op, o) => {
                let _ = write!(out, ",\"rk\":\"un\",\"op\":\"{:?}\",\"src\":[", op);
                self.operand(o, out);
                out.push(']');
            }
            Rvalue::Discriminant(p) => {
                out.push_str(",\"rk\":\"discr\",\"src\":[");
                self.place(p, out);
                out.push(']');
            }
            Rvalue::Repeat(o, _) => {
                out.push_str(",\"rk\":\"repeat\",\"src\":[");
                self.operand(o, out);
                out.push(']');
            }
            Rvalue::Aggregate(k, ops) => {
                out.push_str(",\"rk\":\"agg\"");
                match &**k {
                    AggregateKind::Adt(d, v, ga, _, _) => {
                        out.push_str(",\"adt\":");
                        esc(&self.path(*d), out);
                        let adt = self.tcx.adt_def(*d);
                        let var = adt.variant(*v);
                        out.push_str(",\"var\":");
                        esc(&var.name.to_string(), out);
                        out.push_str(",\"fields\":[");
                        for (i, f) in var.fields.iter().enumerate() {
                            if i > 0 {
                                out.push(',');
                            }
                            esc(&f.name.to_string(), out);
                        }
                        out.push_str("],\"aga\":");
                        let mut s = String::new();
                        self.args(ga, 0, &mut s);
                        esc(&trunc(s, 12000), out);
                    }
                    AggregateKind::Closure(d, _) | AggregateKind::Coroutine(d, _) | AggregateKind::CoroutineClosure(d, _) => {
                        out.push_str(",\"closure\":");
                        esc(&self.path(*d), out);
                    }
                    AggregateKind::Tuple => out.push_str(",\"tuple\":true"),
                    AggregateKind::Array(_) => out.push_str(",\"array\":true"),
                    _ => {}
                }
                out.push_str(",\"src\":[");
                for (i, o) in ops.iter().enumerate() {
                    if i > 0 {
                        out.push(',');
                    }
                    self.operand(o, out);
                }
                out.push(']');
            }
            _ => {
                out.push_str(",\"rk\":\"other\",\"src\":[]");
            }
        }
    }
}

struct Cb {
    krate: String,
    ctype: String,
    outdir: String,
}

impl Callbacks for Cb {
    fn after_analysis<'tcx>(&mut self, _c: &rustc_interface::interface::Compiler, tcx: TyCtxt<'tcx>) -> Compilation {
        rustc_middle::ty::print::with_resolve_crate_name!(rustc_middle::ty::print::with_no_trimmed_paths!(rustc_middle::ty::print::with_no_visible_paths!(self.dump(tcx))));
        Compilation::Continue
    }
}

impl Cb {
    fn dump<'tcx>(&mut self, tcx: TyCtxt<'tcx>) {
        let cx = Cx { tcx };
        let mut out = String::with_capacity(64 << 20);
        let mut n = 0usize;
        // adt records (struct fields / enum variants) of the local crate
        for id in tcx.hir_crate_items(()).definitions() {
            let did = id.to_def_id();
            match tcx.def_kind(did) {
                DefKind::Struct | DefKind::Enum => {
                    let adt = tcx.adt_def(did);
                    out.push_str("{\"k\":\"adt\",\"crate\":");
                    esc(&self.krate, &mut out);
                    out.push_str(",\"ctype\":");
                    esc(&self.ctype, &mut out);
                    out.push_str(",\"name\":");
                    esc(&cx.path(did), &mut out);
                    let _ = write!(out, ",\"enum\":{},\"variants\":[", adt.is_enum());
                    for (vi, v) in adt.variants().iter().enumerate() {
                        if vi > 0 {
                            out.push(',');
                        }
                        out.push_str("{\"name\":");
                        esc(&v.name.to_string(), &mut out);
                        out.push_str(",\"fields\":[");
                        for (fi, f) in v.fields.iter().enumerate() {
                            if fi > 0 {
                                out.push(',');
                            }
                            out.push('[');
                            esc(&f.name.to_string(), &mut out);
                            out.push(',');
                            let fty = tcx.type_of(f.did).instantiate_identity().skip_normalization();
                            esc(&cx.tys(fty), &mut out);
                            let _ = write!(out, ",{}]", tcx.visibility(f.did).is_public());
                        }
                        out.push_str("]}");
                    }
                    out.push_str("]}\n");
                }
                _ => {}
            }
        }
        for ld in tcx.mir_keys(()).iter() {
            let did = ld.to_def_id();
            let dk = tcx.def_kind(did);
            if !matches!(dk, DefKind::Fn | DefKind::AssocFn | DefKind::Closure) {
                continue;
            }
            if !tcx.is_mir_available(did) {
                continue;
            }
            let body = tcx.optimized_mir(did);
            cx.body(did, body, &self.krate, &self.ctype, &mut out);
            n += 1;
        }
        let p = format!("{}/{}.{}.mir.jsonl", self.outdir, self.krate, self.ctype);
        let tmp = format!("{}.tmp{}", p, std::process::id());
        let mut f = std::fs::File::create(&tmp).expect("create fact file");
        f.write_all(out.as_bytes()).expect("write facts");
        drop(f);
        std::fs::rename(&tmp, &p).expect("rename facts");
        let _ = std::fs::write(format!("{}/{}.{}.mir.count", self.outdir, self.krate, self.ctype), format!("{}\n", n));
    }
}

struct NoCb;
impl Callbacks for NoCb {}

fn arg_val<'a>(args: &'a [String], key: &str) -> Option<&'a str> {
    let mut i = 0;
    while i < args.len() {
        if args[i] == key {
            return args.get(i + 1).map(|s| s.as_str());
        }
        if let Some(rest) = args[i].strip_prefix(key) {
            if let Some(v) = rest.strip_prefix('=') {
                return Some(v);
            }
        }
        i += 1;
    }
    None
}

fn main() {
    let all: Vec<String> = std::env::args().collect();
    // RUSTC_WRAPPER: argv = [wrapper, rustc, args...]
    if all.len() < 2 {
        eprintln!("mechfacts: use as RUSTC_WRAPPER");
        std::process::exit(2);
    }
    let args: Vec<String> = all[1..].to_vec();
    let krate = arg_val(&args, "--crate-name").unwrap_or("").to_string();
    let ctype = if arg_val(&args, "--crate-type").unwrap_or("bin") == "bin" { "bin".to_string() } else { "lib".to_string() };
    let outdir = std::env::var("MECHFACTS_OUT").unwrap_or_default();
    let is_build_script = krate.starts_with("build_script");
    let is_test = args.iter().any(|a| a == "--test");
    let want = !outdir.is_empty() && krate.starts_with("mech") && !is_build_script && !is_test;
    if !want {
        run_compiler(&args, &mut NoCb);
        return;
    }
    // pass A: expanded source, in a helper process, concurrently with pass B
    let exp_path = format!("{}/{}.{}.expanded.rs", outdir, krate, ctype);
    let mut a2: Vec<String> = args[1..].iter().filter(|a| !a.starts_with("--error-format") && !a.starts_with("--json")).cloned().collect();
    a2.push("-Zunpretty=expanded".into());
    let rustc = args[0].clone();
    let tmp = format!("{}.tmp{}", exp_path, std::process::id());
    let tmpf = std::fs::File::create(&tmp).expect("create expanded file");
    let child = std::process::Command::new(&rustc)
        .args(&a2)
        .stdout(tmpf)
        .stderr(std::process::Stdio::null())
        .spawn();
    let mut cb = Cb { krate, ctype, outdir };
    run_compiler(&args, &mut cb);
    if let Ok(mut ch) = child {
        let st = ch.wait();
        if st.map(|s| s.success()).unwrap_or(false) {
            let _ = std::fs::rename(&tmp, &exp_path);
        } else {
            let _ = std::fs::remove_file(&tmp);
        }
    }
}
