#!/usr/bin/env python3
"""Maintain known_findings.json.
  kf.py add <prop> [--filter REGEX] [--what TEXT] [--input TEXT]   add the violations of the last run (evidence/<prop>.violations.json)
  kf.py list [prop]
Entries are matched by exact key; nothing is ever added at check time."""
import json
import os
import re
import sys

VERIF = os.path.dirname(os.path.dirname(os.path.abspath(__file__)))
KF = os.path.join(VERIF, "known_findings.json")


def main():
    kf = json.load(open(KF))
    cmd = sys.argv[1]
    if cmd == "list":
        for e in kf["findings"]:
            if len(sys.argv) < 3 or e["property"] == sys.argv[2]:
                print(e["property"], e["key"], "|", e.get("input", ""))
        return
    if cmd == "add":
        prop = sys.argv[2]
        args = sys.argv[3:]
        def opt(name):
            return args[args.index(name) + 1] if name in args else None
        flt = opt("--filter")
        what = opt("--what")
        inp = opt("--input")
        vs = json.load(open(os.path.join(VERIF, "evidence", prop + ".violations.json")))
        have = {(e["property"], e["key"]) for e in kf["findings"]}
        n = 0
        for v in vs:
            if flt and not re.search(flt, v["key"]):
                continue
            if (prop, v["key"]) in have:
                continue
            e = {"property": prop, "key": v["key"], "what": what or v["msg"], "where": v["where"]}
            if inp:
                e["input"] = inp
            kf["findings"].append(e)
            n += 1
        kf["findings"].sort(key=lambda e: (e["property"], e["key"]))
        json.dump(kf, open(KF, "w"), indent=1)
        print("added", n)


if __name__ == "__main__":
    main()
