#!/bin/bash
# usage: ruleagent_setup.sh <name> <Cxx> <seed-dir (under /verif/seeded)> <file with the check's output on /repo+patch>
# creates an own-cache clone /tmp/vf/<name>/verif and the prompt /tmp/vf/<name>/PROMPT.txt from tools/PROMPT_RULE.tmpl
N=$1; PROP=$2; SEED=$(readlink -f $3); OUTF=$4
bash /verif/tools/mkclone.sh $N own > /dev/null
D=/tmp/vf/$N
python3 - "$N" "$PROP" "$SEED" "$OUTF" > $D/PROMPT.txt <<'P'
import sys, json
n, prop, seed, outf = sys.argv[1:5]
d = "/tmp/vf/%s" % n
rec = [json.loads(l) for l in open('/verif/properties.jsonl') if json.loads(l)['id'] == prop][0]
s = open('/verif/tools/PROMPT_RULE.tmpl').read()
s = s.replace('__PROPTEXT__', rec.get('title', '') + ': ' + (rec.get('statement') or rec.get('text') or ''))
s = s.replace('__PROP__', prop).replace('Cxx', prop).replace('cxx', prop.lower())
s = s.replace('__SEED__', seed).replace('__OUTPUT__', open(outf).read()[-3000:])
s = s.replace('__CLONE_DIR__', d).replace('__CLONE__', d + '/verif')
print(s)
P
echo $D/PROMPT.txt
