struct S;
impl S {
  // ---- expected OK
  fn ok_orig(&self, arguments: &Vec<Value>) -> R {
    let lhs_value = arguments[0].clone();
    let rhs_value = arguments[1].clone();
    match impl_sub_fxn(lhs_value.clone(), rhs_value.clone()) {
      Ok(fxn) => Ok(fxn),
      Err(_) => {
        match (lhs_value,rhs_value) {
          (Value::MutableReference(lhs),Value::MutableReference(rhs)) => {impl_sub_fxn(lhs.borrow().clone(), rhs.borrow().clone())}
          (lhs_value,Value::MutableReference(rhs)) => { impl_sub_fxn(lhs_value.clone(), rhs.borrow().clone())}
          (Value::MutableReference(lhs),rhs_value) => { impl_sub_fxn(lhs.borrow().clone(), rhs_value.clone()) }
          (lhs, rhs) => {
            if let Some(rhs_converted) = rhs.convert_to(&lhs.kind()) {
              if let Ok(fxn) = impl_sub_fxn(lhs.clone(), rhs_converted) { return Ok(fxn); }
            }
            if let Some(lhs_converted) = lhs.convert_to(&rhs.kind()) {
              if let Ok(fxn) = impl_sub_fxn(lhs_converted, rhs.clone()) { return Ok(fxn); }
            }
            Err(e)
          },
        }
      }
    }
  }
  fn ok_match(&self, arguments: &Vec<Value>) -> R {
    let lhs_value = arguments[0].clone();
    let rhs_value = arguments[1].clone();
    if let Ok(fxn) = impl_sub_fxn(lhs_value.clone(), rhs_value.clone()) { return Ok(fxn); }
    match (lhs_value,rhs_value) {
      (lhs, rhs) => {
        match rhs.convert_to(&lhs.kind()) {
          Some(rhs_converted) => match impl_sub_fxn(lhs.clone(), rhs_converted) { Ok(fxn) => return Ok(fxn), Err(_) => {} },
          None => {}
        }
        match lhs.convert_to(&rhs.kind()) {
          Some(lhs_converted) => match impl_sub_fxn(lhs_converted, rhs.clone()) { Ok(fxn) => return Ok(fxn), Err(_) => {} },
          None => {}
        }
        Err(e)
      },
    }
  }
  fn ok_closure(&self, arguments: &Vec<Value>) -> R {
    let (a, b) = (arguments[0].clone(), arguments[1].clone());
    match (a, b) {
      (lhs, rhs) => {
        if let Some(f) = rhs.convert_to(&lhs.kind()).and_then(|r| impl_sub_fxn(lhs.clone(), r).ok()) { return Ok(f); }
        let target = rhs.kind();
        let conv = lhs.convert_to(&target);
        let Some(l2) = conv else { return Err(e); };
        impl_sub_fxn(l2, rhs.clone())
      }
    }
  }
  fn ok_inline_convert(&self, arguments: &Vec<Value>) -> R {
    match (arguments[0].clone(), arguments[1].clone()) {
      (lhs, rhs) => { impl_sub_fxn(lhs.clone(), rhs.convert_to(&lhs.kind()).unwrap()) }
    }
  }
  fn ok_nested_single(&self, arguments: &Vec<Value>) -> R {
    let l = &arguments[0]; let r = &arguments[1];
    match l { Value::MutableReference(lr) => match r { Value::MutableReference(rr) => impl_sub_fxn(lr.borrow().clone(), rr.borrow().clone()), other => impl_sub_fxn(lr.borrow().clone(), other.clone()) }, plain => impl_sub_fxn(plain.clone(), r.clone()) }
  }
  fn ok_swapped_scrutinee(&self, arguments: &Vec<Value>) -> R {
    let l = arguments[0].clone(); let r = arguments[1].clone();
    match (r, l) { (Value::MutableReference(rr), ll) => impl_sub_fxn(ll.clone(), rr.borrow().clone()), (rr, ll) => impl_sub_fxn(ll, rr) }
  }
  fn ok_helper(&self, arguments: &Vec<Value>) -> R {
    binop_with_fallback(arguments, impl_sub_fxn, "MathSub")
  }
  fn ok_helper2(&self, arguments: &Vec<Value>) -> R {
    let lhs_value = arguments[0].clone();
    let rhs_value = arguments[1].clone();
    match (lhs_value,rhs_value) {
      (Value::MutableReference(lhs),Value::MutableReference(rhs)) => {impl_sub_fxn(lhs.borrow().clone(), rhs.borrow().clone())}
      (lhs, rhs) => try_converted(&lhs, &rhs, impl_sub_fxn),
    }
  }
  fn ok_shadow(&self, arguments: &Vec<Value>) -> R {
    match (arguments[0].clone(), arguments[1].clone()) {
      (lhs, rhs) => { let (lhs, rhs) = (lhs.deref_value(), rhs.deref_value()); impl_sub_fxn(lhs, rhs) }
    }
  }
  // ---- expected BAD
  fn bad_swapped_arm(&self, arguments: &Vec<Value>) -> R {
    let lhs_value = arguments[0].clone();
    let rhs_value = arguments[1].clone();
    match (lhs_value,rhs_value) {
      (lhs_value,Value::MutableReference(rhs)) => { impl_sub_fxn(rhs.borrow().clone(), lhs_value.clone())}
      (lhs, rhs) => impl_sub_fxn(lhs, rhs),
    }
  }
  fn bad_swapped_converted(&self, arguments: &Vec<Value>) -> R {
    match (arguments[0].clone(), arguments[1].clone()) {
      (lhs, rhs) => {
        match rhs.convert_to(&lhs.kind()) {
          Some(rhs_converted) => match impl_sub_fxn(rhs_converted, lhs.clone()) { Ok(fxn) => return Ok(fxn), Err(_) => {} },
          None => {}
        }
        Err(e)
      }
    }
  }
  fn bad_args_swapped_at_read(&self, arguments: &Vec<Value>) -> R {
    let lhs_value = arguments[1].clone();
    let rhs_value = arguments[0].clone();
    match (lhs_value,rhs_value) { (lhs, rhs) => impl_sub_fxn(lhs, rhs) }
  }
  fn bad_shadow_swap(&self, arguments: &Vec<Value>) -> R {
    match (arguments[0].clone(), arguments[1].clone()) {
      (lhs, rhs) => { let (lhs, rhs) = (rhs, lhs); impl_sub_fxn(lhs, rhs) }
    }
  }
  fn bad_same_twice(&self, arguments: &Vec<Value>) -> R {
    match (arguments[0].clone(), arguments[1].clone()) { (lhs, rhs) => impl_sub_fxn(lhs.clone(), lhs.clone()) }
  }
  fn bad_helper(&self, arguments: &Vec<Value>) -> R {
    match (arguments[0].clone(), arguments[1].clone()) { (lhs, rhs) => try_converted(&rhs, &lhs, impl_sub_fxn) }
  }
  fn bad_helper_body(&self, arguments: &Vec<Value>) -> R {
    binop_with_fallback_swapping(arguments, impl_sub_fxn, "MathSub")
  }
  fn bad_closure(&self, arguments: &Vec<Value>) -> R {
    match (arguments[0].clone(), arguments[1].clone()) {
      (lhs, rhs) => { if let Some(f) = rhs.convert_to(&lhs.kind()).and_then(|r| impl_sub_fxn(r, lhs.clone()).ok()) { return Ok(f); } Err(e) }
    }
  }
}
fn try_converted(a: &Value, b: &Value, gen: fn(Value, Value) -> R) -> R {
  if let Some(bc) = b.convert_to(&a.kind()) { if let Ok(f) = gen(a.clone(), bc) { return Ok(f); } }
  match a.convert_to(&b.kind()) { Some(ac) => gen(ac, b.clone()), None => Err(e) }
}
fn binop_with_fallback(args: &Vec<Value>, gen: fn(Value, Value) -> R, name: &str) -> R {
  let x = args[0].clone(); let y = args[1].clone();
  if let Ok(f) = gen(x.clone(), y.clone()) { return Ok(f); }
  match (x, y) {
    (Value::MutableReference(p), q) => gen(p.borrow().clone(), q.clone()),
    (p, q) => try_converted(&p, &q, gen),
  }
}
fn binop_with_fallback_swapping(args: &Vec<Value>, gen: fn(Value, Value) -> R, name: &str) -> R {
  let x = args[0].clone(); let y = args[1].clone();
  match (x, y) {
    (Value::MutableReference(p), q) => gen(q.clone(), p.borrow().clone()),
    (p, q) => gen(p, q),
  }
}
impl S {
  fn ok_slice_pattern(&self, arguments: &Vec<Value>) -> R {
    let [l, r] = arguments.as_slice() else { return Err(e); };
    match (l.clone(), r.clone()) { (Value::MutableReference(a), b) => impl_sub_fxn(a.borrow().clone(), b.clone()), (a, b) => impl_sub_fxn(a, b) }
  }
  fn ok_slice_match(&self, arguments: &Vec<Value>) -> R {
    match &arguments[..] { [l, r] => impl_sub_fxn(l.clone(), r.clone()), _ => Err(e) }
  }
  fn bad_slice_pattern(&self, arguments: &Vec<Value>) -> R {
    let [l, r] = arguments.as_slice() else { return Err(e); };
    impl_sub_fxn(r.clone(), l.clone())
  }
}
