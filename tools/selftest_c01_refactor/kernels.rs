struct S;
impl S {
  fn k_for(&self) {
    let lhs_ptr = self.lhs.as_ptr(); let rhs_ptr = self.rhs.as_ptr(); let out_ptr = self.out.as_mut_ptr();
    unsafe { for i in 0..(&*lhs_ptr).len() { (&mut *out_ptr)[i] = (&*lhs_ptr)[i] - *rhs_ptr; } }
  }
  fn k_while(&self) {
    let lhs_ptr = self.lhs.as_ptr(); let rhs_ptr = self.rhs.as_ptr(); let out_ptr = self.out.as_mut_ptr();
    unsafe { let m = &*lhs_ptr; let o = &mut *out_ptr; let mut ix = 0; while ix < m.len() { o[ix] = m[ix] - *rhs_ptr; ix += 1; } }
  }
  fn k_while_gt(&self) {
    let lhs_ptr = self.lhs.as_ptr(); let rhs_ptr = self.rhs.as_ptr(); let out_ptr = self.out.as_mut_ptr();
    unsafe { let m = &*lhs_ptr; let o = &mut *out_ptr; let n = m.len(); let mut ix: usize = 0; while n > ix { o[ix] = m[ix] - *rhs_ptr; ix = ix + 1; } }
  }
  fn k_while_short(&self) {
    let lhs_ptr = self.lhs.as_ptr(); let rhs_ptr = self.rhs.as_ptr(); let out_ptr = self.out.as_mut_ptr();
    unsafe { let m = &*lhs_ptr; let o = &mut *out_ptr; let mut ix = 0; while ix < m.len() - 1 { o[ix] = m[ix] - *rhs_ptr; ix += 1; } }
  }
  fn k_while_from1(&self) {
    let lhs_ptr = self.lhs.as_ptr(); let rhs_ptr = self.rhs.as_ptr(); let out_ptr = self.out.as_mut_ptr();
    unsafe { let m = &*lhs_ptr; let o = &mut *out_ptr; let mut ix = 1; while ix < m.len() { o[ix] = m[ix] - *rhs_ptr; ix += 1; } }
  }
  fn k_while_step2(&self) {
    let lhs_ptr = self.lhs.as_ptr(); let rhs_ptr = self.rhs.as_ptr(); let out_ptr = self.out.as_mut_ptr();
    unsafe { let m = &*lhs_ptr; let o = &mut *out_ptr; let mut ix = 0; while ix < m.len() { o[ix] = m[ix] - *rhs_ptr; ix += 2; } }
  }
  fn k_while_break(&self) {
    let lhs_ptr = self.lhs.as_ptr(); let rhs_ptr = self.rhs.as_ptr(); let out_ptr = self.out.as_mut_ptr();
    unsafe { let m = &*lhs_ptr; let o = &mut *out_ptr; let mut ix = 0; while ix < m.len() { if ix > 3 { break; } o[ix] = m[ix] - *rhs_ptr; ix += 1; } }
  }
  fn k_while_dirty(&self) {
    let lhs_ptr = self.lhs.as_ptr(); let rhs_ptr = self.rhs.as_ptr(); let out_ptr = self.out.as_mut_ptr();
    unsafe { let m = &*lhs_ptr; let o = &mut *out_ptr; let mut ix = 0; ix += 1; while ix < m.len() { o[ix] = m[ix] - *rhs_ptr; ix += 1; } }
  }
  fn k_while_double_inc(&self) {
    let lhs_ptr = self.lhs.as_ptr(); let rhs_ptr = self.rhs.as_ptr(); let out_ptr = self.out.as_mut_ptr();
    unsafe { let m = &*lhs_ptr; let o = &mut *out_ptr; let mut ix = 0; while ix < m.len() { ix += 1; o[ix] = m[ix] - *rhs_ptr; ix += 1; } }
  }
  fn k_while_outer(&self) {
    let lhs_ptr = self.lhs.as_ptr(); let rhs_ptr = self.rhs.as_ptr(); let out_ptr = self.out.as_mut_ptr();
    unsafe { let m = &*lhs_ptr; let o = &mut *out_ptr; let mut ix = 0; for r in 0..3 { while ix < m.len() { o[ix] = m[ix] - *rhs_ptr; ix += 1; } } }
  }
  fn k_while_bound_moves(&self) {
    let lhs_ptr = self.lhs.as_ptr(); let rhs_ptr = self.rhs.as_ptr(); let out_ptr = self.out.as_mut_ptr();
    unsafe { let m = &*lhs_ptr; let o = &mut *out_ptr; let mut n = m.len(); let mut ix = 0; while ix < n { o[ix] = m[ix] - *rhs_ptr; n -= 1; ix += 1; } }
  }
  fn k_while_swapped(&self) {
    let lhs_ptr = self.lhs.as_ptr(); let rhs_ptr = self.rhs.as_ptr(); let out_ptr = self.out.as_mut_ptr();
    unsafe { let m = &*lhs_ptr; let o = &mut *out_ptr; let mut ix = 0; while ix < m.len() { o[ix] = *rhs_ptr - m[ix]; ix += 1; } }
  }
  fn k_while_after(&self) {
    let lhs_ptr = self.lhs.as_ptr(); let rhs_ptr = self.rhs.as_ptr(); let out_ptr = self.out.as_mut_ptr();
    unsafe { let m = &*lhs_ptr; let o = &mut *out_ptr; let mut ix = 0; while ix < m.len() { o[ix] = m[ix] - *rhs_ptr; ix += 1; } o[ix] = *rhs_ptr; }
  }
  fn k_while_nested(&self) {
    let lhs_ptr = self.lhs.as_ptr(); let rhs_ptr = self.rhs.as_ptr(); let out_ptr = self.out.as_mut_ptr();
    unsafe { let m = &*lhs_ptr; let o = &mut *out_ptr; let mut c = 0; while c < m.ncols() { let mut r = 0; while r < m.nrows() { o[(r, c)] = m[(r, c)] - *rhs_ptr; r += 1; } c += 1; } }
  }
}
