#!/bin/bash
# usage: seed_verify_queue.sh <outdir>...  — run seed_verify.sh for each, one at a time, holding a lock on the shared worktree
exec 9>/tmp/seed/vwt.lock
flock 9
for d in "$@"; do echo "=== $d"; bash /verif/tools/seed_verify.sh "$d"; done
