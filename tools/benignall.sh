#!/bin/bash
# usage: benignall.sh [all]  — every stored behaviour-preserving variant must leave its property's check silent ("all": run all 20 checks on each)
cd /verif
rc=0
for d in benign/*/; do
  n=$(basename $d); prop=${n%%-*}
  [ -f $d/patch.diff ] || continue
  props=$prop; [ "$1" = "all" ] && props="C01 C02 C03 C04 C05 C06 C07 C08 C09 C10 C11 C12 C13 C14 C15 C16 C17 C18 C19 C20"
  out=$(bash tools/variantcheck.sh /verif/$d/patch.diff $props 2>&1)
  if echo "$out" | grep -q "^VIOLATION"; then echo "FALSE-ALARM $n: $(echo "$out" | grep -c 'violation:') violations ($(echo "$out" | grep '^VIOLATION' | sed 's/.*property=\([A-Z0-9]*\).*/\1/' | tr '\n' ' '))"; rc=1; else echo "SILENT      $n"; fi
done
exit $rc
