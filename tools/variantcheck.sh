#!/bin/bash
# usage: variantcheck.sh <patch.diff> <prop>...   — run checks against a scratch copy of /repo with the patch applied.
# /repo itself is not touched and /verif/evidence keeps describing /repo (evidence of the variant goes to /tmp/mechverif-variant/evidence).
P=$(readlink -f "$1"); shift
VERIF_DIR=${VERIF_CLONE:-/verif}
V=/tmp/mechverif-variant; [ -n "$VERIF_CLONE" ] && V=$(dirname $VERIF_CLONE)/variant
mkdir -p $V/repo $V/evidence
rsync -a --delete --exclude target --exclude .git /repo/ $V/repo/
# the scratch copy has no .git: a patch stored with LF line ends against a CRLF file needs --ignore-whitespace there
( cd $V/repo && { git apply "$P" 2>/dev/null || git apply --ignore-whitespace "$P"; } ) || { echo "patch does not apply"; exit 2; }
rc=0
for prop in "$@"; do
  out=$(cd $VERIF_DIR && MECH_REPO=$V/repo VERIF_EVIDENCE_DIR=$V/evidence python3 verif.py $prop 2>&1)
  echo "$out" | grep -E "violation:" | cut -c1-300 | head -${VC_MAX:-8}
  echo "$out" | grep -E "^VIOLATION|INFRA|obligations" | cut -c1-300
  echo "$out" | grep -q "^VIOLATION" && rc=1
done
exit $rc
