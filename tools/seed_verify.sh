#!/bin/bash
# usage: seed_verify.sh <outdir>   — confirm a seeded change in its scratch worktree:
#   demo fails with the patch, passes without; the unedited suite passes with the patch.
OUT=$1
WT=${VWT:-/tmp/seed/vwt}   # several verification worktrees may run in parallel (VWT=/tmp/seed/vwt2 ...)
export CARGO_INCREMENTAL=0
if [ ! -d $WT ]; then git -C /repo worktree add --detach $WT HEAD -q && cp -a /tmp/seed/base/target $WT/target; fi
cd $WT || exit 2
LOG=$OUT/verify.log; : > $LOG
DEMO_DST=$(grep -oE '([A-Za-z0-9_]+/)*tests/[A-Za-z0-9_]+\.rs' $OUT/demo_cmd.txt | grep -v '^tmp/' | head -1)
PKG=$(grep -oE -- '-p [a-z_-]+' $OUT/demo_cmd.txt | head -1)   # a demo placed in a member crate's tests/ directory
[ -z "$DEMO_DST" ] && DEMO_DST=tests/seed_demo.rs
DEMO_NAME=$(basename $DEMO_DST .rs)
git checkout -q -- . ; git clean -fdq -e target
mkdir -p $(dirname $DEMO_DST); cp $OUT/demo.rs $DEMO_DST
echo "== demo WITHOUT patch (expect pass)" >> $LOG
timeout 900 cargo test $PKG --offline -j ${VJ:-6} --test $DEMO_NAME >> $LOG 2>&1; A=$?
git apply $OUT/patch.diff || { echo "PATCH DOES NOT APPLY" >> $LOG; exit 3; }
echo "== demo WITH patch (expect fail)" >> $LOG
timeout 900 cargo test $PKG --offline -j ${VJ:-6} --test $DEMO_NAME >> $LOG 2>&1; B=$?
rm -f $DEMO_DST
echo "== suite WITH patch (expect pass)" >> $LOG
cargo nextest run --workspace --no-fail-fast --test-threads ${VJ:-6} --offline >> $LOG 2>&1; C=$?
grep -E "Summary|tests run" $LOG | tail -3
echo "RESULT demo_without=$A demo_with=$B suite_with=$C" | tee -a $LOG
[ $A -eq 0 ] && [ $B -ne 0 ] && [ $C -eq 0 ] && echo CONFIRMED | tee -a $LOG
