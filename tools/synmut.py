#!/usr/bin/env python3
"""Fast checker self-test for SYNTAX-ONLY rules: mutate the macro-expanded text of one module taken from a cached fact snapshot, re-run mechsyn on that module
alone and evaluate a rule module on the snapshot with the module's syn items replaced. No cargo run: ~10 s per mutant instead of 1-3 min, so whole families of
behaviour-preserving rewrites (must stay silent, obligations not lower) and of defects written in refactored shapes (must be reported) can be replayed.
MIR facts are NOT changed, so this is only valid for rules that read the syn facts of the mutated module (C10-R1..R5, R7); use tools/mut.py / variantcheck.sh
for the real pipeline.

usage: tools/synmut.py <Cxx> <facts-dir | repo | path-of-a-tree whose facts are cached> <crate> <module> <spec.py> [name-filter]
  spec.py defines  MUTS = [(name, expected-key-substring | None for a benign twin, [(old, new), ...]), ...]   (edits on the expanded text of the module)
  and optionally   MIN_OBLIGATIONS = n   (benign twins must not yield fewer obligations)"""
import contextlib
import importlib
import io
import json
import os
import shutil
import subprocess
import sys
import tempfile

VERIF = os.path.dirname(os.path.dirname(os.path.abspath(__file__)))
sys.path.insert(0, VERIF)
from lib.facts import Facts          # noqa: E402
from lib.report import Report        # noqa: E402

MECHSYN = os.path.join(VERIF, "tools/mechsyn/target/release/mechsyn")


def module_text(expanded, module):
    """the text of top-level `pub mod <module> { .. }` of an expanded crate (rustc pretty-prints the closing brace in column 0)"""
    out, on = [], False
    for line in open(expanded):
        if not on and (line.startswith("pub mod %s {" % module) or line.startswith("mod %s {" % module)):
            on = True
        if on:
            out.append(line)
            if line.startswith("}") and len(out) > 1:
                break
    return "".join(out)


def facts_dir(spec):
    if os.path.exists(os.path.join(spec, "DONE")):
        return spec
    os.environ["MECH_REPO"] = "/repo" if spec == "repo" else spec
    import pipeline
    return pipeline.ensure_facts()


def main():
    prop, spec, crate, module, specfile = sys.argv[1:6]
    flt = sys.argv[6] if len(sys.argv) > 6 else ""
    d = facts_dir(spec)
    text = module_text(os.path.join(d, crate + ".lib.expanded.rs"), module)
    ns = {}
    exec(open(specfile).read(), ns)
    os.environ.setdefault("VERIF_EVIDENCE_DIR", tempfile.mkdtemp(prefix="synmut-ev-"))
    F = Facts(d)
    orig = F.syn(crate + ".lib")
    mod = importlib.import_module("rules.%s" % prop.lower())
    tmp = tempfile.mkdtemp(prefix="synmut-")
    allok = True
    for name, expect, edits in ns["MUTS"]:
        if flt and flt not in name:
            continue
        t = text
        for old, new in edits:
            assert t.count(old) >= 1, (name, old[:80])
            t = t.replace(old, new, 1)
        open(os.path.join(tmp, crate + ".lib.expanded.rs"), "w").write(t)
        r = subprocess.run([MECHSYN, tmp, crate + ".lib.expanded.rs"], capture_output=True, text=True)
        if r.returncode != 0:
            print("%-45s PARSE-ERROR %s" % (name, r.stderr[-300:]))
            allok = False
            continue
        new_items = [json.loads(l) for l in open(os.path.join(tmp, crate + ".lib.syn.jsonl"))]
        F._syn[crate + ".lib"] = [it for it in orig if it.get("mod", "").split("::")[0] != module] + new_items
        rep = Report(prop, "quick", 0)
        with contextlib.redirect_stdout(io.StringIO()):
            mod.run(F, rep, "quick")
            rc = rep.finish()
        keys = sorted({v["key"] for v in rep.violations})
        if expect is None:
            ok = rc == 0 and rep.obligations >= ns.get("MIN_OBLIGATIONS", 0)
        else:
            ok = rc == 1 and any(expect in k for k in keys)
        allok &= ok
        print("%-45s %s  obligations=%d  %s %s" % (name, "OK" if ok else ("MISSED" if expect else "FALSE-ALARM"), rep.obligations, keys,
                                                   ("undecided=%s" % rep.notes["undecided"]) if rep.notes.get("undecided") else ""))
    shutil.rmtree(tmp, ignore_errors=True)
    sys.exit(0 if allok else 1)


if __name__ == "__main__":
    main()
