// mechsyn: parse the compiler's own macro-expanded, cfg-resolved source of a crate with syn and
// emit one JSON line per item (functions, impl methods, structs, enums, statics, consts) with a
// compact JSON AST of every body. All rule logic lives in Python (rules/*.py).
//
// usage: mechsyn <dir> <file.expanded.rs>...   writes <dir>/<file>.syn.jsonl
//        mechsyn --raw <out.jsonl> <file.rs>... parses raw (un-expanded) sources
use proc_macro2::Span;
use quote::ToTokens;
use serde_json::{json, Value as J};
use std::io::Write;
use syn::spanned::Spanned;
use syn::*;

fn ts<T: ToTokens>(t: &T) -> String {
    // canonical token string, spaces removed around punctuation that never needs them
    let s = t.to_token_stream().to_string();
    compact(&s)
}

fn compact(s: &str) -> String {
    // remove spaces that the token printer inserts around `::`, `<`, `>`, `,`, `&`, `(`, `)`
    let mut out = String::with_capacity(s.len());
    let cs: Vec<char> = s.chars().collect();
    let mut i = 0;
    while i < cs.len() {
        let c = cs[i];
        if c == ' ' {
            let prev = out.chars().last().unwrap_or(' ');
            let next = if i + 1 < cs.len() { cs[i + 1] } else { ' ' };
            let pa = prev.is_alphanumeric() || prev == '_';
            let na = next.is_alphanumeric() || next == '_';
            if pa && na {
                out.push(' ');
            } else if (prev == '>' || prev == ')' || prev == ']') && na {
                // `> T`, keep a space only after `->`
                out.push(' ');
            } else if pa && (next == '-' || next == '=' || next == '+' || next == '*' || next == '/' || next == '%' || next == '!' || next == '|' || next == '^') {
                out.push(' ');
            } else if (prev == '-' || prev == '=' || prev == '+' || prev == '/' || prev == '%' || prev == '|' || prev == '^') && (na || next == '(' || next == '*' || next == '&' || next == '-' || next == '!' || next == '"' || next == '\'') {
                out.push(' ');
            }
            i += 1;
            continue;
        }
        out.push(c);
        i += 1;
    }
    out
}

fn line(sp: Span) -> usize {
    sp.start().line
}

fn path_s(p: &Path) -> String {
    ts(p)
}

fn block(b: &Block) -> J {
    J::Array(b.stmts.iter().map(stmt).collect())
}

fn stmt(s: &Stmt) -> J {
    match s {
        Stmt::Local(l) => {
            let (init, els) = match &l.init {
                Some(i) => (expr(&i.expr), i.diverge.as_ref().map(|(_, e)| expr(e)).unwrap_or(J::Null)),
                None => (J::Null, J::Null),
            };
            json!(["let", pat(&l.pat), init, els])
        }
        Stmt::Item(i) => {
            let mut v = Vec::new();
            item(i, "", &mut v);
            json!(["item", v])
        }
        Stmt::Expr(e, semi) => json!(["expr", expr(e), semi.is_some()]),
        Stmt::Macro(m) => json!(["expr", ["macro", path_s(&m.mac.path), compact(&m.mac.tokens.to_string()), m.mac.tokens.to_string()], true]),
    }
}

fn opt_expr(e: &Option<Box<Expr>>) -> J {
    e.as_ref().map(|e| expr(e)).unwrap_or(J::Null)
}

fn expr(e: &Expr) -> J {
    match e {
        Expr::Array(a) => json!(["array", a.elems.iter().map(expr).collect::<Vec<_>>()]),
        Expr::Assign(a) => json!(["assign", expr(&a.left), expr(&a.right)]),
        Expr::Async(a) => json!(["async", block(&a.block)]),
        Expr::Await(a) => json!(["await", expr(&a.base)]),
        Expr::Binary(b) => json!(["bin", ts(&b.op), expr(&b.left), expr(&b.right)]),
        Expr::Block(b) => json!(["block", block(&b.block)]),
        Expr::Break(b) => json!(["break", opt_expr(&b.expr)]),
        Expr::Call(c) => json!(["call", expr(&c.func), c.args.iter().map(expr).collect::<Vec<_>>()]),
        Expr::Cast(c) => json!(["cast", expr(&c.expr), ts(&c.ty)]),
        Expr::Closure(c) => json!(["closure", c.inputs.iter().map(pat).collect::<Vec<_>>(), expr(&c.body)]),
        Expr::Const(c) => json!(["block", block(&c.block)]),
        Expr::Continue(_) => json!(["continue"]),
        Expr::Field(f) => json!(["field", expr(&f.base), ts(&f.member)]),
        Expr::ForLoop(f) => json!(["for", pat(&f.pat), expr(&f.expr), block(&f.body)]),
        Expr::Group(g) => expr(&g.expr),
        Expr::If(i) => json!(["if", expr(&i.cond), block(&i.then_branch), i.else_branch.as_ref().map(|(_, e)| expr(e)).unwrap_or(J::Null)]),
        Expr::Index(i) => json!(["index", expr(&i.expr), expr(&i.index)]),
        Expr::Infer(_) => json!(["infer"]),
        Expr::Let(l) => json!(["letc", pat(&l.pat), expr(&l.expr)]),
        Expr::Lit(l) => match &l.lit {
            Lit::Str(s) => json!(["str", s.value()]),
            Lit::Int(i) => json!(["int", i.base10_digits(), i.suffix()]),
            Lit::Bool(b) => json!(["bool", b.value]),
            Lit::Char(c) => json!(["char", c.value().to_string()]),
            other => json!(["lit", ts(other)]),
        },
        Expr::Loop(l) => json!(["loop", block(&l.body)]),
        Expr::Macro(m) => json!(["macro", path_s(&m.mac.path), compact(&m.mac.tokens.to_string()), m.mac.tokens.to_string()]),
        Expr::Match(m) => {
            let arms: Vec<J> = m
                .arms
                .iter()
                .map(|a| json!([pat(&a.pat), a.guard.as_ref().map(|(_, g)| expr(g)).unwrap_or(J::Null), expr(&a.body), line(a.pat.span())]))
                .collect();
            json!(["match", expr(&m.expr), arms])
        }
        Expr::MethodCall(m) => json!([
            "mcall",
            expr(&m.receiver),
            m.method.to_string(),
            m.turbofish.as_ref().map(|t| J::String(ts(t))).unwrap_or(J::Null),
            m.args.iter().map(expr).collect::<Vec<_>>()
        ]),
        Expr::Paren(p) => expr(&p.expr),
        Expr::Path(p) => {
            if p.qself.is_some() {
                json!(["path", ts(p)])
            } else {
                json!(["path", path_s(&p.path)])
            }
        }
        Expr::Range(r) => json!(["range", opt_expr(&r.start), opt_expr(&r.end), matches!(r.limits, RangeLimits::Closed(_))]),
        Expr::RawAddr(r) => json!(["rawaddr", r.mutability.is_mut(), expr(&r.expr)]),
        Expr::Reference(r) => json!(["ref", r.mutability.is_some(), expr(&r.expr)]),
        Expr::Repeat(r) => json!(["repeat", expr(&r.expr), expr(&r.len)]),
        Expr::Return(r) => json!(["ret", opt_expr(&r.expr)]),
        Expr::Struct(s) => json!([
            "struct",
            path_s(&s.path),
            s.fields.iter().map(|f| json!([ts(&f.member), expr(&f.expr)])).collect::<Vec<_>>(),
            opt_expr(&s.rest)
        ]),
        Expr::Try(t) => json!(["try", expr(&t.expr)]),
        Expr::TryBlock(t) => json!(["block", block(&t.block)]),
        Expr::Tuple(t) => json!(["tuple", t.elems.iter().map(expr).collect::<Vec<_>>()]),
        Expr::Unary(u) => json!(["un", ts(&u.op), expr(&u.expr)]),
        Expr::Unsafe(u) => json!(["unsafe", block(&u.block)]),
        Expr::While(w) => json!(["while", expr(&w.cond), block(&w.body)]),
        Expr::Yield(y) => json!(["yield", opt_expr(&y.expr)]),
        Expr::Verbatim(v) => json!(["verbatim", compact(&v.to_string())]),
        _ => json!(["unknown", ts(e)]),
    }
}

trait IsMut {
    fn is_mut(&self) -> bool;
}
impl IsMut for PointerMutability {
    fn is_mut(&self) -> bool {
        matches!(self, PointerMutability::Mut(_))
    }
}

fn pat(p: &Pat) -> J {
    match p {
        Pat::Const(c) => json!(["plit", ["block", block(&c.block)]]),
        Pat::Ident(i) => json!([
            "pident",
            i.ident.to_string(),
            i.by_ref.is_some(),
            i.mutability.is_some(),
            i.subpat.as_ref().map(|(_, p)| pat(p)).unwrap_or(J::Null)
        ]),
        Pat::Lit(l) => json!(["plit", expr(&Expr::Lit(l.clone()))]),
        Pat::Macro(m) => json!(["pmacro", ts(m)]),
        Pat::Or(o) => json!(["por", o.cases.iter().map(pat).collect::<Vec<_>>()]),
        Pat::Paren(p) => pat(&p.pat),
        Pat::Path(p) => json!(["ppath", ts(p)]),
        Pat::Range(r) => json!(["prange", ts(r)]),
        Pat::Reference(r) => json!(["pref", r.mutability.is_some(), pat(&r.pat)]),
        Pat::Rest(_) => json!(["prest"]),
        Pat::Slice(s) => json!(["pslice", s.elems.iter().map(pat).collect::<Vec<_>>()]),
        Pat::Struct(s) => json!([
            "pstruct",
            path_s(&s.path),
            s.fields.iter().map(|f| json!([ts(&f.member), pat(&f.pat)])).collect::<Vec<_>>(),
            s.rest.is_some()
        ]),
        Pat::Tuple(t) => json!(["ptuple", t.elems.iter().map(pat).collect::<Vec<_>>()]),
        Pat::TupleStruct(t) => json!(["pts", path_s(&t.path), t.elems.iter().map(pat).collect::<Vec<_>>()]),
        Pat::Type(t) => json!(["ptype", pat(&t.pat), ts(&t.ty)]),
        Pat::Wild(_) => json!(["pwild"]),
        Pat::Verbatim(v) => json!(["pverbatim", compact(&v.to_string())]),
        _ => json!(["punknown", ts(p)]),
    }
}

fn sig(s: &Signature) -> J {
    let inputs: Vec<J> = s
        .inputs
        .iter()
        .map(|a| match a {
            FnArg::Receiver(r) => json!(["self", ts(r)]),
            FnArg::Typed(t) => json!([pat(&t.pat), ts(&t.ty)]),
        })
        .collect();
    let ret = match &s.output {
        ReturnType::Default => J::Null,
        ReturnType::Type(_, t) => J::String(ts(t)),
    };
    json!({"inputs": inputs, "ret": ret, "generics": ts(&s.generics), "where": s.generics.where_clause.as_ref().map(|w| ts(w))})
}

fn attrs(a: &[Attribute]) -> Vec<String> {
    a.iter().map(|x| ts(&x.meta)).collect()
}

fn vis_s(v: &Visibility) -> String {
    match v {
        Visibility::Public(_) => "pub".into(),
        Visibility::Restricted(r) => ts(r),
        Visibility::Inherited => "".into(),
    }
}

fn fields(f: &Fields) -> J {
    match f {
        Fields::Named(n) => J::Array(n.named.iter().map(|f| json!([f.ident.as_ref().map(|i| i.to_string()), ts(&f.ty), vis_s(&f.vis)])).collect()),
        Fields::Unnamed(u) => J::Array(u.unnamed.iter().enumerate().map(|(i, f)| json!([i.to_string(), ts(&f.ty), vis_s(&f.vis)])).collect()),
        Fields::Unit => json!([]),
    }
}

fn item(i: &Item, module: &str, out: &mut Vec<J>) {
    match i {
        Item::Fn(f) => {
            out.push(json!({"k":"fn","mod":module,"name":f.sig.ident.to_string(),"vis":vis_s(&f.vis),"sig":sig(&f.sig),
                "attrs":attrs(&f.attrs),"line":line(f.sig.ident.span()),"body":block(&f.block)}));
        }
        Item::Impl(im) => {
            let tr = im.trait_.as_ref().map(|(_, p, _)| path_s(p));
            let self_ty = ts(&im.self_ty);
            let gens = ts(&im.generics);
            let wh = im.generics.where_clause.as_ref().map(|w| ts(w));
            for ii in im.items.iter() {
                match ii {
                    ImplItem::Fn(f) => {
                        out.push(json!({"k":"method","mod":module,"trait":tr,"self":self_ty,"igen":gens,"iwhere":wh,
                            "name":f.sig.ident.to_string(),"vis":vis_s(&f.vis),"sig":sig(&f.sig),"attrs":attrs(&f.attrs),
                            "line":line(f.sig.ident.span()),"body":block(&f.block)}));
                    }
                    ImplItem::Const(c) => {
                        out.push(json!({"k":"iconst","mod":module,"trait":tr,"self":self_ty,"name":c.ident.to_string(),"ty":ts(&c.ty),"val":expr(&c.expr)}));
                    }
                    ImplItem::Type(t) => {
                        out.push(json!({"k":"itype","mod":module,"trait":tr,"self":self_ty,"igen":gens,"name":t.ident.to_string(),"ty":ts(&t.ty)}));
                    }
                    _ => {}
                }
            }
            if im.items.is_empty() {
                out.push(json!({"k":"impl","mod":module,"trait":tr,"self":self_ty,"igen":gens}));
            }
        }
        Item::Struct(s) => {
            out.push(json!({"k":"struct","mod":module,"name":s.ident.to_string(),"gen":ts(&s.generics),"fields":fields(&s.fields),
                "attrs":attrs(&s.attrs),"line":line(s.ident.span())}));
        }
        Item::Enum(e) => {
            let vs: Vec<J> = e
                .variants
                .iter()
                .map(|v| json!({"name":v.ident.to_string(),"fields":fields(&v.fields),"disc":v.discriminant.as_ref().map(|(_, d)| expr(d)),"attrs":attrs(&v.attrs)}))
                .collect();
            out.push(json!({"k":"enum","mod":module,"name":e.ident.to_string(),"gen":ts(&e.generics),"variants":vs,"attrs":attrs(&e.attrs),"line":line(e.ident.span())}));
        }
        Item::Static(s) => {
            out.push(json!({"k":"static","mod":module,"name":s.ident.to_string(),"ty":ts(&s.ty),"val":expr(&s.expr),"line":line(s.ident.span())}));
        }
        Item::Const(c) => {
            out.push(json!({"k":"const","mod":module,"name":c.ident.to_string(),"ty":ts(&c.ty),"val":expr(&c.expr),"line":line(c.ident.span())}));
        }
        Item::Mod(m) => {
            if let Some((_, items)) = &m.content {
                let sub = if module.is_empty() { m.ident.to_string() } else { format!("{}::{}", module, m.ident) };
                for it in items {
                    item(it, &sub, out);
                }
            }
        }
        Item::Trait(t) => {
            let mut methods = Vec::new();
            for ti in t.items.iter() {
                if let TraitItem::Fn(f) = ti {
                    methods.push(json!({"name":f.sig.ident.to_string(),"sig":sig(&f.sig),"default":f.default.as_ref().map(|b| block(b))}));
                }
            }
            out.push(json!({"k":"trait","mod":module,"name":t.ident.to_string(),"methods":methods}));
        }
        Item::Macro(m) => {
            out.push(json!({"k":"macro_item","mod":module,"path":path_s(&m.mac.path),"name":m.ident.as_ref().map(|i| i.to_string()),"line":line(m.mac.path.span())}));
        }
        _ => {}
    }
}

fn process(src: &str) -> std::result::Result<Vec<J>, String> {
    let f = syn::parse_file(src).map_err(|e| format!("parse error at line {}: {}", e.span().start().line, e))?;
    let mut out = Vec::new();
    for it in f.items.iter() {
        item(it, "", &mut out);
    }
    Ok(out)
}

fn main() {
    let args: Vec<String> = std::env::args().collect();
    if args.len() < 3 {
        eprintln!("usage: mechsyn <dir> <file>... | mechsyn --raw <out> <file>...");
        std::process::exit(2);
    }
    if args[1] == "--raw" {
        let mut w = std::io::BufWriter::new(std::fs::File::create(&args[2]).expect("create"));
        for p in &args[3..] {
            let src = std::fs::read_to_string(p).expect("read");
            match process(&src) {
                Ok(items) => {
                    for mut it in items {
                        it.as_object_mut().unwrap().insert("file".into(), J::String(p.clone()));
                        writeln!(w, "{}", it).unwrap();
                    }
                }
                Err(e) => {
                    eprintln!("mechsyn: {}: {}", p, e);
                    std::process::exit(1);
                }
            }
        }
        return;
    }
    let dir = &args[1];
    let handles: Vec<_> = args[2..]
        .iter()
        .map(|f| {
            let dir = dir.clone();
            let f = f.clone();
            std::thread::Builder::new()
                .stack_size(512 << 20)
                .spawn(move || {
                    let p = format!("{}/{}", dir, f);
                    let src = std::fs::read_to_string(&p).expect("read");
                    let items = match process(&src) {
                        Ok(i) => i,
                        Err(e) => {
                            eprintln!("mechsyn: {}: {}", p, e);
                            std::process::exit(1);
                        }
                    };
                    let outp = format!("{}/{}", dir, f.replace(".expanded.rs", ".syn.jsonl"));
                    let mut w = std::io::BufWriter::new(std::fs::File::create(&outp).expect("create"));
                    for it in items.iter() {
                        writeln!(w, "{}", it).unwrap();
                    }
                    items.len()
                })
                .unwrap()
        })
        .collect();
    for h in handles {
        h.join().unwrap();
    }
}
