"""self-test of the refactoring-robust C01 extractors on hand-written equivalent / broken variants (parsed with `mechsyn --raw`, no compilation needed):
  kernels.rs   - counted `while` loops vs `for i in 0..n` (lib.kernel.Kernel.counted_while): equivalent shapes must give the SAME normal form,
                 every non-equivalent shape (other start, step, early exit, moving bound, counter touched before / twice / outside) must NOT be accepted by C01-R3
  compilers.rs - operand positions through NativeFunctionCompiler::compile (rules.c01.OperandFlow): methods named ok_* must be decided in order, bad_* reported
exit 0 = all as expected"""
import json
import os
import subprocess
import sys
import tempfile

HERE = os.path.dirname(os.path.abspath(__file__))
sys.path.insert(0, os.path.dirname(HERE))
from lib.kernel import Kernel, Unrecognised
import rules.c01 as R

MECHSYN = os.path.join(HERE, "mechsyn/target/release/mechsyn")


def parse(name):
    out = tempfile.NamedTemporaryFile(suffix=".jsonl", delete=False).name
    subprocess.run([MECHSYN, "--raw", out, os.path.join(HERE, "selftest_c01_refactor", name)], check=True)
    items = [json.loads(l) for l in open(out)]
    os.remove(out)
    return items


class Rep:
    def __init__(self):
        self.bad, self.notes, self.ok = [], [], 0

    def check(self, c, rule, key, msg, where="", **k):
        if c:
            self.ok += 1
        else:
            self.bad.append(key)
        return c

    def note(self, c, i):
        self.notes.append(i)


def main():
    wrong = 0
    fields = [("lhs", "Ref<DVector<T>>"), ("rhs", "Ref<T>"), ("out", "Ref<DVector<T>>")]
    accept = {"k_for", "k_while", "k_while_gt", "k_while_nested"}
    ref = None
    for it in parse("kernels.rs"):
        if it["k"] != "method":
            continue
        try:
            k = Kernel(it["body"], fields)
            why = R.check_binop_kernel(k, "-", "MD" if "nested" in it["name"] else "VD", "S")
        except Unrecognised as e:
            why = "unrecognised: %s" % e
        nf = [repr(e) for e in k.effects]
        if it["name"] == "k_for":
            ref = nf
        good = (why is None) == (it["name"] in accept) and (it["name"] not in ("k_while", "k_while_gt") or nf == ref)
        wrong += not good
        print("%-4s %-22s %s" % ("ok" if good else "FAIL", it["name"], why or "accepted: " + "; ".join(nf)))
    items = parse("compilers.rs")
    fns = {it["name"]: it for it in items if it["k"] == "fn"}
    for it in items:
        if it["k"] != "method":
            continue
        rep = Rep()
        n = R.operand_forwarding(rep, "C01-R6", "selftest", it, r"_fxn$", "L", resolve=fns.get)
        good = n > 0 and (not rep.bad) == it["name"].startswith("ok_")
        wrong += not good
        print("%-4s %-26s sites=%d in-order=%d reported=%s notes=%d" % ("ok" if good else "FAIL", it["name"], n, rep.ok, rep.bad, len(rep.notes)))
    print("selftest_c01_refactor: %d unexpected" % wrong)
    sys.exit(1 if wrong else 0)


main()
