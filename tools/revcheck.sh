#!/bin/bash
# usage: revcheck.sh  — for every reverse patch of a "fix:" commit stored under mutants/reverts/, apply it to /repo, run the property's check, undo.
# Each must be reported (exit 1); prints MISSED otherwise.
cd /verif
for f in mutants/reverts/*.diff; do
  prop=$(basename $f | cut -d- -f1)
  out=$(bash tools/seedcheck.sh /verif/$f $prop 2>&1)
  if echo "$out" | grep -q "^VIOLATION"; then echo "OK      $f"; else echo "MISSED  $f"; fi
done
