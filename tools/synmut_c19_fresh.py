#!/usr/bin/env python3
"""Recall experiment for C19-R7 (output freshness) over EVERY non-assignment solve body of the current tree, on the syntax facts (no rebuild):
in each body, one occurrence at a time of a local that names an INPUT cell is replaced by the local that names the OUTPUT cell (the seeded slip
`set_ptr.kind` -> `out_ptr.kind`, at every site where it can be made) and the rule is asked again.  A substitution the rule does not report must fall in
one of the explained classes in which the recomputation stays a function of the inputs (extent of a never-resized output, a read after the body cleared /
redefined the place, the padding of a resize, a helper this experiment does not inline).
usage: python3 tools/synmut_c19_fresh.py        (uses the cached facts of MECH_REPO; exit 1 when an unexplained silent substitution exists)"""
import copy, os, re, sys
from collections import Counter
VERIF = os.path.dirname(os.path.dirname(os.path.abspath(__file__)))
sys.path.insert(0, VERIF)
import pipeline
from lib.facts import Facts, render, render_stmt, find, is_node
from lib import fxn as X
from lib import outfresh as O

EXPLAINED = [
    (r"\.(len|nrows|ncols|shape)\(\)", "extent of an output that is never resized (invariant)"),
    (r"\.set\b", "read of the output set after the body cleared it (fresh)"),
    (r"\.index\(\(0, 0\)\)|\[0\]", "padding element of a resize"),
    (r"^[a-z_]+\(", "argument of a private helper (inlined by the rule, not by this experiment)"),
    (r"\.iter\(\)$", "substitution that does not type-check (iteration of a table)"),
]


def aliases(body):
    m = {}
    for st in find(body, "let"):
        pat = st[1]
        while is_node(pat) and pat[0] in ("ptype", "pref"):
            pat = pat[1] if pat[0] == "ptype" else pat[2]
        if not (is_node(pat) and pat[0] == "pident") or st[2] is None:
            continue
        flds = [f[2] for f in find(st[2], "field") if f[1] == ["path", "self"]]
        if len(flds) == 1 and O.FreshKernel.is_alias_init(st[2]):
            m[pat[1]] = flds[0]
    return m


def occurrences(node, name, acc):
    if isinstance(node, list):
        if is_node(node) and node[0] == "path" and node[1] == name:
            acc.append(node)
        for c in node:
            if isinstance(c, list):
                occurrences(c, name, acc)


def context(body, target):
    best = [None]

    def rec(n, anc):
        if n is target:
            for a in reversed(anc):
                if is_node(a) and a[0] in ("mcall", "index", "bin", "assign", "for", "if", "call", "let", "match"):
                    best[0] = a
                    return True
            best[0] = anc[-1] if anc else n
            return True
        if isinstance(n, list):
            for c in n:
                if isinstance(c, list) and rec(c, anc + [n] if is_node(n) else anc):
                    return True
        return False
    rec(body, [])
    c = best[0]
    return render_stmt(c) if c[0] == "let" else render(c)


def main():
    F = Facts(pipeline.ensure_facts(clean=False))
    S = X.load_fxn_structs(F, X.FXN_CRATES)
    tot = Counter()
    classes = Counter()
    unexplained = []
    for (crate, name), fs in sorted(S.items()):
        if fs.solve is None or "sink" in dict(fs.fields):
            continue
        outs = sorted({f[2] for f in find(fs.out_expr, "field") if f[1] == ["path", "self"]}) if fs.out_expr else []
        if not outs:
            continue
        al = aliases(fs.solve)
        out_locals = [l for l, f in al.items() if f in outs]
        in_locals = [l for l, f in al.items() if f not in outs]
        if not out_locals or not in_locals:
            tot["bodies without a named input and output cell"] += 1
            continue
        k0, R0, _ = O.analyse_solve(fs.solve, fs.fields, outs)
        if k0 is None or R0.problems:
            continue
        tot["bodies"] += 1
        for il in in_locals:
            body = copy.deepcopy(fs.solve)
            occ = []
            occurrences(body, il, occ)
            for o in occ[:8]:
                o[1] = out_locals[0]
                k, R, why = O.analyse_solve(body, fs.fields, outs)
                tot["substitutions"] += 1
                if k is None:
                    tot["not normalised"] += 1
                elif R.problems:
                    tot["reported"] += 1
                else:
                    tot["silent"] += 1
                    o[1] = "OUT"
                    ctx = context(body, o)
                    for rx, why_ in EXPLAINED:
                        if re.search(rx, ctx.split("OUT", 1)[1] if not rx.startswith("^") else ctx):
                            classes[why_] += 1
                            break
                    else:
                        unexplained.append((name, ctx[:120]))
                o[1] = il
    print(dict(tot))
    for c, n in classes.most_common():
        print("  silent, explained: %4d  %s" % (n, c))
    for u in unexplained[:40]:
        print("  SILENT, UNEXPLAINED: %s  %s" % u)
    sys.exit(1 if unexplained else 0)


if __name__ == "__main__":
    main()
