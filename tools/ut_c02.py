#!/usr/bin/env python3
"""Shape-robustness self-test of the syntax-level C02 rules (C02-R3 left fold in term(), C02-R4 parenthetical arm) on small source
snippets parsed with `mechsyn --raw` (no pipeline run, < 2 s): behaviour-preserving rewrites must stay silent, the defects must be reported.
usage: python3 tools/ut_c02.py        (exit 0 = all cases as expected)"""
import json, os, subprocess, sys, tempfile
VERIF = os.path.dirname(os.path.dirname(os.path.abspath(__file__)))
sys.path.insert(0, VERIF)
from rules import c02
MS = os.path.join(VERIF, "tools/mechsyn/target/release/mechsyn")
TMP = tempfile.mkdtemp(prefix="ut_c02_")
T_ORIG = 'pub fn term(trm: &Term, env: Option<&Environment>, p: &Interpreter) -> MResult<Value> {\n  let mut lhs = factor(&trm.lhs, env, p)?;\n  let mut term_plan: Vec<Box<dyn MechFunction>> = Vec::new();\n  for (op, rhs) in &trm.rhs {\n    let rhs = factor(&rhs, env, p)?;\n    let new_fxn: Box<dyn MechFunction> = match op {\n      A => MathAdd {}.compile(&[lhs, rhs])?,\n      B => { if let Value::Kind(kind) = &rhs { lhs = Value::Bool(Ref::new(value_in_kind(&lhs, kind, p))); continue; } MathSub {}.compile(&[lhs, rhs])? }\n      x => { return Err(x); }\n    };\n    new_fxn.solve();\n    let res = new_fxn.out();\n    term_plan.push(new_fxn);\n    lhs = res;\n  }\n  return Ok(lhs);\n}\n'
T_HELPER = 'fn compile_operator(op: &FormulaOperator, left: Value, right: Value) -> MResult<Box<dyn MechFunction>> {\n  let f: Box<dyn MechFunction> = match op {\n    A => MathAdd {}.compile(&[left, right])?,\n    B => MathSub {}.compile(&[left, right])?,\n    x => { return Err(x); }\n  };\n  Ok(f)\n}\nfn apply(op: &FormulaOperator, left: Value, right: Value, staged: &mut Vec<Box<dyn MechFunction>>) -> MResult<Value> {\n  let f = compile_operator(op, left, right)?;\n  f.solve();\n  let o = f.out();\n  staged.push(f);\n  Ok(o)\n}\npub fn term(trm: &Term, env: Option<&Environment>, p: &Interpreter) -> MResult<Value> {\n  let mut acc = factor(&trm.lhs, env, p)?;\n  let mut staged: Vec<Box<dyn MechFunction>> = Vec::new();\n  for (op, operand) in trm.rhs.iter() {\n    let value = factor(operand, env, p)?;\n    let step = compile_operator(op, acc, value)?;\n    step.solve();\n    acc = step.out();\n    staged.push(step);\n  }\n  Ok(acc)\n}\n'


class Rep:
    def __init__(s): s.v = []
    def check(s, c, r, k, m, where="", detail=None, sample=None):
        if not c: s.v.append(k)
        return c
    def floor(s, r, w, n, mn): s.n = n
    def note(s, *a): pass


def items_of(src):
    p = os.path.join(TMP, "t.rs"); o = os.path.join(TMP, "t.jsonl")
    open(p, "w").write(src)
    r = subprocess.run([MS, "--raw", o, p], capture_output=True, text=True)
    assert r.returncode == 0, r.stderr
    items = [json.loads(l) for l in open(o)]
    for it in items: it.setdefault("mod", "expressions")
    return items


def run_cases(base, cases):
    fail = 0
    for name, (edits, want) in cases.items():
        src = base
        for a, b in edits:
            assert a in src, (name, a)
            src = src.replace(a, b)
        items = items_of(src)
        rep = Rep()
        c02.check_term(rep, [i for i in items if i["name"] == "term"][0], items)
        got = sorted(set(rep.v))
        ok = got == sorted(want)
        fail += not ok
        print("%-20s %s got=%s want=%s" % (name, "ok  " if ok else "FAIL", got, want))
    return fail

FOR = "  for (op, rhs) in &trm.rhs {\n"
cases = {
 "orig": ([], []),
 "iter": ([(FOR, "  for (op, rhs) in trm.rhs.iter() {\n")], []),
 "alias": ([(FOR, "  let ops = &trm.rhs;\n  for (op, rhs) in ops.iter() {\n")], []),
 "alias2": ([(FOR, "  let ops = trm.rhs.iter();\n  for (op, rhs) in ops {\n")], []),
 "rev": ([(FOR, "  for (op, rhs) in trm.rhs.iter().rev() {\n")], ["term:forward-iteration"]),
 "alias-rev": ([(FOR, "  let ops = trm.rhs.iter().rev();\n  for (op, rhs) in ops {\n")], ["term:forward-iteration"]),
 "skip": ([(FOR, "  for (op, rhs) in trm.rhs.iter().skip(1) {\n")], ["term:forward-iteration"]),
 "collected": ([(FOR, "  let mut chain = Vec::with_capacity(trm.rhs.len());\n  for (op, r) in &trm.rhs { chain.push((op, r)); }\n  for (op, rhs) in chain {\n")], ["term:forward-iteration"]),
 "index": ([(FOR, "  for i in 0..trm.rhs.len() {\n    let (op, rhs) = &trm.rhs[i];\n")], []),
 "index-rev": ([(FOR, "  for i in 0..trm.rhs.len() {\n    let (op, rhs) = &trm.rhs[trm.rhs.len() - 1 - i];\n")], ["term:forward-iteration"]),
 "index-revrange": ([(FOR, "  for i in (0..trm.rhs.len()).rev() {\n    let (op, rhs) = &trm.rhs[i];\n")], ["term:forward-iteration"]),
 "direct-out": ([("    let res = new_fxn.out();\n    term_plan.push(new_fxn);\n    lhs = res;\n", "    lhs = new_fxn.out();\n    term_plan.push(new_fxn);\n")], []),
 "no-update": ([("    lhs = res;\n", "    lhs = rhs2;\n")], ["term:accumulator-updated"]),
 "update-from-other": ([("    let res = new_fxn.out();\n", "    let res = other.out();\n")], ["term:accumulator-updated"]),
 "swapped": ([("MathSub {}.compile(&[lhs, rhs])", "MathSub {}.compile(&[rhs, lhs])")], ["term:argument-order"]),
 "both-acc": ([("MathSub {}.compile(&[lhs, rhs])", "MathSub {}.compile(&[lhs, lhs.clone()])")], ["term:argument-order"]),
 "renamed": ([("&lhs", "&acc_v"), ("[lhs", "[acc_v"), ("mut lhs", "mut acc_v"), ("    lhs =", "    acc_v ="), ("{ lhs =", "{ acc_v ="), ("Ok(lhs)", "Ok(acc_v)"), ("rhs)", "r_v)"), ("&rhs", "&r_v"), ("rhs]", "r_v]"), ("let rhs", "let r_v"), ("new_fxn", "f"), ("res", "o")], []),
 "acc-via-local": ([("  let mut lhs = factor(&trm.lhs, env, p)?;\n", "  let first = factor(&trm.lhs, env, p)?;\n  let mut lhs = first;\n")], []),
 "acc-from-rhs0": ([("  let mut lhs = factor(&trm.lhs, env, p)?;\n", "  let mut lhs = factor(&trm.rhs[0].1, env, p)?;\n")], ["term:accumulator"]),
 "rhs-not-evaluated": ([("    let rhs = factor(&rhs, env, p)?;\n", "    let rhs = cached(env)?;\n")], ["term:rhs-evaluated", "term:argument-order"]),
 "rhs-always-first": ([("    let rhs = factor(&rhs, env, p)?;\n", "    let rhs = factor(&trm.rhs[0].1, env, p)?;\n")], ["term:rhs-evaluated", "term:argument-order"]),
 "take_while": ([(FOR, "  for (op, rhs) in trm.rhs.iter().take_while(|_| go()) {\n")], ["term:forward-iteration"]),
 "take": ([(FOR, "  for (op, rhs) in trm.rhs.iter().take(3) {\n")], ["term:forward-iteration"]),
 "filter": ([(FOR, "  for (op, rhs) in trm.rhs.iter().filter(|x| keep(x)) {\n")], ["term:forward-iteration"]),
 "step_by": ([(FOR, "  for (op, rhs) in trm.rhs.iter().step_by(2) {\n")], ["term:forward-iteration"]),
 "break-decided": ([("    lhs = res;\n", "    lhs = res;\n    if let (FormulaOperator::Logic(l), Value::Bool(d)) = (op, &lhs) { let d = *d.borrow(); match l { LogicOp::And if !d => break, LogicOp::Or if d => break, _ => (), } }\n")], ["term:consumes-every-pair"]),
 "break-plain": ([("    lhs = res;\n", "    lhs = res;\n    if term_plan.len() > 3 { break; }\n")], ["term:consumes-every-pair"]),
 "return-ok": ([("    lhs = res;\n", "    lhs = res;\n    if decided(&lhs) { return Ok(lhs); }\n")], ["term:consumes-every-pair"]),
 "return-value-local": ([("    lhs = res;\n", "    lhs = res;\n    if decided(&lhs) { let early = Ok(lhs); return early; }\n")], ["term:consumes-every-pair"]),
 "continue-skip": ([("    let rhs = factor(&rhs, env, p)?;\n", "    let rhs = factor(&rhs, env, p)?;\n    if decided(&lhs) { continue; }\n")], ["term:consumes-every-pair"]),
 "continue-skip-arm": ([("      x => { return Err(x); }\n", "      C => continue,\n      x => { return Err(x); }\n")], ["term:consumes-every-pair"]),
 "inner-loop-break": ([("    new_fxn.solve();\n", "    for k in checks() { if k.bad() { break; } }\n    let w = loop { if ready() { break 1; } };\n    new_fxn.solve();\n")], []),
 "return-err-local": ([("      x => { return Err(x); }\n", "      x => { let e = Err(MechError::new(x).with_tokens(trm.tokens())); return e; }\n")], []),
 "index-break": ([(FOR, "  for i in 0..trm.rhs.len() {\n    let (op, rhs) = &trm.rhs[i];\n"), ("    lhs = res;\n", "    lhs = res;\n    if decided(&lhs) { break; }\n")], ["term:consumes-every-pair"]),
 "try_fold-skip": ([(FOR, "  let lhs = trm.rhs.iter().try_fold(lhs, |lhs, (op, rhs)| {\n    if decided(&lhs) { return Ok(lhs); }\n"), ("    lhs = res;\n  }\n", "    Ok(res)\n  })?;\n"), ("lhs = Value::Bool(Ref::new(value_in_kind(&lhs, kind, p))); continue;", "return Ok(Value::Bool(Ref::new(value_in_kind(&lhs, kind, p))));")], ["term:consumes-every-pair"]),
 "try_fold-break": ([(FOR, "  let lhs = trm.rhs.iter().try_fold(lhs, |lhs, (op, rhs)| {\n"), ("    lhs = res;\n  }\n", "    if decided(&res) { return ControlFlow::Break(res); }\n    ControlFlow::Continue(res)\n  });\n"), ("lhs = Value::Bool(Ref::new(value_in_kind(&lhs, kind, p))); continue;", "return ControlFlow::Continue(Value::Bool(Ref::new(value_in_kind(&lhs, kind, p))));"), ("x => { return Err(x); }", "x => { todo() }")], ["term:consumes-every-pair", "term:accumulator-updated"]),
 "try_fold-recovered": ([(FOR, "  let lhs = trm.rhs.iter().try_fold(lhs, |lhs, (op, rhs)| {\n"), ("    lhs = res;\n  }\n", "    if decided(&res) { return Err(Early(res)); }\n    Ok(res)\n  }).unwrap_or_else(|e| e.value());\n"), ("lhs = Value::Bool(Ref::new(value_in_kind(&lhs, kind, p))); continue;", "return Ok(Value::Bool(Ref::new(value_in_kind(&lhs, kind, p))));")], ["term:consumes-every-pair"]),
 "fold-skip": ([(FOR, "  let lhs = trm.rhs.iter().fold(lhs, |lhs, (op, rhs)| {\n    if decided(&lhs) { return lhs; }\n"), ("    lhs = res;\n  }\n", "    res\n  });\n"), ("lhs = Value::Bool(Ref::new(value_in_kind(&lhs, kind, p))); continue;", "return Value::Bool(Ref::new(value_in_kind(&lhs, kind, p)));"), ("x => { return Err(x); }", "x => { todo() }"), ("    let rhs = factor(&rhs, env, p)?;", "    let rhs = factor(&rhs, env, p).unwrap();"), ("compile(&[lhs, rhs])?", "compile(&[lhs, rhs]).unwrap()")], ["term:consumes-every-pair"]),
 "try_fold": ([(FOR, "  let lhs = trm.rhs.iter().try_fold(lhs, |lhs, (op, rhs)| {\n"), ("    lhs = res;\n  }\n", "    Ok(res)\n  })?;\n"), ("lhs = Value::Bool(Ref::new(value_in_kind(&lhs, kind, p))); continue;", "return Ok(Value::Bool(Ref::new(value_in_kind(&lhs, kind, p))));")], []),
 "try_fold-noout": ([(FOR, "  let lhs = trm.rhs.iter().try_fold(lhs, |lhs, (op, rhs)| {\n"), ("    lhs = res;\n  }\n", "    Ok(rhs)\n  })?;\n"), ("lhs = Value::Bool(Ref::new(value_in_kind(&lhs, kind, p))); continue;", "return Ok(Value::Bool(Ref::new(value_in_kind(&lhs, kind, p))));")], ["term:accumulator-updated"]),
 "rfold": ([(FOR, "  let lhs = trm.rhs.iter().rfold(lhs, |lhs, (op, rhs)| {\n"), ("    lhs = res;\n  }\n", "    res\n  });\n")], ["term:loop-over-rhs"]),
 "try_fold-rev": ([(FOR, "  let lhs = trm.rhs.iter().rev().try_fold(lhs, |lhs, (op, rhs)| {\n"), ("    lhs = res;\n  }\n", "    Ok(res)\n  })?;\n")], ["term:forward-iteration"]),
}
BODY = "    let step = compile_operator(op, acc, value)?;\n    step.solve();\n    acc = step.out();\n    staged.push(step);\n"
cases2 = {
 "h-orig": ([], []),
 "h-callswap": ([("compile_operator(op, acc, value)", "compile_operator(op, value, acc)")], ["term:argument-order"]),
 "h-bodyswap": ([("B => MathSub {}.compile(&[left, right])?", "B => MathSub {}.compile(&[right, left])?")], ["term:argument-order"]),
 "h-apply": ([(BODY, "    acc = apply(op, acc, value, &mut staged)?;\n")], []),
 "h-apply-let": ([(BODY, "    let next = apply(op, acc, value, &mut staged)?;\n    acc = next;\n")], []),
 "h-apply-swap": ([(BODY, "    acc = apply(op, value, acc, &mut staged)?;\n")], ["term:argument-order"]),
 "h-inline-rhs": ([("    let value = factor(operand, env, p)?;\n", ""), ("compile_operator(op, acc, value)", "compile_operator(op, acc, factor(operand, env, p)?)")], []),
 "h-break": ([("    acc = step.out();\n", "    acc = step.out();\n    if decided(&acc) { break; }\n")], ["term:consumes-every-pair"]),
 "h-return-errhelper": ([("    let step = compile_operator(op, acc, value)?;\n", "    if odd(op) { return unhandled(op); }\n    let step = compile_operator(op, acc, value)?;\n"), ("fn compile_operator(", "fn unhandled(op: &FormulaOperator) -> MResult<Value> { Err(MechError::new(op.clone())) }\nfn compile_operator(")], []),
 "h-return-okhelper": ([("    let step = compile_operator(op, acc, value)?;\n", "    if odd(op) { return shortcut(op); }\n    let step = compile_operator(op, acc, value)?;\n"), ("fn compile_operator(", "fn shortcut(op: &FormulaOperator) -> MResult<Value> { Ok(Value::Empty) }\nfn compile_operator(")], ["term:consumes-every-pair"]),
 "h-noupdate": ([("    acc = step.out();\n", "    acc = Value::Empty;\n")], ["term:accumulator-updated"]),
}
paren_cases = {
 "match": ("pub fn factor(fctr: &Factor, env: E, p: &I) -> R { match fctr { Factor::Term(t) => term(t, env, p), Factor::Parenthetical(paren) => factor(&*paren, env, p), _ => todo() } }", True),
 "iflet": ("pub fn factor(fctr: &Factor, env: E, p: &I) -> R { if let Factor::Parenthetical(g) = fctr { let inner: &Factor = &**g; return factor(inner, env, p); } match fctr { Factor::Term(t) => term(t, env, p), _ => todo() } }", True),
 "block": ("pub fn factor(fctr: &Factor, env: E, p: &I) -> R { match fctr { Parenthetical(paren) => { let v = factor(paren, env, p)?; Ok(v) }, _ => todo() } }", True),
 "twice": ("pub fn factor(fctr: &Factor, env: E, p: &I) -> R { match fctr { Factor::Parenthetical(paren) => { factor(paren, env, p)?; factor(paren, env, p) }, _ => todo() } }", False),
 "other": ("pub fn factor(fctr: &Factor, env: E, p: &I) -> R { match fctr { Factor::Parenthetical(paren) => factor(fctr2, env, p), _ => todo() } }", False),
 "gone": ("pub fn factor(fctr: &Factor, env: E, p: &I) -> R { match fctr { Factor::Term(t) => term(t, env, p), _ => todo() } }", False),
}

fail = run_cases(T_ORIG, cases) + run_cases(T_HELPER, cases2)
for n, (src, want) in paren_cases.items():
    got = c02.paren_evaluates_inner(items_of(src)[0])
    print("paren:%-14s %s" % (n, "ok" if got == want else "FAIL"))
    fail += got != want
import shutil
shutil.rmtree(TMP, ignore_errors=True)
sys.exit(1 if fail else 0)
