#!/usr/bin/env python3
"""Shape-robustness self-test of C17-R9 (a): the truth table of the FSM argument-kind predicate, on source snippets parsed with `mechsyn --raw`
(no pipeline run, a few seconds). Behaviour-preserving spellings of the predicate must give an empty set of wrong classes, the planted slips the
classes named.   usage: python3 tools/ut_c17_gate.py     (exit 0 = all cases as expected)"""
import json, os, subprocess, sys, tempfile
VERIF = os.path.dirname(os.path.dirname(os.path.abspath(__file__)))
sys.path.insert(0, VERIF)
from lib import adteval as AE
from rules import c17_gate as G
MS = os.path.join(VERIF, "tools/mechsyn/target/release/mechsyn")
TMP = tempfile.mkdtemp(prefix="ut_c17_")
B = "alloc::boxed::Box<mech_core::value::ValueKind,alloc::alloc::Global>"
NV = "alloc::vec::Vec<(alloc::string::String,mech_core::value::ValueKind),alloc::alloc::Global>"
ADT = {"name": G.VK, "enum": True, "variants":
       [{"name": n, "fields": []} for n in "U8 U16 U32 U64 U128 I8 I16 I32 I64 I128 F32 F64 C64 R64 String Bool Id Index Empty Any None".split()] +
       [{"name": "Matrix", "fields": [["0", B, True], ["1", "alloc::vec::Vec<usize,alloc::alloc::Global>", True]]},
        {"name": "Enum", "fields": [["0", "u64", True], ["1", "alloc::string::String", True]]},
        {"name": "Record", "fields": [["0", NV, True]]},
        {"name": "Map", "fields": [["0", B, True], ["1", B, True]]},
        {"name": "Atom", "fields": [["0", "u64", True], ["1", "alloc::string::String", True]]},
        {"name": "Table", "fields": [["0", NV, True], ["1", "usize", True]]},
        {"name": "Tuple", "fields": [["0", "alloc::vec::Vec<mech_core::value::ValueKind,alloc::alloc::Global>", True]]},
        {"name": "Reference", "fields": [["0", B, True]]},
        {"name": "Set", "fields": [["0", B, True], ["1", "core::option::Option<usize>", True]]},
        {"name": "Option", "fields": [["0", B, True]]},
        {"name": "Kind", "fields": [["0", B, True]]}]}

STRIP = """  fn strip_references<'a>(kind: &'a ValueKind) -> &'a ValueKind {
    match kind { ValueKind::Reference(inner) => strip_references(inner.as_ref()), _ => kind }
  }
  let expected = strip_references(expected);
  let actual = strip_references(actual);
"""
HEAD = "fn pred(expected: &ValueKind, actual: &ValueKind) -> bool {\n"
ORIG = HEAD + STRIP + """  match (expected, actual) {
    (ValueKind::Matrix(expected_element, expected_dims), ValueKind::Matrix(actual_element, _actual_dims)) if expected_dims.is_empty() => {
      expected_element.as_ref() == actual_element.as_ref()
    }
    _ => expected == actual,
  }
}
"""
CASES = {
    "original": (ORIG, []),
    "benign: while-let strip, if-let, early return": (HEAD + """  let mut e = expected;
  while let ValueKind::Reference(inner) = e { e = inner.as_ref(); }
  let mut a = actual;
  while let ValueKind::Reference(inner) = a { a = inner; }
  if let (ValueKind::Matrix(ee, ed), ValueKind::Matrix(ae, _)) = (e, a) {
    if ed.len() == 0 { return ee == ae; }
  }
  e == a
}
""", []),
    "benign: recursion on references, match on the declaration only": (HEAD + """  if let ValueKind::Reference(k) = actual { return pred(expected, k); }
  if let ValueKind::Reference(k) = expected { return pred(k, actual); }
  match expected {
    ValueKind::Matrix(elem, dims) if dims.is_empty() => match actual { ValueKind::Matrix(a, _) if a == elem => true, _ => false },
    _ => *expected == *actual,
  }
}
""", []),
    "benign: helper function for the relaxed case, let-else": (HEAD + STRIP + """  let ValueKind::Matrix(ee, ed) = expected else { return expected == actual; };
  if !ed.is_empty() { return expected == actual; }
  same_element(ee, actual)
}
fn same_element(elem: &ValueKind, actual: &ValueKind) -> bool {
  match actual { ValueKind::Matrix(ae, _) => ae.as_ref() == elem, _ => false }
}
""", []),
    "benign: explicit dimension comparison": (HEAD + STRIP + """  match (expected, actual) {
    (ValueKind::Matrix(ee, ed), ValueKind::Matrix(ae, ad)) => ee == ae && (ed.is_empty() || ed.iter().zip(ad.iter()).all(|(x, y)| x == y) && ed.len() == ad.len()),
    _ => expected == actual,
  }
}
""", []),
    "seed: guard dropped": (ORIG.replace(" if expected_dims.is_empty()", ""), ["accepts-wrong-kind:shape"]),
    "slip: any two arrays": (ORIG.replace("expected_element.as_ref() == actual_element.as_ref()", "true").replace(" if expected_dims.is_empty()", ""),
                             ["accepts-wrong-kind:element-kind", "accepts-wrong-kind:shape"]),
    "slip: element kind forgotten in the relaxed arm": (ORIG.replace("expected_element.as_ref() == actual_element.as_ref()", "true"), ["accepts-wrong-kind:element-kind"]),
    "slip: discriminants only": (HEAD + STRIP + "  std::mem::discriminant(expected) == std::mem::discriminant(actual)\n}\n",
                                 ["accepts-wrong-kind:element-kind", "accepts-wrong-kind:payload", "accepts-wrong-kind:shape", "accepts-wrong-kind:size"]),
    "slip: guard on the argument's dimensions": (ORIG.replace("_actual_dims)) if expected_dims.is_empty()", "_actual_dims)) if _actual_dims.is_empty()"),
                                                 ["rejects-admissible:array-without-dimensions"]),
    "slip: references stripped on one side only": (ORIG.replace("  let actual = strip_references(actual);\n", ""), ["rejects-admissible:array-without-dimensions", "rejects-admissible:same-kind-by-reference"]),
    "slip: same number of dimensions is enough": (ORIG.replace("if expected_dims.is_empty()", "if expected_dims.is_empty() || expected_dims.len() == _actual_dims.len()"),
                                                  ["accepts-wrong-kind:shape"]),
    "slip: same number of elements is enough": (ORIG.replace("if expected_dims.is_empty()", "if expected_dims.is_empty() || expected_dims.iter().product::<usize>() == _actual_dims.iter().product::<usize>()"),
                                                ["accepts-wrong-kind:shape"]),
    "slip: sets compared on the element kind": (ORIG.replace("    _ => expected == actual,", "    (ValueKind::Set(e, _), ValueKind::Set(a, _)) => e == a,\n    _ => expected == actual,"),
                                                ["accepts-wrong-kind:size"]),
    "slip: scalar widths merged": (ORIG.replace("    _ => expected == actual,", "    (ValueKind::U64, ValueKind::U32) | (ValueKind::U32, ValueKind::U64) => true,\n    _ => expected == actual,"),
                                   ["accepts-wrong-kind:different-kind"]),
    "slip: fall-through arm accepts": (ORIG.replace("    _ => expected == actual,", "    (ValueKind::Matrix(_, _), _) => false,\n    _ => true,"),
                                       ["accepts-wrong-kind:different-kind", "accepts-wrong-kind:element-kind", "accepts-wrong-kind:payload", "accepts-wrong-kind:size",
                                        "rejects-admissible:same-kind", "rejects-admissible:same-kind-by-reference"]),
}


# the unchanged predicate of /repo has two listed findings (known_findings.json): a set / table declaration without a size and the any-kind `*` reject every argument
KNOWN = ["rejects-admissible:collection-without-size", "rejects-admissible:declared-any"]
KNOWN_GONE = {"slip: discriminants only": ["rejects-admissible:collection-without-size"], "slip: fall-through arm accepts": KNOWN}


def items_of(src):
    p = os.path.join(TMP, "t.rs"); o = os.path.join(TMP, "t.jsonl")
    open(p, "w").write(src)
    r = subprocess.run([MS, "--raw", o, p], capture_output=True, text=True)
    assert r.returncode == 0, r.stderr
    items = [json.loads(l) for l in open(o)]
    return items


def main():
    uni = G.Universe(ADT)
    assert uni.ok and uni.ref
    enums = {"ValueKind": {n: len(fs) for n, fs in uni.variants.items()}}
    fail = 0
    for name, (src, want) in CASES.items():
        items = items_of(src)
        fns = {it["name"]: it for it in items if it["k"] == "fn"}
        ev = AE.Evaluator(enums, lambda path: fns.get(path.split("::")[-1]))
        try:
            wrong, n = G.truth_table(ev, fns["pred"], uni, 0)
            got = sorted(("rejects-admissible:" if c in G.ACCEPT_CLASSES else "accepts-wrong-kind:") + c for c, cells in wrong.items() if cells)
        except AE.NoEval as ex:
            got = ["undecided: %s" % ex]
        want = sorted(set(want) | (set(KNOWN) - set(KNOWN_GONE.get(name, []))))
        ok = got == want
        fail += not ok
        print("%-60s %s %s" % (name, "ok  " if ok else "FAIL", got if not ok else ""))
        if not ok:
            print("      want", sorted(want))
    sys.exit(1 if fail else 0)


if __name__ == "__main__":
    main()
