"""self-test: alpha-rename every local of each dispatch arm / solve body IN THE AST (also macro-generated code, which the renamed trees leave alone)
and check that the C01 extraction functions give the same answers."""
import sys, re, copy
import os
sys.path.insert(0, os.path.dirname(os.path.dirname(os.path.abspath(__file__))))
import pipeline
from collections import Counter
from lib.facts import Facts, render, find, walk, is_node
from lib.dispatch import dispatchers, Arm
from lib import fxn as X
from lib.kernel import Kernel, Unrecognised
import rules.c01 as R

F = Facts(pipeline.ensure_facts())

def alpha(nodes, extra=()):
    """rename all pident-bound lower-case names in the given nodes consistently to opaque q<N>"""
    names = {}
    for nd in nodes:
        for b in find(nd, "pident"):
            if isinstance(b[1], str) and b[1][:1].islower() or b[1][:1] == "_":
                names.setdefault(b[1], "q%d" % len(names))
    for e in extra:
        if e:
            names.setdefault(e, "q%d" % len(names))
    def sub(x):
        if isinstance(x, list):
            if x and x[0] == "pident" and x[1] in names:
                return ["pident", names[x[1]]] + [sub(y) for y in x[2:]]
            if x and x[0] == "path" and isinstance(x[1], str) and x[1] in names:
                return ["path", names[x[1]]]
            if x and x[0] == "macro" and isinstance(x[2], str):
                t = x[2]
                for k, v in names.items():
                    t = re.sub(r"(?<![\w.])%s\b" % re.escape(k), v, t)
                return ["macro", x[1], t] + x[3:]
            return [sub(y) for y in x]
        if isinstance(x, dict):
            return {k: sub(v) for k, v in x.items()}
        return x
    return [sub(n) for n in nodes], names

c = Counter()
for cr in R.MATRIX_CRATES:
    for name, arms in dispatchers(F.syn(cr)).items():
        for a in arms:
            pat_nodes = [["pident", p[2], False, False, None] for p in a.pats if p[2]]
            (body, guard, scr, *_), names = alpha([a.body, a.guard, a.scrut] + pat_nodes)
            b = Arm(a.fn, [(p[0], p[1], names.get(p[2]) if p[2] else None) for p in a.pats], guard, body, a.line)
            b.scrut = scr
            forms = [p[1] for p in a.pats]
            if len(a.pats) == 2:
                r1, r2 = R.arm_has_shape_guard(a), R.arm_has_shape_guard(b)
                c["guard", r1 == r2] += 1
                if r1 != r2: print("GUARD DIFF", name, a.pats)
                if forms[0] in R.FORM_DOMAIN and forms[1] in R.FORM_DOMAIN:
                    t1, t2 = R.shape_guard_truth_table(a, *forms), R.shape_guard_truth_table(b, *forms)
                    c["tt", t1 == t2, t1[0]] += 1
                    if t1 != t2: print("TT DIFF", name, a.pats, t1, t2)
            if 1 <= len(forms) <= 2 and "*" not in forms and any(f in R.FORM_DOMAIN for f in forms):
                o1, o2 = R.out_allocation_table(a, forms), R.out_allocation_table(b, forms)
                c["alloc", o1 == o2, o1[0]] += 1
                if o1 != o2: print("ALLOC DIFF", name, a.pats, o1, o2)
S = X.load_fxn_structs(F, R.MATRIX_CRATES)
for fs in S.values():
    if fs.solve is None: continue
    def k(body):
        try:
            return [repr(e) for e in Kernel(body, fs.fields).effects if e.kind == "write"]
        except Unrecognised as ex:
            return "unrec"
    (body,), names = alpha([fs.solve])
    k1, k2 = k(fs.solve), k(body)
    # effects mention fresh iteration variables and roots only; locals may appear in 'local' effects (excluded)
    c["kernel", k1 == k2] += 1
    if k1 != k2: print("KERNEL DIFF", fs.name, k1[:2], k2[:2])
print(sorted(c.items(), key=str))
