#!/bin/bash
# usage: seedall.sh — apply every stored seeded change to /repo in turn, run its property's check, undo; each must be reported.
cd /verif
for d in seeded/*/; do
  n=$(basename $d); prop=${n%%-*}
  [ -f $d/patch.diff ] || continue
  if ! git -C /repo apply --check /verif/$d/patch.diff 2>/dev/null; then echo "NOAPPLY $n"; continue; fi
  out=$(bash tools/seedcheck.sh /verif/$d/patch.diff $prop 2>&1)
  if echo "$out" | grep -q "^VIOLATION"; then echo "OK      $n"; else echo "MISSED  $n"; fi
done
