//! alpharen: consistently rename the LOCAL bindings (parameters, let / for / match / closure bindings) of every function in the
//! given Rust source files: `name` -> `name<SUFFIX>`. A behaviour-preserving transformation used to stress the checkers of /verif:
//! a rule that recognises a role by the spelling of a local variable raises a false alarm on the renamed tree.
//! usage: alpharen <suffix> <file.rs>...        (files are rewritten in place; CRLF preserved)
use proc_macro2::{Delimiter, Span, TokenStream, TokenTree};
use std::collections::{BTreeMap, HashSet};
use syn::visit::{self, Visit};

#[derive(Debug, Clone)]
struct Edit {
    line: usize, // 1-based
    col: usize,  // 0-based, in chars
    old: String,
    new: String,
}

#[derive(Default)]
struct Globals {
    names: HashSet<String>,
}
impl<'ast> Visit<'ast> for Globals {
    fn visit_item_fn(&mut self, i: &'ast syn::ItemFn) {
        self.names.insert(i.sig.ident.to_string());
        visit::visit_item_fn(self, i);
    }
    fn visit_impl_item_fn(&mut self, i: &'ast syn::ImplItemFn) {
        self.names.insert(i.sig.ident.to_string());
        visit::visit_impl_item_fn(self, i);
    }
    fn visit_trait_item_fn(&mut self, i: &'ast syn::TraitItemFn) {
        self.names.insert(i.sig.ident.to_string());
        visit::visit_trait_item_fn(self, i);
    }
    fn visit_item_const(&mut self, i: &'ast syn::ItemConst) {
        self.names.insert(i.ident.to_string());
    }
    fn visit_item_static(&mut self, i: &'ast syn::ItemStatic) {
        self.names.insert(i.ident.to_string());
    }
    fn visit_expr_call(&mut self, c: &'ast syn::ExprCall) {
        if let syn::Expr::Path(p) = &*c.func {
            if p.path.segments.len() == 1 {
                self.names.insert(p.path.segments[0].ident.to_string());
            }
        }
        visit::visit_expr_call(self, c);
    }
    fn visit_macro(&mut self, m: &'ast syn::Macro) {
        // identifiers followed by `(` inside macro token streams may be calls of free functions
        fn walk(ts: TokenStream, out: &mut HashSet<String>) {
            let v: Vec<TokenTree> = ts.into_iter().collect();
            for (i, t) in v.iter().enumerate() {
                match t {
                    TokenTree::Ident(id) => {
                        if let Some(TokenTree::Group(g)) = v.get(i + 1) {
                            if g.delimiter() == Delimiter::Parenthesis {
                                out.insert(id.to_string());
                            }
                        }
                    }
                    TokenTree::Group(g) => walk(g.stream(), out),
                    _ => {}
                }
            }
        }
        walk(m.tokens.clone(), &mut self.names);
    }
}

#[derive(Default)]
struct Bound {
    names: HashSet<String>,
}
impl<'ast> Visit<'ast> for Bound {
    fn visit_pat_ident(&mut self, p: &'ast syn::PatIdent) {
        let n = p.ident.to_string();
        if n.chars().next().map(|c| c.is_lowercase()).unwrap_or(false) && n != "self" && n.len() > 1 {
            self.names.insert(n);
        }
        visit::visit_pat_ident(self, p);
    }
}

struct Renamer<'a> {
    bound: &'a HashSet<String>,
    suffix: &'a str,
    edits: Vec<Edit>,
    lines: &'a [Vec<char>],
}
impl<'a> Renamer<'a> {
    fn rename_at(&mut self, span: Span, name: &str) {
        let s = span.start();
        self.edits.push(Edit { line: s.line, col: s.column, old: name.to_string(), new: newname(&name, self.suffix) });
    }
    fn tokens(&mut self, ts: TokenStream) {
        self.tokens2(ts, false)
    }
    fn tokens2(&mut self, ts: TokenStream, struct_body: bool) {
        let v: Vec<TokenTree> = ts.into_iter().collect();
        // named format arguments `name = expr` (single `=`) are labels, not locals
        let mut labels: HashSet<String> = HashSet::new();
        for (i, t) in v.iter().enumerate() {
            if let TokenTree::Ident(id) = t {
                let next_eq = matches!(v.get(i + 1), Some(TokenTree::Punct(p)) if p.as_char() == '=' && p.spacing() == proc_macro2::Spacing::Alone);
                let next2_eq = matches!(v.get(i + 2), Some(TokenTree::Punct(p)) if p.as_char() == '=');
                let prev_comma = i == 0 || matches!(v.get(i - 1), Some(TokenTree::Punct(p)) if p.as_char() == ',');
                if next_eq && !next2_eq && prev_comma {
                    labels.insert(id.to_string());
                }
            }
        }
        for (i, t) in v.iter().enumerate() {
            match t {
                TokenTree::Ident(id) => {
                    let n = id.to_string();
                    if !self.bound.contains(&n) {
                        continue;
                    }
                    let prev_dot = i > 0 && matches!(&v[i - 1], TokenTree::Punct(p) if p.as_char() == '.') && !(i > 1 && matches!(&v[i - 2], TokenTree::Punct(p) if p.as_char() == '.'));
                    let next_colon = matches!(v.get(i + 1), Some(TokenTree::Punct(p)) if p.as_char() == ':');
                    let next_bang = matches!(v.get(i + 1), Some(TokenTree::Punct(p)) if p.as_char() == '!') && matches!(v.get(i + 2), Some(TokenTree::Group(_)));
                    let is_label = labels.contains(&n) && matches!(v.get(i + 1), Some(TokenTree::Punct(p)) if p.as_char() == '=' && p.spacing() == proc_macro2::Spacing::Alone) && (i == 0 || matches!(v.get(i - 1), Some(TokenTree::Punct(p)) if p.as_char() == ','));
                    if prev_dot || next_colon || next_bang || is_label {
                        continue;
                    }
                    let prev_sep = i == 0 || matches!(&v[i - 1], TokenTree::Punct(p) if p.as_char() == ',');
                    let next_sep = i + 1 == v.len() || matches!(&v[i + 1], TokenTree::Punct(p) if p.as_char() == ',');
                    if struct_body && prev_sep && next_sep {
                        // shorthand field of a struct literal / pattern inside a macro: `S { name }` -> `S { name: name_rn }`
                        let s = id.span().start();
                        self.edits.push(Edit { line: s.line, col: s.column, old: n.clone(), new: format!("{}: {}", n, newname(&n, self.suffix)) });
                        continue;
                    }
                    self.rename_at(id.span(), &n);
                }
                TokenTree::Literal(l) => {
                    // inline format captures: "{name}" / "{name:?}"
                    let sp = l.span();
                    let (s, e) = (sp.start(), sp.end());
                    if s.line != e.line || s.line == 0 || s.line > self.lines.len() {
                        continue;
                    }
                    let line = &self.lines[s.line - 1];
                    if s.column >= line.len() || line[s.column] != '"' {
                        continue;
                    }
                    let text: Vec<char> = line[s.column..e.column.min(line.len())].to_vec();
                    let mut k = 0;
                    while k < text.len() {
                        if text[k] == '{' {
                            if k + 1 < text.len() && text[k + 1] == '{' {
                                k += 2;
                                continue;
                            }
                            let mut j = k + 1;
                            while j < text.len() && (text[j].is_alphanumeric() || text[j] == '_') {
                                j += 1;
                            }
                            if j > k + 1 && j < text.len() && (text[j] == '}' || text[j] == ':') {
                                let name: String = text[k + 1..j].iter().collect();
                                if self.bound.contains(&name) && !labels.contains(&name) {
                                    self.edits.push(Edit { line: s.line, col: s.column + k + 1, old: name.clone(), new: newname(&name, self.suffix) });
                                }
                            }
                            k = j;
                        } else {
                            k += 1;
                        }
                    }
                }
                TokenTree::Group(g) => {
                    let after_type = g.delimiter() == Delimiter::Brace && i > 0 && matches!(&v[i - 1], TokenTree::Ident(t) if t.to_string().chars().next().map(|c| c.is_uppercase()).unwrap_or(false));
                    self.tokens2(g.stream(), after_type)
                }
                _ => {}
            }
        }
    }
}
impl<'a, 'ast> Visit<'ast> for Renamer<'a> {
    fn visit_pat_ident(&mut self, p: &'ast syn::PatIdent) {
        let n = p.ident.to_string();
        if self.bound.contains(&n) {
            self.rename_at(p.ident.span(), &n);
        }
        visit::visit_pat_ident(self, p);
    }
    fn visit_expr_path(&mut self, e: &'ast syn::ExprPath) {
        if e.qself.is_none() && e.path.leading_colon.is_none() && e.path.segments.len() == 1 && e.path.segments[0].arguments.is_none() {
            let id = &e.path.segments[0].ident;
            let n = id.to_string();
            if self.bound.contains(&n) {
                self.rename_at(id.span(), &n);
            }
        }
    }
    fn visit_field_value(&mut self, f: &'ast syn::FieldValue) {
        if f.colon_token.is_none() {
            if let syn::Member::Named(id) = &f.member {
                let n = id.to_string();
                if self.bound.contains(&n) {
                    let s = id.span().start();
                    self.edits.push(Edit { line: s.line, col: s.column, old: n.clone(), new: format!("{}: {}", n, newname(&n, self.suffix)) });
                }
            }
            return;
        }
        for a in &f.attrs {
            self.visit_attribute(a);
        }
        self.visit_expr(&f.expr);
    }
    fn visit_field_pat(&mut self, f: &'ast syn::FieldPat) {
        if f.colon_token.is_none() {
            if let syn::Member::Named(id) = &f.member {
                let n = id.to_string();
                if self.bound.contains(&n) {
                    // `S { ref mut name }` -> `S { name: ref mut name_rn }`
                    if let syn::Pat::Ident(pi) = &*f.pat {
                        let first = if let Some(r) = &pi.by_ref { r.span } else if let Some(m) = &pi.mutability { m.span } else { pi.ident.span() };
                        let s = first.start();
                        self.edits.push(Edit { line: s.line, col: s.column, old: String::new(), new: format!("{}: ", n) });
                        self.rename_at(pi.ident.span(), &n);
                    }
                }
            }
            return;
        }
        self.visit_pat(&f.pat);
    }
    fn visit_macro(&mut self, m: &'ast syn::Macro) {
        self.tokens(m.tokens.clone());
    }
    fn visit_attribute(&mut self, _a: &'ast syn::Attribute) {}
}

struct Fns<'a> {
    globals: &'a HashSet<String>,
    suffix: &'a str,
    edits: Vec<Edit>,
    lines: &'a [Vec<char>],
    nfn: usize,
    nnames: usize,
    only: &'a Option<HashSet<String>>,
}
impl<'a> Fns<'a> {
    fn process(&mut self, name: &str, sig: &syn::Signature, block: &syn::Block) {
        if let Some(o) = self.only {
            if !o.contains(name) {
                return;
            }
        }
        let mut b = Bound::default();
        for i in &sig.inputs {
            b.visit_fn_arg(i);
        }
        b.visit_block(block);
        let bound: HashSet<String> = b.names.into_iter().filter(|n| !self.globals.contains(n)).collect();
        if bound.is_empty() {
            return;
        }
        self.nfn += 1;
        self.nnames += bound.len();
        let mut r = Renamer { bound: &bound, suffix: self.suffix, edits: vec![], lines: self.lines };
        for i in &sig.inputs {
            r.visit_fn_arg(i);
        }
        r.visit_block(block);
        self.edits.extend(r.edits);
    }
}
impl<'a, 'ast> Visit<'ast> for Fns<'a> {
    fn visit_item_fn(&mut self, i: &'ast syn::ItemFn) {
        self.process(&i.sig.ident.to_string(), &i.sig, &i.block);
    }
    fn visit_impl_item_fn(&mut self, i: &'ast syn::ImplItemFn) {
        self.process(&i.sig.ident.to_string(), &i.sig, &i.block);
    }
    fn visit_trait_item_fn(&mut self, i: &'ast syn::TraitItemFn) {
        if let Some(b) = &i.default {
            self.process(&i.sig.ident.to_string(), &i.sig, b);
        }
    }
    fn visit_item_macro(&mut self, _i: &'ast syn::ItemMacro) {}
}

/// `^abc` as the suffix argument means: prefix `abc` instead
fn newname(name: &str, suffix: &str) -> String {
    if let Some(p) = suffix.strip_prefix('^') {
        format!("{}{}", p, name)
    } else {
        format!("{}{}", name, suffix)
    }
}

fn main() {
    let args: Vec<String> = std::env::args().collect();
    if args.len() < 3 {
        eprintln!("usage: alpharen <suffix> [--only f1,f2] <file.rs>...");
        std::process::exit(2);
    }
    let suffix = args[1].clone();
    let mut files: Vec<String> = vec![];
    let mut only: Option<HashSet<String>> = None;
    let mut skip: Vec<String> = vec![];
    let mut i = 2;
    while i < args.len() {
        if args[i] == "--skip" {
            for k in args[i + 1].split(',') {
                skip.push(k.to_string());
            }
            i += 2;
        } else if args[i] == "--only" {
            only = Some(args[i + 1].split(',').map(|s| s.to_string()).collect());
            i += 2;
        } else {
            files.push(args[i].clone());
            i += 1;
        }
    }
    // pass 1: global names over all files
    let mut parsed = vec![];
    let mut g = Globals::default();
    for f in &files {
        let src = std::fs::read_to_string(f).expect("read");
        match syn::parse_file(&src) {
            Ok(ast) => {
                g.visit_file(&ast);
                parsed.push((f.clone(), src, ast));
            }
            Err(e) => eprintln!("skip {}: {}", f, e),
        }
    }
    for k in ["self", "Self", "super", "crate"] {
        g.names.insert(k.to_string());
    }
    for k in skip {
        g.names.insert(k);
    }
    for (f, src, ast) in &parsed {
        let crlf = src.contains("\r\n");
        let raw_lines: Vec<&str> = src.split('\n').collect();
        let lines: Vec<Vec<char>> = raw_lines.iter().map(|l| l.chars().collect()).collect();
        let mut fns = Fns { globals: &g.names, suffix: &suffix, edits: vec![], lines: &lines, nfn: 0, nnames: 0, only: &only };
        fns.visit_file(ast);
        let mut by_line: BTreeMap<usize, Vec<Edit>> = BTreeMap::new();
        for e in fns.edits {
            by_line.entry(e.line).or_default().push(e);
        }
        let mut out_lines: Vec<String> = raw_lines.iter().map(|s| s.to_string()).collect();
        let mut applied = 0;
        for (ln, mut es) in by_line {
            es.sort_by(|a, b| b.col.cmp(&a.col).then(b.old.len().cmp(&a.old.len())));
            es.dedup_by(|a, b| a.col == b.col && a.old == b.old);
            let mut chars: Vec<char> = out_lines[ln - 1].chars().collect();
            for e in es {
                let old: Vec<char> = e.old.chars().collect();
                if e.col + old.len() > chars.len() || chars[e.col..e.col + old.len()] != old[..] {
                    eprintln!("{}:{}:{} mismatch for `{}`", f, ln, e.col, e.old);
                    continue;
                }
                chars.splice(e.col..e.col + old.len(), e.new.chars());
                applied += 1;
            }
            out_lines[ln - 1] = chars.into_iter().collect();
        }
        let _ = crlf;
        std::fs::write(f, out_lines.join("\n")).expect("write");
        println!("{}: {} functions, {} names, {} edits", f, fns.nfn, fns.nnames, applied);
    }
}
