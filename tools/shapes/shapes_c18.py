import os, sys
sys.path.insert(0, os.path.dirname(os.path.abspath(__file__)))
import sys, re
import mk
B = mk.base()

def rep(s, old, new, count=1):
    assert s.count(old) >= 1, old[:60]
    return s.replace(old, new) if count == 0 else s.replace(old, new, count)

def between(s, a, b):
    i = s.index(a); j = s.index(b, i)
    return i, j

T = []
def benign(f): T.append((f.__name__, True, f)); return f
def broken(f): T.append((f.__name__, False, f)); return f

# ------------------------------------------------------------------ benign shapes
@benign
def tuple_match(s):
    i, j = between(s, '            match mode {\n                JoinMode::Inner', '        if matches!(mode, JoinMode::RightOuter | JoinMode::FullOuter) {\n            for rhs_row')
    new = '''            match (mode, matched_rhs.is_empty()) {
                (JoinMode::LeftSemi, false) | (JoinMode::LeftAnti, true) => out_rows.push(lhs_only_row(lhs, lhs_row)),
                (JoinMode::LeftSemi, true) | (JoinMode::LeftAnti, false) => {}
                (JoinMode::LeftOuter, true) | (JoinMode::FullOuter, true) => out_rows.push(merge_rows(lhs, lhs_row, rhs, 0, &common_rhs, true)),
                (_, true) => {}
                (_, false) => {
                    for rhs_row in matched_rhs {
                        rhs_matched[rhs_row - 1] = true;
                        out_rows.push(merge_rows(lhs, lhs_row, rhs, rhs_row, &common_rhs, false));
                    }
                }
            }
        }

'''
    return s[:i] + new + s[j:]

@benign
def chain_columns(s):
    i, j = between(s, '        let mut output_cols: Vec<(u64, ValueKind, String)> = vec![];', '        if matches!(mode, JoinMode::LeftSemi | JoinMode::LeftAnti) {\n            output_cols')
    new = '''        let left_opt = matches!(mode, JoinMode::RightOuter | JoinMode::FullOuter);
        let right_opt = matches!(mode, JoinMode::LeftOuter | JoinMode::FullOuter);
        let label = |t: &MechTable, id: &u64| t.col_names.get(id).cloned().unwrap_or_else(|| id.to_string());
        let mut output_cols: Vec<(u64, ValueKind, String)> = lhs.data.iter()
            .map(|(id, (kind, _))| (*id, if left_opt && !common_lhs.contains(id) { make_optional_kind(kind) } else { kind.clone() }, label(lhs, id)))
            .chain(rhs.data.iter()
                .filter(|(id, _)| !common_rhs.contains(*id))
                .map(|(id, (kind, _))| (*id, if right_opt { make_optional_kind(kind) } else { kind.clone() }, label(rhs, id))))
            .collect();
'''
    return s[:i] + new + s[j:]

@benign
def closure_emit(s):
    s = rep(s, '        for lhs_row in 1..=lhs.rows {\n            let mut matched_rhs', '        let pair = |l: usize, r: usize| merge_rows(lhs, l, rhs, r, &common_rhs, false);\n        for lhs_row in 1..=lhs.rows {\n            let mut matched_rhs')
    s = rep(s, 'out_rows.push(merge_rows(lhs, lhs_row, rhs, rhs_row, &common_rhs, false));', 'out_rows.push(pair(lhs_row, rhs_row));')
    return s

@benign
def pairs_buffer_then_extend(s):
    # pairs of one left row collected first, then appended
    s = rep(s, '''                JoinMode::Inner => {
                    for rhs_row in matched_rhs {
                        rhs_matched[rhs_row - 1] = true;
                        out_rows.push(merge_rows(lhs, lhs_row, rhs, rhs_row, &common_rhs, false));
                    }
                }''', '''                JoinMode::Inner => {
                    let mut fresh: Vec<HashMap<u64, Value>> = Vec::new();
                    for rhs_row in matched_rhs {
                        rhs_matched[rhs_row - 1] = true;
                        fresh.push(merge_rows(lhs, lhs_row, rhs, rhs_row, &common_rhs, false));
                    }
                    out_rows.append(&mut fresh);
                }''')
    return s

@benign
def unmatched_right_iterator(s):
    i, j = between(s, '        if matches!(mode, JoinMode::RightOuter | JoinMode::FullOuter) {\n            for rhs_row in 1..=rhs.rows {', '        let mut data: IndexMap')
    new = '''        if matches!(mode, JoinMode::RightOuter | JoinMode::FullOuter) {
            out_rows.extend((1..=rhs.rows).filter(|r| !rhs_matched[*r - 1]).map(|r| right_alone(lhs, rhs, r, &common_cols, &common_rhs)));
        }

'''
    s = s[:i] + new + s[j:]
    s += '''
fn right_alone(lhs: &MechTable, rhs: &MechTable, r: usize, cc: &[(u64, u64)], skip: &HashSet<u64>) -> HashMap<u64, Value> {
    let mut row = HashMap::new();
    row
}
'''
    return s

@benign
def predicate_not_any_inline_closure(s):
    i, j = between(s, 'fn rows_match(', 'fn merge_rows(')
    new = '''fn rows_match(a: &MechTable, i: usize, b: &MechTable, j: usize, cols: &[(u64, u64)]) -> bool {
    !cols.iter().any(|pair| value_at(a, &pair.0, i) != value_at(b, &pair.1, j))
}
fn value_at(t: &MechTable, c: &u64, r: usize) -> Option<Value> {
    match t.data.get(c) {
        Some((_, col)) => Some(col.index1d(r)),
        None => None,
    }
}
'''
    return s[:i] + new + s[j:]

@benign
def mode_if_let_chain(s):
    i, j = between(s, '            match mode {\n                JoinMode::Inner', '        if matches!(mode, JoinMode::RightOuter | JoinMode::FullOuter) {\n            for rhs_row')
    new = '''            let none = matched_rhs.is_empty();
            if let JoinMode::LeftSemi | JoinMode::LeftAnti = mode {
                let want_none = matches!(mode, JoinMode::LeftAnti);
                if none == want_none {
                    out_rows.push(lhs_only_row(lhs, lhs_row));
                }
                continue;
            }
            if none {
                if matches!(mode, JoinMode::LeftOuter | JoinMode::FullOuter) {
                    out_rows.push(merge_rows(lhs, lhs_row, rhs, 0, &common_rhs, true));
                }
                continue;
            }
            for rhs_row in matched_rhs {
                rhs_matched[rhs_row - 1] = true;
                out_rows.push(merge_rows(lhs, lhs_row, rhs, rhs_row, &common_rhs, false));
            }
        }

'''
    return s[:i] + new + s[j:]

@benign
def common_cols_from_right(s):
    # discovery loop runs over the right names and looks them up among the left ones
    i, j = between(s, '        let rhs_name_to_id: HashMap<String, u64> = rhs', '        let common_rhs: HashSet<u64>')
    new = '''        let left_ids: HashMap<&String, u64> = lhs.col_names.iter().map(|(id, name)| (name, *id)).collect();
        let mut common_cols: Vec<(u64, u64)> = Vec::new();
        for (rhs_id, rhs_name) in rhs.col_names.iter() {
            if left_ids.contains_key(rhs_name) {
                common_cols.push((left_ids[rhs_name], *rhs_id));
            }
        }

'''
    return s[:i] + new + s[j:]

# ------------------------------------------------------------------ broken shapes (must be reported)
@broken
def b_tuple_match_semi_anti_swapped(s):
    s = tuple_match(s)
    return rep(s, '(JoinMode::LeftSemi, false) | (JoinMode::LeftAnti, true) => out_rows.push', '(JoinMode::LeftSemi, true) | (JoinMode::LeftAnti, false) => out_rows.push').replace('(JoinMode::LeftSemi, true) | (JoinMode::LeftAnti, false) => {}', '(JoinMode::LeftSemi, false) | (JoinMode::LeftAnti, true) => {}')

@broken
def b_chain_columns_wrong_modes(s):
    s = chain_columns(s)
    return rep(s, 'let right_opt = matches!(mode, JoinMode::LeftOuter | JoinMode::FullOuter);', 'let right_opt = matches!(mode, JoinMode::LeftOuter);')

@broken
def b_chain_columns_shared_made_optional(s):
    s = chain_columns(s)
    return rep(s, 'if left_opt && !common_lhs.contains(id) {', 'if left_opt {')

@broken
def b_unmatched_right_not_filtered(s):
    s = unmatched_right_iterator(s)
    return rep(s, '.filter(|r| !rhs_matched[*r - 1])', '')

@broken
def b_unmatched_right_skip_first(s):
    s = unmatched_right_iterator(s)
    return rep(s, '(1..=rhs.rows).filter(', '(1..=rhs.rows).skip(1).filter(')

@broken
def b_predicate_any_eq(s):
    s = predicate_not_any_inline_closure(s)
    return rep(s, '!cols.iter().any(|pair| value_at(a, &pair.0, i) != value_at(b, &pair.1, j))', 'cols.iter().any(|pair| value_at(a, &pair.0, i) == value_at(b, &pair.1, j))')

@broken
def b_predicate_same_column_both_sides(s):
    s = predicate_not_any_inline_closure(s)
    return rep(s, 'value_at(b, &pair.1, j)', 'value_at(b, &pair.0, j)')

@broken
def b_predicate_left_row_for_right(s):
    s = predicate_not_any_inline_closure(s)
    return rep(s, 'value_at(b, &pair.1, j)', 'value_at(b, &pair.1, i)')

@broken
def b_if_let_chain_outer_dropped(s):
    s = mode_if_let_chain(s)
    return rep(s, 'if matches!(mode, JoinMode::LeftOuter | JoinMode::FullOuter) {\n                    out_rows.push(merge_rows(lhs, lhs_row, rhs, 0', 'if matches!(mode, JoinMode::LeftOuter) {\n                    out_rows.push(merge_rows(lhs, lhs_row, rhs, 0')

@broken
def b_if_let_chain_no_mark(s):
    s = mode_if_let_chain(s)
    return rep(s, '                rhs_matched[rhs_row - 1] = true;\n                out_rows.push(merge_rows(lhs, lhs_row, rhs, rhs_row, &common_rhs, false));\n            }\n        }\n\n', '                out_rows.push(merge_rows(lhs, lhs_row, rhs, rhs_row, &common_rhs, false));\n            }\n        }\n\n')

@broken
def b_matches_take_first(s):
    return rep(s, 'for rhs_row in 1..=rhs.rows {\n                if rows_match(', 'for rhs_row in (1..=rhs.rows).take(1) {\n                if rows_match(')

@broken
def b_match_list_not_reset(s):
    s = rep(s, '            let mut matched_rhs: Vec<usize> = vec![];\n', '')
    return rep(s, '        for lhs_row in 1..=lhs.rows {\n', '        let mut matched_rhs: Vec<usize> = vec![];\n        for lhs_row in 1..=lhs.rows {\n', 1).replace('for rhs_row in matched_rhs {', 'for rhs_row in matched_rhs.iter().copied() {')

@broken
def b_common_first_only(s):
    return rep(s, '                common_cols.push((*lhs_id, *rhs_id));\n', '                common_cols.push((*lhs_id, *rhs_id));\n                break;\n')

@broken
def b_pairs_swapped_tables(s):
    return rep(s, 'out_rows.push(merge_rows(lhs, lhs_row, rhs, rhs_row, &common_rhs, false));', 'out_rows.push(merge_rows(rhs, rhs_row, lhs, lhs_row, &common_rhs, false));')

@broken
def b_left_rows_from_two(s):
    return rep(s, 'for lhs_row in 1..=lhs.rows {', 'for lhs_row in 2..=lhs.rows {')

@broken
def b_semi_columns_include_right(s):
    return rep(s, 'if matches!(mode, JoinMode::LeftSemi | JoinMode::LeftAnti) {\n            output_cols', 'if matches!(mode, JoinMode::LeftSemi) {\n            output_cols')

@benign
def mode_methods_and_bare_variants(s):
    # predicates of the mode as inherent methods; variants imported with `use JoinMode::*`
    s = s.replace('matches!(mode, JoinMode::RightOuter | JoinMode::FullOuter)', 'mode.keeps_right()')
    s = s.replace('matches!(mode, JoinMode::LeftOuter | JoinMode::FullOuter)', 'mode.keeps_left()')
    s = s.replace('matches!(mode, JoinMode::LeftSemi | JoinMode::LeftAnti)', 'mode.left_columns_only()')
    i = s.index('            match mode {\n                JoinMode::Inner')
    j = s.index('        if mode.keeps_right() {\n            for rhs_row')
    s = s[:i] + s[i:j].replace('JoinMode::', '') + s[j:]
    s = s.replace('impl TableJoinFxn {', '''use JoinMode::*;
impl JoinMode {
    fn keeps_left(self) -> bool { match self { LeftOuter | FullOuter => true, _ => false } }
    fn keeps_right(&self) -> bool { if let RightOuter = self { return true; } if let FullOuter = *self { true } else { false } }
    fn left_columns_only(self) -> bool { !self.emits_pairs() }
    fn emits_pairs(self) -> bool { match self { LeftSemi | LeftAnti => false, _ => true } }
}
impl TableJoinFxn {''', 1)
    return s

@broken
def b_mode_method_wrong(s):
    s = mode_methods_and_bare_variants(s)
    return rep(s, 'fn keeps_left(self) -> bool { match self { LeftOuter | FullOuter => true', 'fn keeps_left(self) -> bool { match self { LeftOuter | RightOuter => true')

@benign
def option_row(s):
    # "no right row" is None instead of (0, true)
    s = s.replace('merge_rows(lhs, lhs_row, rhs, 0, &common_rhs, true)', 'merge_rows(lhs, lhs_row, rhs, None, &common_rhs)')
    s = re.sub(r'merge_rows\(\s*lhs,\s*lhs_row,\s*rhs,\s*rhs_row,\s*&common_rhs,\s*false,?\s*\)', 'merge_rows(lhs, lhs_row, rhs, Some(rhs_row), &common_rhs)', s)
    i = s.index('fn merge_rows('); j = s.index('fn lhs_only_row(')
    return s[:i] + '''fn merge_rows(lhs: &MechTable, lhs_row: usize, rhs: &MechTable, rhs_row: Option<usize>, common_rhs: &HashSet<u64>) -> HashMap<u64, Value> {
    let mut row = HashMap::new();
    row
}

''' + s[j:]

@broken
def b_option_row_none_for_pairs(s):
    s = option_row(s)
    return rep(s, 'merge_rows(lhs, lhs_row, rhs, Some(rhs_row), &common_rhs)', 'merge_rows(lhs, lhs_row, rhs, None, &common_rhs)')

@benign
def predicate_inline(s):
    # the predicate written in place as a closure of the join routine
    s = rep(s, '        for lhs_row in 1..=lhs.rows {\n            let mut matched_rhs', '''        let same = |l: usize, r: usize| common_cols.iter().all(|(lc, rc)| {
            lhs.data.get(lc).map(|(_, col)| col.index1d(l)) == rhs.data.get(rc).map(|(_, col)| col.index1d(r))
        });
        for lhs_row in 1..=lhs.rows {
            let mut matched_rhs''')
    return rep(s, 'if rows_match(lhs, lhs_row, rhs, rhs_row, &common_cols) {', 'if same(lhs_row, rhs_row) {')

@broken
def b_predicate_inline_filtered(s):
    s = predicate_inline(s)
    return rep(s, 'common_cols.iter().all(|(lc, rc)| {', 'common_cols.iter().take(1).all(|(lc, rc)| {')

@benign
def left_only_row_inlined(s):
    s = s.replace('out_rows.push(lhs_only_row(lhs, lhs_row));', 'out_rows.push(lhs.data.iter().map(|(id, _)| (*id, cell_or_empty(lhs, id, lhs_row))).collect());')
    i = s.index('fn lhs_only_row('); j = s.index('fn compile_table_join(')
    return s[:i] + '''fn cell_or_empty(table: &MechTable, col_id: &u64, row: usize) -> Value {
    table.data.get(col_id).map(|(_, col)| col.index1d(row)).unwrap_or(Value::Empty)
}

''' + s[j:]

@broken
def b_left_only_row_inlined_reads_right(s):
    s = left_only_row_inlined(s)
    return rep(s, '(*id, cell_or_empty(lhs, id, lhs_row))', '(*id, cell_or_empty(rhs, id, lhs_row))')

@benign
def merge_inlined_in_inner(s):
    return rep(s, '''                JoinMode::Inner => {
                    for rhs_row in matched_rhs {
                        rhs_matched[rhs_row - 1] = true;
                        out_rows.push(merge_rows(lhs, lhs_row, rhs, rhs_row, &common_rhs, false));
                    }
                }''', '''                JoinMode::Inner => {
                    for rhs_row in matched_rhs {
                        rhs_matched[rhs_row - 1] = true;
                        let mut row = HashMap::new();
                        for (lhs_id, _) in lhs.data.iter() {
                            row.insert(*lhs_id, lhs.data.get(lhs_id).map(|(_, col)| col.index1d(lhs_row)).unwrap_or(Value::Empty));
                        }
                        for (rhs_id, _) in rhs.data.iter() {
                            if common_rhs.contains(rhs_id) {
                                continue;
                            }
                            row.insert(*rhs_id, rhs.data.get(rhs_id).map(|(_, col)| col.index1d(rhs_row)).unwrap_or(Value::Empty));
                        }
                        out_rows.push(row);
                    }
                }''')

@broken
def b_merge_inlined_right_cells_from_left_row(s):
    s = merge_inlined_in_inner(s)
    return rep(s, 'rhs.data.get(rhs_id).map(|(_, col)| col.index1d(rhs_row)).unwrap_or(Value::Empty));\n                        }\n                        out_rows.push(row);', 'rhs.data.get(rhs_id).map(|(_, col)| col.index1d(lhs_row)).unwrap_or(Value::Empty));\n                        }\n                        out_rows.push(row);')

@benign
def optional_kind_inlined(s):
    s = s.replace('make_optional_kind(kind)', '(match kind { ValueKind::Option(_) => kind.clone(), _ => ValueKind::Option(Box::new(kind.clone())) })')
    return s

@broken
def b_optional_kind_inlined_unguarded(s):
    s = optional_kind_inlined(s)
    return rep(s, 'if !common_lhs.contains(lhs_id)\n                && matches!(mode, JoinMode::RightOuter | JoinMode::FullOuter)', 'if matches!(mode, JoinMode::RightOuter | JoinMode::FullOuter)')

@benign
def optional_kind_statement_form(s):
    s = rep(s, '''            let out_kind = if matches!(mode, JoinMode::LeftOuter | JoinMode::FullOuter) {
                make_optional_kind(kind)
            } else {
                kind.clone()
            };''', '''            let mut out_kind = kind.clone();
            if matches!(mode, JoinMode::LeftOuter | JoinMode::FullOuter) {
                out_kind = make_optional_kind(kind);
            }''')
    s = rep(s, '''            let out_kind = if !common_lhs.contains(lhs_id)
                && matches!(mode, JoinMode::RightOuter | JoinMode::FullOuter)
            {
                make_optional_kind(kind)
            } else {
                kind.clone()
            };''', '''            let mut out_kind = kind.clone();
            if matches!(mode, JoinMode::RightOuter | JoinMode::FullOuter) && !common_lhs.contains(lhs_id) {
                out_kind = make_optional_kind(kind);
            }''')
    return s

@benign
def flag_instead_of_match_list(s):
    i, j = between(s, '        for lhs_row in 1..=lhs.rows {\n            let mut matched_rhs', '        if matches!(mode, JoinMode::RightOuter | JoinMode::FullOuter) {\n            for rhs_row')
    new = '''        let pairs_wanted = !matches!(mode, JoinMode::LeftSemi | JoinMode::LeftAnti);
        for lhs_row in 1..=lhs.rows {
            let mut lonely = true;
            for rhs_row in 1..=rhs.rows {
                if !rows_match(lhs, lhs_row, rhs, rhs_row, &common_cols) {
                    continue;
                }
                lonely = false;
                if pairs_wanted {
                    rhs_matched[rhs_row - 1] = true;
                    out_rows.push(merge_rows(lhs, lhs_row, rhs, rhs_row, &common_rhs, false));
                }
            }
            match mode {
                JoinMode::LeftOuter | JoinMode::FullOuter if lonely => out_rows.push(merge_rows(lhs, lhs_row, rhs, 0, &common_rhs, true)),
                JoinMode::LeftSemi if !lonely => out_rows.push(lhs_only_row(lhs, lhs_row)),
                JoinMode::LeftAnti if lonely => out_rows.push(lhs_only_row(lhs, lhs_row)),
                _ => {}
            }
        }

'''
    return s[:i] + new + s[j:]

@broken
def b_flag_sticky(s):
    s = flag_instead_of_match_list(s)
    s = rep(s, '            let mut lonely = true;\n', '')
    return rep(s, '        for lhs_row in 1..=lhs.rows {\n            for rhs_row', '        let mut lonely = true;\n        for lhs_row in 1..=lhs.rows {\n            for rhs_row')

@broken
def b_flag_anti_inverted(s):
    s = flag_instead_of_match_list(s)
    return rep(s, 'JoinMode::LeftAnti if lonely =>', 'JoinMode::LeftAnti if !lonely =>')

@broken
def b_flag_set_before_test(s):
    s = flag_instead_of_match_list(s)
    return rep(s, '''                if !rows_match(lhs, lhs_row, rhs, rhs_row, &common_cols) {
                    continue;
                }
                lonely = false;''', '''                lonely = false;
                if !rows_match(lhs, lhs_row, rhs, rhs_row, &common_cols) {
                    continue;
                }''')

@benign
def discovery_by_find(s):
    i, j = between(s, '        let rhs_name_to_id: HashMap<String, u64> = rhs', '        let common_rhs: HashSet<u64>')
    new = '''        let mut common_cols: Vec<(u64, u64)> = Vec::new();
        for (lhs_id, lhs_name) in &lhs.col_names {
            if let Some((rhs_id, _)) = rhs.col_names.iter().find(|(_, n)| *n == lhs_name) {
                common_cols.push((*lhs_id, *rhs_id));
            }
        }

'''
    return s[:i] + new + s[j:]

@broken
def b_discovery_by_find_ids_compared(s):
    s = discovery_by_find(s)
    return rep(s, 'rhs.col_names.iter().find(|(_, n)| *n == lhs_name)', 'rhs.col_names.iter().find(|(i, _)| *i == lhs_id)')

@benign
def hits_by_reference_and_separate_marking(s):
    s = s.replace('for rhs_row in matched_rhs {\n                        rhs_matched[rhs_row - 1] = true;\n', 'for &rhs_row in &matched_rhs {\n')
    s = s.replace('for rhs_row in matched_rhs {\n                            rhs_matched[rhs_row - 1] = true;\n', 'for &rhs_row in matched_rhs.iter() {\n')
    return rep(s, '            match mode {\n                JoinMode::Inner', '            matched_rhs.iter().for_each(|r| rhs_matched[*r - 1] = true);\n            match mode {\n                JoinMode::Inner')

@broken
def b_separate_marking_wrong_index(s):
    s = hits_by_reference_and_separate_marking(s)
    return rep(s, 'matched_rhs.iter().for_each(|r| rhs_matched[*r - 1] = true);', 'matched_rhs.iter().for_each(|r| rhs_matched[*r] = true);')

@benign
def unmatched_right_positive_if(s):
    return rep(s, '''                if rhs_matched[rhs_row - 1] {
                    continue;
                }
''', '''                let already = rhs_matched[rhs_row - 1];
                if already == true {
                    continue;
                }
''')

@benign
def left_loop_as_iterator_chain(s):
    s = rep(s, '        for lhs_row in 1..=lhs.rows {\n            let mut matched_rhs', '        for lhs_row in (1..=lhs.rows).into_iter() {\n            let mut matched_rhs')
    return s

@broken
def b_left_loop_rev_take(s):
    return rep(s, '        for lhs_row in 1..=lhs.rows {\n            let mut matched_rhs', '        for lhs_row in (1..=lhs.rows).take(10) {\n            let mut matched_rhs')

@broken
def b_cells_compared_unequal(s):
    return rep(s, '        lhs_val == rhs_val\n', '        lhs_val != rhs_val\n')

@broken
def b_unmatched_right_exclusive_range(s):
    return rep(s, 'JoinMode::FullOuter) {\n            for rhs_row in 1..=rhs.rows {', 'JoinMode::FullOuter) {\n            for rhs_row in 1..rhs.rows {')

@broken
def b_unmatched_right_guard_inverted(s):
    return rep(s, '                if rhs_matched[rhs_row - 1] {\n                    continue;', '                if !rhs_matched[rhs_row - 1] {\n                    continue;')

@broken
def b_pairs_flagged_empty(s):
    return rep(s, 'out_rows.push(merge_rows(lhs, lhs_row, rhs, rhs_row, &common_rhs, false));', 'out_rows.push(merge_rows(lhs, lhs_row, rhs, rhs_row, &common_rhs, true));')

@broken
def b_right_outer_emits_unmatched_left(s):
    return rep(s, '''                    if matched_rhs.is_empty() {
                        // handled when iterating unmatched rhs rows below
                    } else {''', '''                    if matched_rhs.is_empty() {
                        out_rows.push(merge_rows(lhs, lhs_row, rhs, 0, &common_rhs, true));
                    } else {''')

@broken
def b_predicate_right_cell_from_left_table(s):
    return rep(s, 'let rhs_val = rhs.data.get(rhs_col)', 'let rhs_val = lhs.data.get(rhs_col)')

@broken
def b_match_list_early_break(s):
    return rep(s, '                    matched_rhs.push(rhs_row);\n', '                    matched_rhs.push(rhs_row);\n                    break;\n')

@broken
def b_marks_in_semi_only(s):
    # pairs of the outer joins no longer marked
    return s.replace('                            rhs_matched[rhs_row - 1] = true;\n', '')

if __name__ == "__main__":
    flt = sys.argv[1] if len(sys.argv) > 1 else ""
    bad = 0
    for name, is_benign, f in T:
        if flt and flt not in name:
            continue
        try:
            r = mk.run(name, f(B))
        except Exception as ex:
            import traceback; traceback.print_exc()
            print("%-45s CRASH %r" % (name, ex)); bad += 1; continue
        if is_benign:
            ok = not r.v and r.n == 22
            print("%-45s %s (%d obligations)" % (name, "silent" if ok else "FALSE ALARM / LOSS", r.n))
            if not ok:
                bad += 1
                for v in r.v: print("      ", v)
        else:
            ok = bool(r.v)
            print("%-45s %s" % (name, "reported: " + r.v[0][:110] if ok else "MISSED"))
            if not ok: bad += 1
    print("failures:", bad)
