const INCLUDE_EXT: &str = ".mec";

fn code_fence_delimiter(line: &str) -> Option<(char, usize, usize)> {
  let unindented = line.trim_start_matches(' ');
  let indent = line.len() - unindented.len();
  if indent >= 4 {
    return None;
  }
  let marker = unindented.chars().next().filter(|c| *c == '`' || *c == '~')?;
  let run = unindented.chars().take_while(|c| *c == marker).count();
  (run >= 3).then(|| (marker, run, indent + run))
}

fn is_code_fence_close(line: &str, marker: char, min_len: usize) -> bool {
  code_fence_delimiter(line)
    .filter(|(m, n, _)| *m == marker && *n >= min_len)
    .and_then(|(_, _, after)| line.get(after..))
    .map_or(false, |rest| rest.chars().all(|c| [' ', '\t', '\r', '\n'].contains(&c)))
}

fn include_target(line: &str) -> Option<&str> {
  let body = line.strip_suffix('\n').unwrap_or(line).trim();
  let inner = body.strip_prefix('{')?.strip_suffix('}')?.trim();
  if inner.ends_with(INCLUDE_EXT) { Some(inner) } else { None }
}

fn include_error(what: &str) -> MechError {
  MechError::new(GenericError { msg: format!("Include failed: {}", what) }, None).with_compiler_loc()
}

fn expand_mechdown_include_tokens(
  source: &str,
  canonical_path: &Path,
  active_set: &mut HashSet<PathBuf>,
) -> MResult<String> {
  let mut pieces: Vec<String> = Vec::new();
  let mut lines = source.split_inclusive('\n').peekable();
  while let Some(line) = lines.next() {
    match include_target(line) {
      None => pieces.push(line.to_string()),
      Some(raw) => {
        let base = match canonical_path.parent() {
          Some(p) => p,
          None => Path::new("."),
        };
        let Ok(target) = base.join(raw).canonicalize() else {
          return Err(include_error(raw));
        };
        let mut text = expand_mechdown_includes_recursive(&target, active_set)?;
        if line.ends_with('\n') {
          text.push('\n');
        }
        pieces.push(text);
      }
    }
  }
  Ok(pieces.concat())
}

fn expand_mechdown_includes(path: &Path) -> MResult<String> {
  let mut active_set = HashSet::new();
  expand_mechdown_includes_recursive(path, &mut active_set)
}

fn expand_mechdown_includes_recursive(
  path: &Path,
  active_set: &mut HashSet<PathBuf>,
) -> MResult<String> {
  let canonical_path = match path.canonicalize() {
    Ok(p) => p,
    Err(_) => return Err(include_error(&path.display().to_string())),
  };
  if !active_set.insert(canonical_path.clone()) {
    return Err(MechError::new(GenericError { msg: "Circular include detected".to_string() }, None).with_compiler_loc());
  }
  let source = std::fs::read_to_string(&canonical_path).map_err(|_| include_error(&canonical_path.display().to_string()))?;
  let lines: Vec<&str> = source.split_inclusive('\n').collect();
  let mut result = String::with_capacity(source.len());
  let mut pending = String::new();
  let mut fence: Option<(char, usize)> = None;
  let mut k = 0;
  while k < lines.len() {
    let line = lines[k];
    k += 1;
    if let Some((marker, min_len)) = fence {
      result += line;
      if is_code_fence_close(line, marker, min_len) {
        fence.take();
      }
    } else if let Some((marker, len, _)) = code_fence_delimiter(line) {
      let chunk = std::mem::take(&mut pending);
      result.push_str(&expand_mechdown_include_tokens(&chunk, &canonical_path, active_set)?);
      fence = Some((marker, len));
      result.push_str(line);
    } else {
      pending.push_str(line);
    }
  }
  result.push_str(&expand_mechdown_include_tokens(&pending, &canonical_path, active_set)?);
  active_set.remove(&canonical_path);
  Ok(result)
}
