const MAX_INDENT: usize = 3;

fn fence_marker(b: u8) -> bool {
  b == b'`' || b == b'~'
}

fn code_fence_delimiter(line: &str) -> Option<(char, usize, usize)> {
  let bytes = line.as_bytes();
  let start = bytes.iter().position(|&b| b != b' ').unwrap_or(bytes.len());
  if start > MAX_INDENT {
    return None;
  }
  let (_, rest) = bytes.split_at(start);
  let first = *rest.first()?;
  if !fence_marker(first) {
    return None;
  }
  let mut end = start;
  loop {
    match bytes.get(end) {
      Some(&b) if b == first => end += 1,
      _ => break,
    }
  }
  let n = end - start;
  if n >= 3 { Some((first as char, n, end)) } else { None }
}

fn only_blanks(s: &str) -> bool {
  for c in s.chars() {
    match c {
      ' ' | '\t' | '\r' | '\n' => continue,
      _ => return false,
    }
  }
  true
}

fn is_code_fence_close(line: &str, marker: char, min_len: usize) -> bool {
  if let Some((m, n, after)) = code_fence_delimiter(line) {
    if m == marker {
      if n >= min_len {
        let (_, tail) = line.split_at(after);
        return only_blanks(tail);
      }
    }
  }
  false
}

fn braced(line: &str) -> Option<&str> {
  let t = line.trim();
  let open = t.find('{')?;
  let close = t.rfind('}')?;
  if open != 0 || close + 1 != t.len() {
    return None;
  }
  Some(&t[open + 1..close])
}

fn expand_mechdown_include_tokens(
  source: &str,
  canonical_path: &Path,
  active_set: &mut HashSet<PathBuf>,
) -> MResult<String> {
  let mut result = String::new();
  let mut rest = source;
  while !rest.is_empty() {
    let cut = rest.find('\n').map(|i| i + 1).unwrap_or(rest.len());
    let (line, tail) = rest.split_at(cut);
    rest = tail;
    let has_newline = line.ends_with('\n');
    let body = if has_newline { &line[..line.len() - 1] } else { line };
    let target = braced(body).map(|s| s.trim()).filter(|s| s.ends_with(".mec"));
    if target.is_none() {
      result.push_str(line);
      continue;
    }
    let raw = target.unwrap();
    let dir = canonical_path.parent().unwrap_or(Path::new("."));
    let resolved = dir.join(raw).canonicalize().map_err(|_| {
      MechError::new(GenericError { msg: format!("Include failed: {}", raw) }, None).with_compiler_loc()
    })?;
    let text = expand_mechdown_includes_recursive(&resolved, active_set)?;
    result.push_str(&text);
    if has_newline {
      result.push('\n');
    }
  }
  Ok(result)
}

fn expand_mechdown_includes(path: &Path) -> MResult<String> {
  let mut active_set: HashSet<PathBuf> = HashSet::new();
  expand_mechdown_includes_recursive(path, &mut active_set)
}

fn enter(active_set: &mut HashSet<PathBuf>, key: &Path) -> MResult<()> {
  if active_set.contains(key) {
    return Err(MechError::new(GenericError { msg: "Circular include detected".to_string() }, None).with_compiler_loc());
  }
  active_set.insert(key.to_path_buf());
  Ok(())
}

fn expand_mechdown_includes_recursive(
  path: &Path,
  active_set: &mut HashSet<PathBuf>,
) -> MResult<String> {
  let canonical_path = path.canonicalize().map_err(|_| {
    MechError::new(GenericError { msg: format!("Include failed: {}", path.display()) }, None).with_compiler_loc()
  })?;
  enter(active_set, &canonical_path)?;
  let mut source = String::new();
  let mut file = match File::open(&canonical_path) {
    Ok(f) => f,
    Err(_) => return Err(MechError::new(GenericError { msg: format!("Include failed: {}", canonical_path.display()) }, None).with_compiler_loc()),
  };
  if file.read_to_string(&mut source).is_err() {
    return Err(MechError::new(GenericError { msg: format!("Include failed: {}", canonical_path.display()) }, None).with_compiler_loc());
  }
  let mut result = String::new();
  let mut outside = String::new();
  let mut active_fence: Option<(char, usize)> = None;
  for (_n, line) in source.split_inclusive('\n').enumerate() {
    match (active_fence, code_fence_delimiter(line)) {
      (Some((marker, min_len)), _) => {
        result.push_str(line);
        if is_code_fence_close(line, marker, min_len) {
          active_fence = None;
        }
      }
      (None, Some((marker, len, _))) => {
        if !outside.is_empty() {
          let expanded = expand_mechdown_include_tokens(&outside, &canonical_path, active_set)?;
          result.push_str(&expanded);
          outside.clear();
        }
        active_fence = Some((marker, len));
        result.push_str(line);
      }
      (None, None) => outside.push_str(line),
    }
  }
  if !outside.is_empty() {
    result.push_str(&expand_mechdown_include_tokens(&outside, &canonical_path, active_set)?);
  }
  let _ = active_set.remove(&canonical_path);
  Ok(result)
}
