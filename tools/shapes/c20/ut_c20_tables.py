#!/usr/bin/env python3
"""Self-test of C20-R10 / C20-R11 (rules/c20_tables.py, lib/rsinterp.py) on SOURCE SHAPES, without the fact pipeline:
the include machinery of /repo (src/mechfs.rs, taken as text), three hand-written behaviour-preserving rewrites of it in other
styles (tools/shapes/c20/benign*.rs: iterator chains, strip_prefix / find / split_at scanners, peekable while-let, index loop,
tuple match, user enum as fence state, gate helper, fs::read_to_string) and a list of one-token defects planted in the /repo text
are parsed RAW by `mechsyn --raw` (macros unexpanded; format! is interpreted) and run through the two tables.
Expected: the base and every benign shape give 11 obligations and no issue; every planted defect is reported except the ones
marked equivalent.  usage: python3 tools/shapes/c20/ut_c20_tables.py [mutant-name...]
"""
import json
import os
import subprocess
import sys
import tempfile

HERE = os.path.dirname(os.path.abspath(__file__))
VERIF = os.path.dirname(os.path.dirname(os.path.dirname(HERE)))
sys.path.insert(0, VERIF)
from rules import c20_tables as T

MECHSYN = os.path.join(VERIF, "tools/mechsyn/target/release/mechsyn")
TMP = tempfile.mkdtemp(prefix="c20shapes-")


class FB:
    """stand-in for a MIR body: parameter / return types from the signature"""
    def __init__(self, it):
        self.fn = "mech::mechfs::" + it["name"]
        tys = []
        for p in it["sig"]["inputs"]:
            t = p[1].replace(" ", "")
            t = t.replace("&mutHashSet<PathBuf>", "&mut std::collections::hash::set::HashSet<std::path::PathBuf,").replace("&Path", "&std::path::Path")
            tys.append(t)
        self.locals = [it["sig"]["ret"]] + tys
        self.nargs = len(tys)

    def where(self):
        return self.fn


class CG:
    pass


class Rep:
    def __init__(self):
        self.out = []
        self.n = 0

    def rule(self, *a):
        pass

    def floor(self, r, w, c, m):
        self.n += 1
        if c < m:
            self.out.append("FLOOR %s %s %d" % (r, w, c))

    def note(self, k, m):
        self.out.append("NOTE %s" % m)

    def check(self, c, r, k, m, *a, **kw):
        self.n += 1
        if not c:
            self.out.append("BAD %s|%s %s" % (r, k, m[:400]))
        return c


def run(path):
    out = os.path.join(TMP, os.path.basename(path) + ".jsonl")
    subprocess.check_call([MECHSYN, "--raw", out, path])
    items = [json.loads(l) for l in open(out)]
    for it in items:
        it["mod"] = "mechfs"
    fns = {it["name"]: it for it in items if it["k"] == "fn"}
    cg = CG()
    cg.bodies = {"mech::mechfs::" + n: FB(it) for n, it in fns.items()}
    rep = Rep()
    opener = [f for f, b in cg.bodies.items() if b.locals[0].replace(" ", "") == "Option<(char,usize,usize)>"]
    close = [f for f, b in cg.bodies.items() if b.locals[0] == "bool" and b.nargs == 3]
    R = [b for f, b in cg.bodies.items() if b.nargs == 2 and "HashSet" in b.locals[2] and "Path" in b.locals[1] and "Result" in b.locals[0]][0]
    ent = [f for f, b in cg.bodies.items() if b.nargs == 1 and "Path" in b.locals[1] and "Result" in b.locals[0]]
    T.run_r10(None, rep, R, cg, items, opener, close)
    T.run_r11(None, rep, R, cg, items, ent)
    return rep


EQUIVALENT = {"indent-lt-3"}      # `i < 3` in the indentation loop: the fourth blank is then read as the marker and rejected - same decisions
M = [
 ("indent-lt-3", "bytes[i] == b' ' && i < 4", "bytes[i] == b' ' && i < 3"),
 ("indent-gt-2", "if i > 3 || i >= bytes.len()", "if i > 2 || i >= bytes.len()"),
 ("indent-any", "if i > 3 || i >= bytes.len()", "if i >= bytes.len()"),
 ("tabs-indent", "bytes[i] == b' ' && i < 4", "(bytes[i] == b' ' || bytes[i] == b'\\t') && i < 4"),
 ("count-le-3", "if count < 3 {", "if count <= 3 {"),
 ("count-lt-2", "if count < 3 {", "if count < 2 {"),
 ("after-j-plus-1", "Some((marker, count, j))", "Some((marker, count, j + 1))"),
 ("after-count", "Some((marker, count, j))", "Some((marker, count, count))"),
 ("count-is-j", "Some((marker, count, j))", "Some((marker, j, j))"),
 ("only-backtick", "marker != '`' && marker != '~'", "marker != '`'"),
 ("trim-no-cr", "c == ' ' || c == '\\t' || c == '\\r' || c == '\\n'", "c == ' ' || c == '\\t' || c == '\\n'"),
 ("trim-only-end", ".trim_matches(|c| c == ' '", ".trim_end_matches(|c| c == 'x' || c == ' '"),
 ("close-exact-len", "count < min_len", "count != min_len"),
 ("close-any-marker", "line_marker != marker || count < min_len", "count < min_len"),
 ("close-slice-from-count", "line[after..]", "line[count..]"),
 ("braced-off-by-one", "&trimmed[1..trimmed.len() - 1]", "&trimmed[1..trimmed.len() - 2]"),
 ("braced-no-trim", "let trimmed = line_without_newline.trim();", "let trimmed = line_without_newline.trim_end();"),
 ("braced-starts-only", "trimmed.starts_with('{') && trimmed.ends_with('}')", "trimmed.starts_with('{') && trimmed.contains('}')"),
 ("mec-contains", "trimmed.ends_with(\".mec\")", "trimmed.contains(\".mec\")"),
 ("mec-no-trim", "let trimmed = content.trim();\n  trimmed.ends_with", "let trimmed = content;\n  trimmed.ends_with"),
 ("drop-newline", "        result.push_str(newline);\n", ""),
 ("always-newline", "        result.push_str(newline);\n", "        result.push_str(\"\\n\");\n"),
 ("raw-not-trimmed", "let include_raw = inner.trim();", "let include_raw = inner;"),
 ("strip-crlf", "line.strip_suffix('\\n')", "line.strip_suffix(\"\\r\\n\")"),
 ("err-names-parent", "msg: format!(\"Include failed: {}\", include_raw)", "msg: format!(\"Include failed: {}\", parent.display())"),
 ("cycle-msg-as-include", "msg: \"Circular include detected\".to_string()", "msg: format!(\"Include failed: {}\", path.display())"),
 ("no-remove", "  active_set.remove(&canonical_path);\n", ""),
 ("flush-missing-at-end", "  if !outside_fence_buffer.is_empty() {\n    let expanded = expand_mechdown_include_tokens(&outside_fence_buffer, &canonical_path, active_set)?;\n    result.push_str(&expanded);\n  }", "  result.push_str(&outside_fence_buffer);"),
 ("fence-line-lost", "      active_fence = Some((marker, len));\n      result.push_str(line);", "      active_fence = Some((marker, len));"),
 ("state-len-3", "active_fence = Some((marker, len));", "active_fence = Some((marker, 3));"),
 ("join-cwd", "let parent = canonical_path.parent().unwrap_or(Path::new(\".\"));", "let parent = Path::new(\".\");"),
 ("lines-not-inclusive", "for line in source.split_inclusive('\\n') {\n    let (line_without_newline", "for line in source.lines() {\n    let (line_without_newline"),
]


def main():
    only = sys.argv[1:]
    src = open(os.environ.get("MECH_REPO", "/repo") + "/src/mechfs.rs", newline="").read().replace("\r\n", "\n")
    base = src[src.index("fn looks_like_mech_include"):src.index("#[cfg(test)]\nmod tests", src.index("fn looks_like_mech_include"))]
    bp = os.path.join(TMP, "base.rs")
    open(bp, "w").write(base)
    ok = True
    if not only:
        for p in [bp] + sorted(os.path.join(HERE, f) for f in os.listdir(HERE) if f.startswith("benign") and f.endswith(".rs")):
            rep = run(p)
            good = rep.n == 11 and not rep.out
            ok = ok and good
            print("%-28s %s (%d obligations)%s" % (os.path.basename(p), "silent" if good else "NOT SILENT", rep.n, "".join("\n    " + o for o in rep.out)))
    for name, old, new in M:
        if only and name not in only:
            continue
        assert base.count(old) == 1, (name, base.count(old))
        p = os.path.join(TMP, "m_%s.rs" % name)
        open(p, "w").write(base.replace(old, new))
        rep = run(p)
        bad = [o for o in rep.out if o.startswith("BAD") or o.startswith("FLOOR")]
        want = name not in EQUIVALENT
        ok = ok and (bool(bad) == want)
        print("%-28s %s %s" % (name, ("reported" if bad else "silent") + ("" if bool(bad) == want else "  <-- UNEXPECTED"), sorted({o.split()[1] for o in bad})))
    sys.exit(0 if ok else 1)


if __name__ == "__main__":
    main()
