import os, sys
sys.path.insert(0, os.path.dirname(os.path.abspath(__file__)))
import mk
from lib.facts import find
from rules import c19
SRC = '''
fn a(p: &Interpreter) { let plan = p.plan(); let mut w = plan.borrow_mut(); w.push(x); }
fn b(p: &Interpreter) { let plan = p.plan(); { let mut w = plan.borrow_mut(); w.insert(0, x); } }
fn c(steps: &Plan) { steps.borrow_mut().sort(); }
fn d(state: &ProgramState) { state.plan.borrow_mut().reverse(); }
fn e() { let mut term_plan: Vec<Box<dyn MechFunction>> = Vec::new(); term_plan.insert(0, x); term_plan.push(y); }
fn f(fxns: &mut Vec<Box<dyn MechFunction>>) { fxns.swap(0, 1); }
fn g(p: &Interpreter) { let handle = p.plan(); let guard = handle.borrow_mut(); let mut alias = guard; alias.push(x); alias.truncate(1); }
'''
want = {"a": (1, []), "b": (0, ["insert"]), "c": (0, ["sort"]), "d": (0, ["reverse"]), "e": (0, []), "f": (0, ["swap"]), "g": (1, ["truncate"])}
bad = 0
for it in mk.items_of(SRC, "plan_roles"):
    is_plan = c19.plan_role(it)
    app = [m[2] for m in find(it["body"], "mcall") if m[2] in c19.PLAN_APPEND and is_plan(m[1])]
    ed = [m[2] for m in find(it["body"], "mcall") if m[2] in c19.PLAN_EDIT and is_plan(m[1])]
    ok = (len(app), ed) == want[it["name"]]
    bad += not ok
    print(it["name"], "ok" if ok else "WRONG", len(app), ed)
print("failures:", bad)
