"""Shape tests without the fact pipeline: source variants of the join routine / Interpreter::step are produced by string edits of /repo's files, the macros the rules
care about are expanded by hand (matches!, vec!), the text is parsed by `mechsyn --raw` into the same JSON AST the rules see, and the rule functions
(rules.c18.check_join / check_tokens, rules.c19.check_step, loopshape.c19_step_nesting_items) are run on it.  A benign shape must be silent WITH THE SAME NUMBER OF
OBLIGATIONS as the unedited source; a broken shape must be reported.  Seconds per shape instead of minutes, so many shapes can be tried.
usage: python3 tools/shapes/shapes_c18.py [substring]; shapes_c18_r1.py; shapes_c19.py"""
import re, sys, os, json, subprocess, tempfile
VERIF = os.path.dirname(os.path.dirname(os.path.dirname(os.path.abspath(__file__))))
sys.path.insert(0, VERIF)
REPO = os.environ.get("MECH_REPO", "/repo")
MECHSYN = os.path.join(VERIF, 'tools/mechsyn/target/release/mechsyn')
OUT = tempfile.mkdtemp(prefix="shapes-")
import atexit, shutil
atexit.register(lambda: shutil.rmtree(OUT, ignore_errors=True))

def expand(src):
    src = re.sub(r'!matches!\((\w+),\s*([^)]*?)\)', r'!(match \1 { \2 => true, _ => false })', src)
    src = re.sub(r'matches!\((\w+),\s*([^)]*?)\)', r'(match \1 { \2 => true, _ => false })', src)
    src = re.sub(r'vec!\[\]', 'Vec::new()', src)
    src = re.sub(r'vec!\[([^;\]]+)\]', r'<[_]>::into_vec(::alloc::boxed::box_new([\1]))', src)
    src = re.sub(r'vec!\[([^;\]]+);\s*([^\]]+)\]', r'::alloc::vec::from_elem(\1, \2)', src)
    return src

def base():
    s = open(REPO + '/src/interpreter/src/stdlib/table_ops.rs').read()
    s = s[:s.index('register_descriptor!')]
    s = re.sub(r'compile_binop!\([^;]*\);', 'todo();', s, flags=re.S)
    s = s.replace('format!("{:#?}", self)', 'String::new()').replace('format!("TableJoinFxn::{:?}", self.mode)', 'String::new()')
    return s

def items_of(src, name):
    p = os.path.join(OUT, '%s.rs' % name)
    open(p, 'w').write(expand(src))
    out = p + '.jsonl'
    r = subprocess.run([MECHSYN, '--raw', out, p], capture_output=True, text=True)
    if r.returncode != 0:
        raise SystemExit("mechsyn failed on %s: %s" % (name, r.stderr[-2000:]))
    its = [json.loads(l) for l in open(out)]
    for it in its:
        it.setdefault('mod', 'stdlib::table_ops')
    return its

class Rep:
    def __init__(self): self.v = []; self.n = 0; self.analysed = {}
    def rule(self, *a): pass
    def ok(self, *a, **k): self.n += 1
    def bad(self, rule, key, msg, where="", detail=None): self.n += 1; self.v.append("%s|%s  %s" % (rule, key, msg[:160]))
    def check(self, cond, rule, key, msg, where="", detail=None, sample=None):
        self.n += 1
        if not cond: self.v.append("%s|%s  %s" % (rule, key, msg[:200]))
        return cond
    def floor(self, rule, what, count, minimum):
        self.n += 1
        if count < minimum: self.v.append("%s|anchor-lost:%s %d<%d" % (rule, what, count, minimum))
    def note(self, *a): pass

def run(name, src):
    from rules import c18
    its = items_of(src, name)
    rep = Rep()
    c18.check_join(its, rep, "unit")
    return rep
