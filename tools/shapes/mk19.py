import re, sys, os, json, subprocess
sys.path.insert(0, os.path.dirname(os.path.abspath(__file__)))
import mk

def base():
    s = open(mk.REPO + '/src/interpreter/src/interpreter.rs').read()
    i = s.index('  pub fn step(&mut self, step_id: usize, step_count: u64)')
    j = s.index('  #[cfg(feature = "functions")]\n  pub fn interpret(')
    body = s[i:j]
    body = re.sub(r'trace_println!\(self, "\{\}", \{.*?\}\);', 'trace();', body, flags=re.S)
    return "impl Interpreter {\n" + body + "\n}\nfn print_histogram(d: &Vec<Duration>) { for x in d.iter() { show(x); } }\n"

class Rep(mk.Rep):
    pass

def run(name, src):
    from rules import c19
    from rules.loopshape import c19_step_nesting_items
    its = mk.items_of(src, name)
    for it in its:
        it['mod'] = 'interpreter'
    rep = Rep()
    c19.check_step(its, rep)
    c19_step_nesting_items(its, rep)
    return rep
