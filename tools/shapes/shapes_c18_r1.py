import os, sys
sys.path.insert(0, os.path.dirname(os.path.abspath(__file__)))
import sys, re
import mk
from rules import c18
src = open(mk.REPO + '/src/interpreter/src/expressions.rs').read()
i = src.index('pub fn term(trm: &Term')
j = src.index('\n}\n', i) + 3
term = src[i:j]
def run(name, s):
    its = mk.items_of(s, name)
    rep = mk.Rep()
    n = c18.check_tokens(its, rep, "unit")
    return n, [v[:70] for v in rep.v]
arms = re.findall(r'      FormulaOperator::Table\(TableOp::(\w+)\) => (\w+) \{\}\.compile\(&vec!\[lhs, rhs\]\)\?,\n', term)
t2 = term
for op, st in arms:
    t2 = t2.replace('      #[cfg(feature = "table")]\n      FormulaOperator::Table(TableOp::%s) => %s {}.compile(&vec![lhs, rhs])?,\n' % (op, st), '')
t2 = t2.replace('      // Set', '      FormulaOperator::Table(table_op) => {\n        let operands = vec![lhs, rhs];\n        table_compiler(table_op).compile(&operands)?\n      }\n      // Set', 1)
t2 += '\nfn table_compiler(op: &TableOp) -> Box<dyn NativeFunctionCompiler> {\n  match op {\n' + ''.join('    TableOp::%s => Box::new(%s {}),\n' % a for a in arms) + '  }\n}\n'
res = [("base", True, run('term0', term)),
       ("helper chooses struct", True, run('term1', t2)),
       ("helper, operands swapped", False, run('term2', t2.replace('let operands = vec![lhs, rhs];', 'let operands = vec![rhs, lhs];'))),
       ("helper, wrong struct", False, run('term3', t2.replace('TableOp::LeftSemiJoin => Box::new(TableLeftSemiJoin {})', 'TableOp::LeftSemiJoin => Box::new(TableLeftAntiJoin {})'))),
       ("operands swapped in arm", False, run('term4', term.replace('TableLeftSemiJoin {}.compile(&vec![lhs, rhs])', 'TableLeftSemiJoin {}.compile(&vec![rhs, lhs])'))),
       ("same operand twice", False, run('term5', term.replace('TableLeftSemiJoin {}.compile(&vec![lhs, rhs])', 'TableLeftSemiJoin {}.compile(&vec![lhs, lhs.clone()])')))]
bad = 0
for name, benign, (n, v) in res:
    ok = (not v and n == 6) if benign else bool(v)
    bad += not ok
    print("%-30s %s %s" % (name, "ok" if ok else "WRONG", v[:1]))
print("failures:", bad)
