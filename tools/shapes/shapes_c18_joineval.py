"""Shape tests for C18-R7 (join operators on a finite table of operand pairs): the source shapes of shapes_c18.py (benign rewrites and broken variants of the join
routine), parsed by `mechsyn --raw`, are evaluated by rules.c18_joineval.check_join_eval with the mech_core facts of the current tree state.
A benign shape must be silent (6 entries decided, no `undecided` note); for a broken shape the tool prints whether the finite evaluation ALONE reports it
(informational: the shape rules R2-R4 are the ones shapes_c18.py holds to them).
usage: python3 tools/shapes/shapes_c18_joineval.py [substring]"""
import os
import sys
sys.path.insert(0, os.path.dirname(os.path.abspath(__file__)))
import mk
import shapes_c18 as S
import pipeline
from lib.facts import Facts


class Rep(mk.Rep):
    def __init__(self):
        mk.Rep.__init__(self)
        self.notes = []

    def note(self, cls, item):
        self.notes.append((cls, item))


def main():
    args = [a for a in sys.argv[1:] if not a.startswith("-")]
    flt = args[0] if args else ""
    F = Facts(pipeline.ensure_facts())
    core = F.syn("mech_core.lib")
    from rules import c18_joineval
    fails = missed = 0
    shapes = [("unedited", True, lambda s: s)] + S.T
    # these two shapes replace a row builder by a STUB that returns an empty row (enough for the shape rules, which keep row builders opaque): they are not
    # behaviour-preserving as source and the finite evaluation rightly reports them
    stubbed = {"unmatched_right_iterator", "option_row"}
    for name, benign, f in shapes:
        if flt and flt not in name:
            continue
        if name in stubbed:
            benign = False
        its = mk.items_of(f(S.B), "je_" + name)
        rep = Rep()
        ok_modes = c18_joineval.check_join_eval(its, core, rep)
        und = [n for n in rep.notes if n[0] == "undecided"]
        if benign:
            ok = not rep.v and not und and len(ok_modes) == 6
            fails += 0 if ok else 1
            print("%-48s %s (%d obligations, %d undecided, %d modes decided)" % (name, "silent" if ok else "FALSE ALARM / UNDECIDED", rep.n, len(und), len(ok_modes)))
            for v in rep.v[:2]:
                print("       " + v[:300])
            for u in und[:2]:
                print("       undecided: %s" % (u[1],))
        else:
            ok = bool(rep.v)
            missed += 0 if ok else 1
            print("%-48s %s" % (name, ("reported: " + rep.v[0][:150]) if ok else ("not visible on the finite table" + (" (undecided: %s)" % und[0][1].get("why") if und else ""))))
    print("benign failures: %d; broken shapes the finite evaluation alone does not report: %d" % (fails, missed))
    sys.exit(1 if fails else 0)


if __name__ == "__main__":
    main()
