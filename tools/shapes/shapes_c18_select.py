"""Shape tests for C18-R6 (row selection on a finite table) without the fact pipeline.

Source variants of src/interpreter/src/stdlib/access/table.rs are produced by string edits, parsed by `mechsyn --raw` into the JSON AST the rules see and handed to
rules.c18_select.check_selection together with the facts of mech_core of the current tree state (MechTable::empty_table / get_record are evaluated from there).
A benign shape must be silent with the same number of obligations as the unedited source and without `undecided` notes; a broken shape must be reported.
usage: python3 tools/shapes/shapes_c18_select.py [substring]"""
import os
import sys
sys.path.insert(0, os.path.dirname(os.path.abspath(__file__)))
import mk
import pipeline
from lib.facts import Facts

SRC = mk.REPO + "/src/interpreter/src/stdlib/access/table.rs"


def base():
    s = open(SRC, newline="").read().replace("\r\n", "\n")
    # the column-access macros at the top of the file are irrelevant here (and `paste!` bodies are not Rust the raw parser accepts as items)
    s = s[s.index("pub struct TableAccessColumn"):]
    return "use crate::stdlib::*;\n" + s


class Rep(mk.Rep):
    def __init__(self):
        mk.Rep.__init__(self)
        self.notes = []

    def note(self, cls, item):
        self.notes.append((cls, item))


MASK_COUNT = "    let true_count = ix_brrw.iter().filter(|&&b| b).count();\n"
MASK_LOOP = """      let mut push_index = 0;
      for (i, flag) in ix_brrw.iter().enumerate() {
        if *flag {
          let value = matrix.index1d(i + 1); // 1-based indexing; use `i` if 0-based
          out_matrix.set_index1d(push_index, value.clone());
          push_index += 1;
        }
      }
"""
MASK_ROWS = "    out_table.rows = true_count;\n"
MASK_RESIZE = "      out_matrix.resize_vertically(true_count, Value::Empty);\n"
INDEX_LOOP = """      for (out_i, i) in ix_brrw.iter().enumerate() {
        let value = matrix.index1d(*i);
        out_matrix.set_index1d(out_i, value.clone());
      }
"""
ALLOC = "let out_table = source.borrow().empty_table(ix.borrow().len());"

# (name, benign?, [(old, new, count)])
SHAPES = [
    ("unedited", True, []),
    # ---------------- behaviour-preserving rewrites
    ("b-count-by-sum-of-casts", True, [(MASK_COUNT, "    let true_count: usize = ix_brrw.iter().map(|&b| b as usize).sum();\n", 1)]),
    ("b-count-by-loop", True, [(MASK_COUNT, "    let mut true_count = 0;\n    for flag in ix_brrw.iter() {\n      if *flag { true_count += 1; }\n    }\n", 1)]),
    ("b-guard-clause-continue", True, [(MASK_LOOP, """      let mut push_index = 0;
      for (i, flag) in ix_brrw.iter().enumerate() {
        if !*flag {
          continue;
        }
        let value = matrix.index1d(i + 1);
        out_matrix.set_index1d(push_index, value.clone());
        push_index += 1;
      }
""", 1)]),
    ("b-filter-map-enumerate-pipeline", True, [(MASK_LOOP, """      for (push_index, row) in ix_brrw.iter().enumerate().filter(|(_, &flag)| flag).map(|(i, _)| i + 1).enumerate() {
        out_matrix.set_index1d(push_index, matrix.index1d(row).clone());
      }
""", 1)]),
    ("b-while-loop", True, [(MASK_LOOP, """      let mut push_index = 0;
      let mut i = 0;
      while i < ix_brrw.len() {
        if ix_brrw[i] {
          out_matrix.set_index1d(push_index, matrix.index1d(i + 1));
          push_index += 1;
        }
        i += 1;
      }
""", 1)]),
    ("b-helper-method-for-count", True, [(MASK_COUNT, "    let true_count = self.selected();\n", 1),
                                        ("impl MechFunctionImpl for TableAccessRangeBool {", "impl TableAccessRangeBool {\n  fn selected(&self) -> usize {\n    self.ix.borrow().iter().filter(|b| **b).count()\n  }\n}\nimpl MechFunctionImpl for TableAccessRangeBool {", 1)]),
    ("b-free-helper-for-copy", True, [(MASK_LOOP, "      copy_flagged(matrix, out_matrix, &ix_brrw);\n", 1),
                                     ("pub struct TableAccessRange{}", """fn copy_flagged(matrix: &Matrix<Value>, out_matrix: &Matrix<Value>, flags: &DVector<bool>) {
  let mut push_index = 0;
  for (i, flag) in flags.iter().enumerate() {
    if *flag {
      out_matrix.set_index1d(push_index, matrix.index1d(i + 1));
      push_index += 1;
    }
  }
}
pub struct TableAccessRange{}""", 1)]),
    ("b-rows-set-before-the-loop", True, [(MASK_ROWS, "", 1), ("    let mut out_table = self.out.borrow_mut();\n\n    for (key, (_kind, matrix)) in table.data.iter() {\n      let (_out_kind, out_matrix) = out_table.data.get_mut(key).unwrap();\n\n      // Resize",
                                                               "    let mut out_table = self.out.borrow_mut();\n    out_table.rows = true_count;\n\n    for (key, (_kind, matrix)) in table.data.iter() {\n      let (_out_kind, out_matrix) = out_table.data.get_mut(key).unwrap();\n\n      // Resize", 1)]),
    ("b-empty-selection-fast-path-done-right", True, [(MASK_COUNT, MASK_COUNT + """    if true_count == 0 {
      let mut out_table = self.out.borrow_mut();
      for (_key, (_kind, column)) in out_table.data.iter_mut() {
        column.resize_vertically(0, Value::Empty);
      }
      out_table.rows = 0;
      return;
    }
""", 1)]),
    ("b-index-empty-fast-path", True, [("    let ix_brrw = self.ix.borrow();\n\n    for (key, (_kind, matrix)) in table.data.iter() {\n      let (_out_kind, out_matrix) = out_table.data.get_mut(key).unwrap();\n      for (out_i",
                                        "    let ix_brrw = self.ix.borrow();\n    if ix_brrw.is_empty() {\n      return;\n    }\n\n    for (key, (_kind, matrix)) in table.data.iter() {\n      let (_out_kind, out_matrix) = out_table.data.get_mut(key).unwrap();\n      for (out_i", 1)]),
    ("b-index-loop-by-position", True, [(INDEX_LOOP, "      for out_i in 0..ix_brrw.len() {\n        out_matrix.set_index1d(out_i, matrix.index1d(ix_brrw[out_i]));\n      }\n", 1)]),
    ("b-alloc-through-named-local", True, [(ALLOC, "let n = ix.borrow().len();\n        let out_table = source.borrow().empty_table(n);", 4)]),
    ("b-alloc-helper-fn", True, [(ALLOC, "let out_table = blank_like(&source, ix.borrow().len());", 4),
                                ("pub struct TableAccessRange{}", "fn blank_like(source: &Ref<MechTable>, rows: usize) -> MechTable {\n  source.borrow().empty_table(rows)\n}\npub struct TableAccessRange{}", 1)]),
    ("b-mask-alloc-exact-count", True, [("        let out_table = source.borrow().empty_table(ix.borrow().len());\n        Ok(Box::new(TableAccessRangeBool{",
                                         "        let out_table = source.borrow().empty_table(ix.borrow().iter().filter(|b| **b).count());\n        Ok(Box::new(TableAccessRangeBool{", 1)]),
    ("b-scalar-let-else", True, [("""        let record = match source.borrow().get_record(*ix.borrow()) {
          Some(record) => record,
          None => return Err(MechError::new(UnhandledFunctionArgumentKind2 { arg: (tbl.kind(), ix1.kind()), fxn_name: "TableAccessScalar".to_string() }, None).with_compiler_loc()),
        };""", """        let Some(record) = source.borrow().get_record(*ix.borrow()) else {
          return Err(MechError::new(UnhandledFunctionArgumentKind2 { arg: (tbl.kind(), ix1.kind()), fxn_name: "TableAccessScalar".to_string() }, None).with_compiler_loc());
        };""", 1)]),
    # ---------------- slips of the seeded kind at sibling sites
    ("x-seed-empty-mask-early-return", False, [(MASK_COUNT, MASK_COUNT + "    if true_count == 0 {\n      return;\n    }\n", 1)]),
    ("x-all-true-early-return", False, [(MASK_COUNT, MASK_COUNT + "    if true_count == ix_brrw.len() {\n      return;\n    }\n", 1)]),
    ("x-rows-only-when-nonzero", False, [(MASK_ROWS, "    if true_count > 0 {\n      out_table.rows = true_count;\n    }\n", 1)]),
    ("x-rows-not-updated", False, [(MASK_ROWS, "", 1)]),
    ("x-rows-from-mask-length", False, [(MASK_ROWS, "    out_table.rows = ix_brrw.len();\n", 1)]),
    ("x-resize-skipped-when-empty", False, [(MASK_RESIZE, "      if true_count > 0 {\n        out_matrix.resize_vertically(true_count, Value::Empty);\n      }\n", 1)]),
    ("x-resize-at-least-one", False, [(MASK_RESIZE, "      out_matrix.resize_vertically(true_count.max(1), Value::Empty);\n", 1)]),
    ("x-count-of-cleared-flags", False, [(MASK_COUNT, "    let true_count = ix_brrw.iter().filter(|&&b| !b).count();\n", 1)]),
    ("x-loop-breaks-after-first-hit", False, [("          push_index += 1;\n        }\n      }\n", "          push_index += 1;\n          break;\n        }\n      }\n", 1)]),
    ("x-first-column-only", False, [("      // Fill with contiguous values\n", "      if push_done { continue; }\n      push_done = true;\n", 1),
                                   ("    let mut out_table = self.out.borrow_mut();\n\n    for (key, (_kind, matrix)) in table.data.iter() {\n      let (_out_kind, out_matrix) = out_table.data.get_mut(key).unwrap();\n\n      // Resize",
                                    "    let mut out_table = self.out.borrow_mut();\n    let mut push_done = false;\n\n    for (key, (_kind, matrix)) in table.data.iter() {\n      let (_out_kind, out_matrix) = out_table.data.get_mut(key).unwrap();\n\n      // Resize", 1)]),
    ("x-mask-skips-first-row", False, [("      for (i, flag) in ix_brrw.iter().enumerate() {\n        if *flag {", "      for (i, flag) in ix_brrw.iter().enumerate().skip(1) {\n        if *flag {", 1)]),
    ("x-index-single-row-fast-path", False, [("    let ix_brrw = self.ix.borrow();\n\n    for (key, (_kind, matrix)) in table.data.iter() {\n      let (_out_kind, out_matrix) = out_table.data.get_mut(key).unwrap();\n      for (out_i",
                                              "    let ix_brrw = self.ix.borrow();\n    if ix_brrw.len() == table.rows {\n      return;\n    }\n\n    for (key, (_kind, matrix)) in table.data.iter() {\n      let (_out_kind, out_matrix) = out_table.data.get_mut(key).unwrap();\n      for (out_i", 1)]),
    ("x-index-alloc-at-least-one-in-one-arm", False, [("          Value::Table(source) => {\n            let out_table = source.borrow().empty_table(ix.borrow().len());\n            Ok(Box::new(TableAccessRangeIndex{",
                                                       "          Value::Table(source) => {\n            let out_table = source.borrow().empty_table(ix.borrow().len().max(1));\n            Ok(Box::new(TableAccessRangeIndex{", 1)]),
    ("x-index-alloc-source-rows", False, [("        let out_table = source.borrow().empty_table(ix.borrow().len());\n        Ok(Box::new(TableAccessRangeIndex{",
                                           "        let out_table = source.borrow().empty_table(source.borrow().rows);\n        Ok(Box::new(TableAccessRangeIndex{", 1)]),
    ("x-index-rejects-empty-selection", False, [("        let out_table = source.borrow().empty_table(ix.borrow().len());\n        Ok(Box::new(TableAccessRangeIndex{",
                                                 "        if ix.borrow().len() == 0 {\n          return Err(MechError::new(UnhandledFunctionArgumentIxesMono { arg: (tbl.kind(), vec![]), fxn_name: \"TableAccessRange\".to_string() }, None).with_compiler_loc());\n        }\n        let out_table = source.borrow().empty_table(ix.borrow().len());\n        Ok(Box::new(TableAccessRangeIndex{", 1)]),
    ("x-scalar-record-of-first-row-and-no-refill", False, [("        let record = match source.borrow().get_record(*ix.borrow()) {\n          Some(record) => record,", "        let record = match source.borrow().get_record(1) {\n          Some(record) => record,", 1),
                                                            ("    let row_ix = *self.ix.borrow();\n", "    let row_ix = *self.ix.borrow();\n    if row_ix > 0 {\n      return;\n    }\n", 1)]),
    ("x-scalar-reads-previous-row", False, [("      let value = matrix.index1d(row_ix);\n", "      let value = matrix.index1d(row_ix.max(2) - 1);\n", 1)]),
]


def main():
    args = [a for a in sys.argv[1:] if not a.startswith("-")]
    flt = args[0] if args else ""
    F = Facts(pipeline.ensure_facts())
    core = F.syn("mech_core.lib")
    from rules import c18_select
    src0 = base()
    n0 = None
    fails = 0
    for name, benign, edits in SHAPES:
        if flt and flt not in name and name != "unedited":
            continue
        src = src0
        for old, new, cnt in edits:
            assert src.count(old) == cnt, (name, old[:60], src.count(old))
            src = src.replace(old, new)
        its = mk.items_of(src, "sel_" + name.replace("-", "_"))
        for it in its:
            it["mod"] = "stdlib::access::table"
        rep = Rep()
        c18_select.check_selection(its, core, rep)
        und = [n for n in rep.notes if n[0] == "undecided"]
        if name == "unedited":
            n0 = rep.n
        if benign:
            ok = not rep.v and rep.n == n0 and not und
        else:
            ok = bool(rep.v)
        fails += 0 if ok else 1
        print("%-50s %s  (%d obligations, %d violations, %d undecided)" % (name, "ok" if ok else ("FALSE ALARM / VACUOUS" if benign else "MISSED"), rep.n, len(rep.v), len(und)))
        if not ok or (not benign and "-v" in sys.argv):
            for v in rep.v[:3]:
                print("      " + v[:330])
            for u in und[:3]:
                print("      undecided: %s" % (u[1],))
    sys.exit(1 if fails else 0)


if __name__ == "__main__":
    main()
