import os, sys
sys.path.insert(0, os.path.dirname(os.path.abspath(__file__)))
import sys
import mk19
B = mk19.base()
T = []
def benign(f): T.append((f.__name__, True, f)); return f
def broken(f): T.append((f.__name__, False, f)); return f
def rep(s, old, new, count=1):
    assert old in s, old[:70]
    return s.replace(old, new, count) if count else s.replace(old, new)

WHOLE1 = '''        for _ in 0..step_count {
          for (idx, fxn) in plan_brrw.iter_mut().enumerate() {
            let start = Instant::now();
            fxn.solve();
            total_durations[idx] += start.elapsed();
          }
        }
'''
WHOLE2 = '''        for _ in 0..step_count {
          for (idx, fxn) in plan_brrw.iter_mut().enumerate() {
            trace();
            fxn.solve();
            trace();
          }
        }
'''
SINGLE = '''    for _ in 0..step_count {
      fxn.solve();
    }
'''

@benign
def named_count_and_foreach(s):
    s = rep(s, WHOLE2, '''        let passes = step_count;
        (0..passes).for_each(|_| {
          plan_brrw.iter_mut().enumerate().for_each(|(idx, fxn)| { trace(); fxn.solve(); trace(); });
        });
''')
    return s

@benign
def free_fn_pass(s):
    s = rep(s, WHOLE2, '''        for _ in 0..step_count {
          run_pass(&mut plan_brrw);
        }
''')
    return s + '''
fn run_pass(fxns: &mut Vec<Box<dyn MechFunction>>) {
  for f in fxns.iter_mut() {
    f.solve();
  }
}
'''

@benign
def method_with_count(s):
    s = rep(s, WHOLE1, '''        self.run_profiled(&mut plan_brrw, &mut total_durations, step_count);
''')
    return rep(s, 'fn print_histogram', '''impl Interpreter {
  fn run_profiled(&self, plan: &mut Vec<Box<dyn MechFunction>>, totals: &mut Vec<Duration>, times: u64) {
    let mut done = 0;
    while done < times {
      for (idx, fxn) in plan.iter_mut().enumerate() {
        let start = Instant::now();
        fxn.solve();
        totals[idx] += start.elapsed();
      }
      done += 1;
    }
  }
}
fn print_histogram''')

@benign
def countdown_while(s):
    return rep(s, SINGLE, '''    let mut left = step_count;
    while left != 0 {
      left -= 1;
      fxn.solve();
    }
''')

@benign
def index_loop_over_plan(s):
    # plan traversed by position: for i in 0..len { plan[i].solve() }
    return rep(s, WHOLE2, '''        for _ in 0..step_count {
          for i in 0..plan_brrw.len() {
            trace();
            plan_brrw[i].solve();
            trace();
          }
        }
''')

@benign
def guard_clause_single_first(s):
    # step_id != 0 handled first with early return
    i = s.index('    // Case 1: step_id == 0')
    j = s.index('    // Case 2: step a single function by index')
    k = s.index('    Ok(fxn.out().clone())\n')
    case1 = s[i:j]; case2 = s[j:k + len('    Ok(fxn.out().clone())\n')]
    case2 = case2.replace('    Ok(fxn.out().clone())\n', '    return Ok(fxn.out().clone());\n')
    inner1 = case1[case1.index('if step_id == 0 {') + len('if step_id == 0 {'):case1.rindex('}')]
    new = '    if step_id != 0 {\n' + case2 + '    }\n' + inner1 + '\n'
    return s[:i] + new + s[k + len('    Ok(fxn.out().clone())\n'):]

# ---------------------------------------------------------------- broken
@broken
def b_foreach_skip(s):
    s = named_count_and_foreach(s)
    return rep(s, 'plan_brrw.iter_mut().enumerate().for_each', 'plan_brrw.iter_mut().enumerate().skip(1).for_each')

@broken
def b_named_count_minus_one(s):
    s = named_count_and_foreach(s)
    return rep(s, 'let passes = step_count;', 'let passes = step_count - 1;')

@broken
def b_free_fn_pass_reversed(s):
    s = free_fn_pass(s)
    return rep(s, 'for f in fxns.iter_mut() {', 'for f in fxns.iter_mut().rev() {')

@broken
def b_free_fn_solves_twice(s):
    s = free_fn_pass(s)
    return rep(s, '    f.solve();\n', '    f.solve();\n    f.solve();\n')

@broken
def b_method_interchange(s):
    s = method_with_count(s)
    return rep(s, '''    while done < times {
      for (idx, fxn) in plan.iter_mut().enumerate() {
        let start = Instant::now();
        fxn.solve();
        totals[idx] += start.elapsed();
      }
      done += 1;
    }''', '''    for (idx, fxn) in plan.iter_mut().enumerate() {
      let mut done = 0;
      while done < times {
        let start = Instant::now();
        fxn.solve();
        totals[idx] += start.elapsed();
        done += 1;
      }
    }''')

@broken
def b_countdown_from_count_plus_one(s):
    s = countdown_while(s)
    return rep(s, 'let mut left = step_count;', 'let mut left = step_count + 1;')

@broken
def b_while_le(s):
    s = method_with_count(s)
    return rep(s, 'while done < times {', 'while done <= times {')

@broken
def b_index_loop_from_one(s):
    s = index_loop_over_plan(s)
    return rep(s, 'for i in 0..plan_brrw.len() {', 'for i in 1..plan_brrw.len() {')

@broken
def b_filtered_plan(s):
    return rep(s, 'for (idx, fxn) in plan_brrw.iter_mut().enumerate() {\n            trace();', 'for (idx, fxn) in plan_brrw.iter_mut().enumerate().filter(|(i, _)| *i > 0) {\n            trace();')

if __name__ == "__main__":
    flt = sys.argv[1] if len(sys.argv) > 1 else ""
    bad = 0
    for name, is_benign, f in T:
        if flt and flt not in name:
            continue
        try:
            r = mk19.run(name, f(B))
        except Exception as ex:
            import traceback; traceback.print_exc()
            print("%-45s CRASH %r" % (name, ex)); bad += 1; continue
        if is_benign:
            ok = not r.v and r.n >= 15
            print("%-45s %s (%d obligations)" % (name, "silent" if ok else "FALSE ALARM / LOSS", r.n))
            if not ok:
                bad += 1
                for v in r.v: print("      ", v)
        else:
            ok = bool(r.v)
            print("%-45s %s" % (name, "reported: " + r.v[0][:120] if ok else "MISSED"))
            if not ok: bad += 1
    print("failures:", bad)
