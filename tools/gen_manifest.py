#!/usr/bin/env python3
"""Generate MANIFEST.json from the rule modules present under rules/ (claimed) and the NA table below."""
import importlib
import json
import os
import sys

VERIF = os.path.dirname(os.path.dirname(os.path.abspath(__file__)))
sys.path.insert(0, VERIF)

NA = {
}
NOT_BUILT = "check not built yet (see DESIGN.md section 4 for the planned rules)"

LEVEL_NOTE = ("Trusted base: rustc nightly front end + MIR of the cfg-resolved default-feature workspace build (two `;` tokens that nightly rejects are "
              "blanked in a scratch copy, DESIGN.md section 9), syn's parse of rustc's own -Zunpretty=expanded output, the callee semantics tables "
              "(std, nalgebra, indexmap, nom) and the rule definitions in rules/. The check decides the structural clauses named in level_claimed.text, "
              "not the runtime behaviour itself.")


def main():
    props = [json.loads(l) for l in open(os.path.join(VERIF, "properties.jsonl"))]
    checks, na = [], []
    for p in props:
        pid = p["id"]
        modp = os.path.join(VERIF, "rules", pid.lower() + ".py")
        if pid in NA:
            na.append({"property_id": pid, "reason": NA[pid]})
            continue
        if not os.path.exists(modp):
            na.append({"property_id": pid, "reason": NOT_BUILT})
            continue
        mod = importlib.import_module("rules." + pid.lower())
        checks.append({
            "property_id": pid,
            "quick_cmd": "python3 verif.py %s --tier quick" % pid,
            "thorough_cmd": "python3 verif.py %s --tier thorough" % pid,
            "evidence_file": "/verif/evidence/%s.json" % pid,
            "replay_cmd_template": "cat {path}",
            "engine": "mechfacts+mechsyn+verif.py",
            "level_claimed": {"category": "other", "text": mod.EXPLANATION, "design_ref": "DESIGN.md section 4, %s" % pid},
            "level_note": LEVEL_NOTE,
            "technique": "static analysis: " + mod.TECHNIQUE,
        })
    m = {
        "version": 1,
        "setup_cmd": "python3 /verif/pipeline.py --setup",
        "hooks": {
            "guard": "mech_lang_mech_verif",
            "enable": "none: the checks are pure source analysis (MIR + expanded syntax); no hook or instrumentation exists in /repo",
            "baseline_off_cmd": "cd /repo && (cargo nextest run --workspace --no-fail-fast --test-threads 8 --offline || cargo test --workspace --no-fail-fast --offline)",
            "source_commits": [],
            "add_only": True,
        },
        "engines": [
            {"name": "mechfacts", "path": "tools/mechfacts", "serves_properties": [c["property_id"] for c in checks],
             "kind_free_text": "rustc_private driver (RUSTC_WRAPPER under cargo +nightly check): per-body MIR facts with resolved callees, aggregates, asserts; plus rustc's own macro-expanded source per crate"},
            {"name": "mechsyn", "path": "tools/mechsyn", "serves_properties": [c["property_id"] for c in checks],
             "kind_free_text": "syn 2 parse of the expanded crates into a JSON AST (dispatch tables, kernels, registry, emitters)"},
            {"name": "verif.py", "path": "verif.py", "serves_properties": [c["property_id"] for c in checks],
             "kind_free_text": "rule runner: CFG dominance / pairing / provenance / call-graph / table-agreement rules in rules/*.py, known-findings matching, evidence"},
        ],
        "checks": checks,
        "notes": "All checks share one fact pipeline keyed by a content hash of /repo's sources (pipeline.py); exit 2 = infrastructure failure (no verdict).",
        "not_applicable": na,
    }
    json.dump(m, open(os.path.join(VERIF, "MANIFEST.json"), "w"), indent=1)
    print("claimed:", [c["property_id"] for c in checks])


if __name__ == "__main__":
    main()
