#!/usr/bin/env python3
"""Shape self-test of the per-path clause of C09-R5 (lib/parseloop.py, rules/c09_loops.py) on small source snippets parsed with
`mechsyn --raw` (no pipeline run, ~1 s): behaviour-preserving spellings of an advancing loop must be `ok`, the slips of the family
(shadowing let, continue before the assignment, nullable-only remainder, missing assignment on one branch, weakened progress test ..)
must be `bad`, and loops through an unclassified parser `unk`.
usage: python3 tools/ut_c09_loops.py        (exit 0 = all cases as expected)"""
import json, os, subprocess, sys, tempfile
VERIF = os.path.dirname(os.path.dirname(os.path.abspath(__file__)))
sys.path.insert(0, VERIF)
from lib.facts import find
from lib.nullable import Nullability
from lib.synq import Scope
from lib.parseloop import LoopPaths, describe_path
from rules.c09_loops import LoopProgress
MS = os.path.join(VERIF, "tools/mechsyn/target/release/mechsyn")
TMP = tempfile.mkdtemp(prefix="ut_c09_")

PRELUDE = '''
pub fn item(input: ParseString) -> ParseResult<Token> { let (input, t) = tag("x")(input)?; Ok((input, t)) }
pub fn sep(input: ParseString) -> ParseResult<Token> { let (input, t) = tag(",")(input)?; Ok((input, t)) }
pub fn close(input: ParseString) -> ParseResult<Token> { let (input, t) = tag("]")(input)?; Ok((input, t)) }
pub fn space(input: ParseString) -> ParseResult<Token> { let (input, t) = tag(" ")(input)?; Ok((input, t)) }
pub fn ws0(input: ParseString) -> ParseResult<()> { let (input, _) = many0(space)(input)?; Ok((input, ())) }
pub fn murky(input: ParseString) -> ParseResult<Token> { if coin() { item(input) } else { other(input) } }
fn step(input: ParseString) -> ParseResult<Token> { let (input, _) = ws0(input)?; let (input, t) = item(input)?; let (input, _) = ws0(input)?; Ok((input, t)) }
'''

# name -> (function source, expected verdict of its (single) loop)
CASES = {
 # ---------------------------------------------------------------- advancing loops, in the spellings a maintainer may choose
 "spine-try": ('pub fn f(input: ParseString) -> ParseResult<V> { let mut cur = input; let mut out = vec![]; loop { if close(cur.clone()).is_ok() { break; } let (rest, x) = item(cur.clone())?; out.push(x); let (rest, _) = ws0(rest)?; cur = rest; } Ok((cur, out)) }', "ok"),
 "while-is-err": ('pub fn f(input: ParseString) -> ParseResult<V> { let mut cur = input; let mut out = vec![]; while close(cur.clone()).is_err() { let (rest, x) = item(cur.clone())?; let (rest, _) = ws0(rest)?; cur = rest; out.push(x); } Ok((cur, out)) }', "ok"),
 "while-let": ('pub fn f(input: ParseString) -> ParseResult<V> { let mut cur = input; let mut out = vec![]; while let Ok((rest, x)) = item(cur.clone()) { out.push(x); cur = rest; } Ok((cur, out)) }', "ok"),
 "loop-match-break": ('pub fn f(input: ParseString) -> ParseResult<V> { let mut cur = input; let mut out = vec![]; loop { match item(cur.clone()) { Ok((rest, x)) => { out.push(x); cur = rest; } Err(_) => break, } } Ok((cur, out)) }', "ok"),
 "match-value": ('pub fn f(input: ParseString) -> ParseResult<V> { let mut cur = input; let mut out = vec![]; loop { cur = match item(cur.clone()) { Ok((rest, x)) => { out.push(x); rest } Err(_) => break, }; } Ok((cur, out)) }', "ok"),
 "match-err-return": ('pub fn f(input: ParseString) -> ParseResult<V> { let mut cur = input; let mut out = vec![]; loop { if cur.is_empty() { break; } let (rest, x) = match item(cur.clone()) { Ok(v) => v, Err(e) => return Err(e) }; out.push(x); cur = rest; } Ok((cur, out)) }', "ok"),
 "let-else-break": ('pub fn f(input: ParseString) -> ParseResult<V> { let mut cur = input; let mut out = vec![]; loop { let Ok((rest, x)) = item(cur.clone()) else { break }; out.push(x); cur = rest; } Ok((cur, out)) }', "ok"),
 "if-let-continue-break": ('pub fn f(input: ParseString) -> ParseResult<V> { let mut cur = input; let mut out = vec![]; loop { if let Ok((rest, x)) = item(cur.clone()) { out.push(x); cur = rest; continue; } break; } Ok((cur, out)) }', "ok"),
 "arms-both-assign": ('pub fn f(input: ParseString) -> ParseResult<V> { let mut cur = input; let mut out = vec![]; while close(cur.clone()).is_err() { let (next, k) = item(cur.clone())?; if k.is_hero() { if let Ok((next, i)) = sep(next.clone()) { let (next, _) = ws0(next)?; cur = next; out.push(i); continue; } else if let Ok((next, g)) = close(next.clone()) { let (next, _) = ws0(next)?; cur = next; out.push(g); continue; } } let (next, p) = item(next)?; cur = next; out.push(p); } Ok((cur, out)) }', "ok"),
 "map-err": ('pub fn f(input: ParseString) -> ParseResult<V> { let mut cur = input; let mut out = vec![]; loop { if cur.is_empty() { break; } let (rest, x) = item(cur.clone()).map_err(|e| e)?; out.push(x); cur = rest; } Ok((cur, out)) }', "ok"),
 "unwrap-after-test": ('pub fn f(input: ParseString) -> ParseResult<V> { let mut cur = input; let mut out = vec![]; loop { let r = item(cur.clone()); if r.is_err() { break; } let (rest, x) = r.unwrap(); out.push(x); cur = rest; } Ok((cur, out)) }', "ok"),
 "tuple-assign": ('pub fn f(input: ParseString) -> ParseResult<V> { let mut cur = input; let mut x; loop { if cur.is_empty() { break; } (cur, x) = item(cur)?; } Ok((cur, x)) }', "ok"),
 "helper-step": ('pub fn f(input: ParseString) -> ParseResult<V> { let mut cur = input; let mut out = vec![]; loop { if close(cur.clone()).is_ok() { break; } let (rest, x) = step(cur.clone())?; out.push(x); cur = rest; } Ok((cur, out)) }', "ok"),
 "flag-break": ('pub fn f(input: ParseString) -> ParseResult<V> { let mut cur = input; let mut out = vec![]; loop { let mut progressed = false; if let Ok((rest, x)) = item(cur.clone()) { out.push(x); cur = rest; progressed = true; } if !progressed { break; } } Ok((cur, out)) }', "ok"),
 "cursor-test-le": ('pub fn f(input: ParseString) -> ParseResult<V> { let mut cur = input; loop { match ws0(cur.clone()) { Ok((rest, _)) => { if rest.cursor <= cur.cursor { break; } cur = rest; } Err(e) => return Err(e), } } Ok((cur, ())) }', "ok"),
 "cursor-test-eq": ('pub fn f(input: ParseString) -> ParseResult<V> { let mut cur = input; loop { let (rest, _) = ws0(cur.clone())?; if rest.cursor == cur.cursor { break; } cur = rest; } Ok((cur, ())) }', "ok"),
 "cursor-test-nested": ('pub fn f(input: ParseString) -> ParseResult<V> { let mut cur = input; loop { let (rest, _) = ws0(cur.clone())?; if rest.cursor > cur.cursor { cur = rest; } else { break; } } Ok((cur, ())) }', "ok"),
 "cursor-test-not": ('pub fn f(input: ParseString) -> ParseResult<V> { let mut cur = input; loop { let (rest, _) = ws0(cur.clone())?; if !(rest.cursor > cur.cursor) { break; } cur = rest; } Ok((cur, ())) }', "ok"),
 "len-test": ('pub fn f(input: ParseString) -> ParseResult<V> { let mut cur = input; loop { let (rest, _) = ws0(cur.clone())?; if rest.len() >= cur.len() { break; } cur = rest; } Ok((cur, ())) }', "ok"),
 "snapshot-test": ('pub fn f(input: ParseString) -> ParseResult<V> { let mut cur = input; loop { let before = cur.cursor; let (rest, _) = ws0(cur.clone())?; if rest.cursor <= before { break; } cur = rest; } Ok((cur, ())) }', "ok"),
 "named-test": ('pub fn f(input: ParseString) -> ParseResult<V> { let mut cur = input; loop { let (rest, _) = ws0(cur.clone())?; let moved = rest.cursor > cur.cursor; if !moved { break; } cur = rest; } Ok((cur, ())) }', "ok"),
 "nullable-after-consuming": ('pub fn f(input: ParseString) -> ParseResult<V> { let mut cur = input; loop { if close(cur.clone()).is_ok() { break; } let (rest, x) = item(cur.clone())?; cur = rest; let (rest, _) = ws0(cur)?; cur = rest; if let Ok((rest, _)) = sep(cur.clone()) { cur = rest; continue; } } Ok((cur, ())) }', "ok"),
 "local-parser": ('pub fn f(input: ParseString) -> ParseResult<V> { let mut cur = input; let p = alt((item, sep)); loop { if close(cur.clone()).is_ok() { break; } let (rest, x) = p(cur.clone())?; cur = rest; } Ok((cur, ())) }', "ok"),
 "while-not-empty": ('pub fn f(input: ParseString) -> ParseResult<V> { let mut cur = input; let mut out = vec![]; while !cur.is_empty() { match item(cur.clone()) { Ok((rest, x)) if x.keep() => { out.push(x); cur = rest; } Ok((rest, _)) => { cur = rest; } Err(e) => return Err(e), } } Ok((cur, out)) }', "ok"),
 "match-on-key": ('pub fn f(input: ParseString) -> ParseResult<V> { let mut cur = input; let mut out = vec![]; while close(cur.clone()).is_err() { let (next, k) = item(cur.clone())?; match k.name() { "hero" => { if let Ok((next, i)) = sep(next.clone()) { cur = ws0(next)?.0; out.push(i); continue; } } _ => {} } let (next, p) = item(next)?; cur = next; out.push(p); } Ok((cur, out)) }', "ok"),
 "if-else-break": ('pub fn f(input: ParseString) -> ParseResult<V> { let mut cur = input; let mut out = vec![]; loop { if let Ok((rest, x)) = item(cur.clone()) { out.push(x); cur = rest; } else { break; } } Ok((cur, out)) }', "ok"),
 "ok-option": ('pub fn f(input: ParseString) -> ParseResult<V> { let mut cur = input; let mut out = vec![]; loop { let next = item(cur.clone()).ok(); if let Some((rest, x)) = next { out.push(x); cur = rest; } else { break; } } Ok((cur, out)) }', "ok"),
 "block-value": ('pub fn f(input: ParseString) -> ParseResult<V> { let mut cur = input; let mut out = vec![]; loop { if cur.is_empty() { break; } let rest = { let (r, x) = item(cur.clone())?; out.push(x); r }; cur = rest.clone(); } Ok((cur, out)) }', "ok"),
 "if-value": ('pub fn f(input: ParseString) -> ParseResult<V> { let mut cur = input; loop { if cur.is_empty() { break; } let (rest, x) = item(cur.clone())?; cur = if let Ok((r, _)) = sep(rest.clone()) { r } else { rest }; } Ok((cur, ())) }', "ok"),
 "both-branches-assign": ('pub fn f(input: ParseString) -> ParseResult<V> { let mut cur = input; loop { if cur.is_empty() { break; } let (rest, x) = item(cur.clone())?; if x.keep() { let (rest, _) = ws0(rest)?; cur = rest; } else { cur = rest; } } Ok((cur, ())) }', "ok"),
 "option-of-arms": ('pub fn f(input: ParseString) -> ParseResult<V> { let mut cur = input; let mut out = vec![]; while close(cur.clone()).is_err() { let (next, k) = item(cur.clone())?; if k.is_hero() { let hero = match sep(next.clone()) { Ok((rest, i)) => Some((rest, i)), Err(_) => match close(next.clone()) { Ok((rest, g)) => Some((rest, g)), Err(_) => None } }; if let Some((rest, e)) = hero { cur = ws0(rest)?.0; out.push(e); continue; } } let (next, p) = item(next)?; cur = next; out.push(p); } Ok((cur, out)) }', "ok"),
 "loop-head-not": ('pub fn f(input: ParseString) -> ParseResult<V> { let mut cur = input; let mut out = vec![]; loop { if !close(cur.clone()).is_err() { break; } let (rest, x) = item(cur.clone())?; cur = rest; out.push(x); } Ok((cur, out)) }', "ok"),
 "closure-param-loop": ('pub fn f() -> impl Fn(ParseString) -> ParseResult<V> { move |mut input: ParseString| { let mut out = vec![]; loop { match item(input.clone()) { Ok((rest, x)) => { out.push(x); input = rest; } Err(_) => break, } } Ok((input, out)) } }', "ok"),
 "BAD-if-value-falls-back-to-head": ('pub fn f(input: ParseString) -> ParseResult<V> { let mut cur = input; loop { if close(cur.clone()).is_ok() { break; } cur = if let Ok((r, _)) = item(cur.clone()) { r } else { cur.clone() }; } Ok((cur, ())) }', "bad"),
 "BAD-guard-arm-without-assign": ('pub fn f(input: ParseString) -> ParseResult<V> { let mut cur = input; let mut out = vec![]; while !cur.is_empty() { match item(cur.clone()) { Ok((rest, x)) if x.keep() => { out.push(x); cur = rest; } Ok((rest, _)) => { out.clear(); } Err(e) => return Err(e), } } Ok((cur, out)) }', "bad"),
 # ---------------------------------------------------------------- the family of slips
 "BAD-shadow-in-arm": ('pub fn f(input: ParseString) -> ParseResult<V> { let mut cur = input; let mut out = vec![]; while close(cur.clone()).is_err() { let (next, k) = item(cur.clone())?; if k.is_hero() { if let Ok((next, i)) = sep(next.clone()) { let (next, _) = ws0(next)?; cur = next; out.push(i); continue; } else if let Ok((next, g)) = close(next.clone()) { let (cur, _) = ws0(next)?; out.push(g); continue; } } let (next, p) = item(next)?; cur = next; out.push(p); } Ok((cur, out)) }', "bad"),
 "BAD-option-of-arms-shadow": ('pub fn f(input: ParseString) -> ParseResult<V> { let mut cur = input; let mut out = vec![]; while close(cur.clone()).is_err() { let (next, k) = item(cur.clone())?; if k.is_hero() { let hero = match sep(next.clone()) { Ok((rest, i)) => Some((rest, i)), Err(_) => match close(next.clone()) { Ok((rest, g)) => Some((rest, g)), Err(_) => None } }; if let Some((rest, e)) = hero { let (cur, _) = ws0(rest)?; out.push(e); continue; } } let (next, p) = item(next)?; cur = next; out.push(p); } Ok((cur, out)) }', "bad"),
 "BAD-shadow-spine": ('pub fn f(input: ParseString) -> ParseResult<V> { let mut cur = input; let mut out = vec![]; loop { if close(cur.clone()).is_ok() { break; } let (cur, x) = item(cur.clone())?; out.push(x); } Ok((cur, out)) }', "bad"),
 "BAD-shadow-while-let": ('pub fn f(input: ParseString) -> ParseResult<V> { let mut cur = input; let mut out = vec![]; while let Ok((rest, x)) = item(cur.clone()) { out.push(x); let cur = rest; } Ok((cur, out)) }', "bad"),
 "BAD-shadow-arm-pattern": ('pub fn f(input: ParseString) -> ParseResult<V> { let mut cur = input; let mut out = vec![]; loop { match item(cur.clone()) { Ok((cur, x)) => { out.push(x); } Err(_) => break, } } Ok((cur, out)) }', "bad"),
 "BAD-continue-before-assign": ('pub fn f(input: ParseString) -> ParseResult<V> { let mut cur = input; let mut out = vec![]; loop { if close(cur.clone()).is_ok() { break; } let (rest, x) = item(cur.clone())?; if x.is_blank() { continue; } out.push(x); cur = rest; } Ok((cur, out)) }', "bad"),
 "BAD-branch-without-assign": ('pub fn f(input: ParseString) -> ParseResult<V> { let mut cur = input; let mut out = vec![]; loop { if close(cur.clone()).is_ok() { break; } let (rest, x) = item(cur.clone())?; if x.keep() { out.push(x); cur = rest; } else { out.clear(); } } Ok((cur, out)) }', "bad"),
 "BAD-err-arm-falls-through": ('pub fn f(input: ParseString) -> ParseResult<V> { let mut cur = input; let mut out = vec![]; loop { if close(cur.clone()).is_ok() { break; } match item(cur.clone()) { Ok((rest, x)) => { out.push(x); cur = rest; } Err(_) => { out.clear(); } } } Ok((cur, out)) }', "bad"),
 "BAD-let-else-continue": ('pub fn f(input: ParseString) -> ParseResult<V> { let mut cur = input; let mut out = vec![]; loop { if close(cur.clone()).is_ok() { break; } let Ok((rest, x)) = item(cur.clone()) else { continue }; out.push(x); cur = rest; } Ok((cur, out)) }', "bad"),
 "BAD-nullable-only": ('pub fn f(input: ParseString) -> ParseResult<V> { let mut cur = input; loop { if close(cur.clone()).is_ok() { break; } let (rest, _) = ws0(cur.clone())?; cur = rest; } Ok((cur, ())) }', "bad"),
 "BAD-nullable-arm": ('pub fn f(input: ParseString) -> ParseResult<V> { let mut cur = input; loop { if close(cur.clone()).is_ok() { break; } if let Ok((rest, x)) = item(cur.clone()) { cur = rest; continue; } let (rest, _) = opt(sep)(cur.clone())?; cur = rest; } Ok((cur, ())) }', "bad"),
 "BAD-assign-from-input-not-rest": ('pub fn f(input: ParseString) -> ParseResult<V> { let mut cur = input; loop { if close(cur.clone()).is_ok() { break; } let start = cur.clone(); let (rest, x) = item(cur.clone())?; cur = start; } Ok((cur, ())) }', "bad"),
 "BAD-test-weakened": ('pub fn f(input: ParseString) -> ParseResult<V> { let mut cur = input; loop { match ws0(cur.clone()) { Ok((rest, _)) => { if rest.cursor < cur.cursor { break; } cur = rest; } Err(e) => return Err(e), } } Ok((cur, ())) }', "bad"),
 "BAD-test-removed": ('pub fn f(input: ParseString) -> ParseResult<V> { let mut cur = input; loop { match ws0(cur.clone()) { Ok((rest, _)) => { cur = rest; } Err(e) => return Err(e), } } Ok((cur, ())) }', "bad"),
 "BAD-test-admits-equality": ('pub fn f(input: ParseString) -> ParseResult<V> { let mut cur = input; loop { let (rest, _) = ws0(cur.clone())?; if rest.cursor >= cur.cursor { cur = rest; } else { break; } } Ok((cur, ())) }', "bad"),
 "BAD-len-test-weakened": ('pub fn f(input: ParseString) -> ParseResult<V> { let mut cur = input; loop { let (rest, _) = ws0(cur.clone())?; if rest.len() > cur.len() { break; } cur = rest; } Ok((cur, ())) }', "bad"),
 "BAD-flag-set-on-both": ('pub fn f(input: ParseString) -> ParseResult<V> { let mut cur = input; let mut out = vec![]; loop { let mut progressed = false; if let Ok((rest, x)) = item(cur.clone()) { out.push(x); cur = rest; progressed = true; } else { progressed = true; } if !progressed { break; } } Ok((cur, out)) }', "bad"),
 # ---------------------------------------------------------------- neither proven nor refuted
 "UNK-murky": ('pub fn f(input: ParseString) -> ParseResult<V> { let mut cur = input; loop { if close(cur.clone()).is_ok() { break; } let (rest, x) = murky(cur.clone())?; cur = rest; } Ok((cur, ())) }', "unk"),
 "UNK-error-recovery": ('pub fn f(input: ParseString) -> ParseResult<V> { let mut cur = input; loop { if close(cur.clone()).is_ok() { break; } let rest = match item(cur.clone()) { Ok((rest, x)) => rest, Err(Err::Error(e)) => e.remaining_input, Err(e) => return Err(e) }; cur = rest; } Ok((cur, ())) }', "unk"),
 "UNK-nested-loop": ('pub fn f(input: ParseString) -> ParseResult<V> { let mut cur = input; loop { if close(cur.clone()).is_ok() { break; } let (rest, x) = item(cur.clone())?; cur = rest; while let Ok((r, _)) = space(cur.clone()) { cur = r; } } Ok((cur, ())) }', "unk"),
 "UNK-mem-replace": ('pub fn f(input: ParseString) -> ParseResult<V> { let mut cur = input; loop { if close(cur.clone()).is_ok() { break; } let (rest, x) = item(cur.clone())?; let _old = std::mem::replace(&mut cur, rest); } Ok((cur, ())) }', "unk"),
 # ---------------------------------------------------------------- not this rule's business
 "DRV-counter-while": ('pub fn f(input: ParseString) -> ParseResult<V> { let mut i = 0; let mut best = None; while i < 3 { if let Ok((rest, x)) = item(input.clone()) { best = Some(x); } i += 1; } Ok((input, best)) }', "driven"),
 "DRV-counter-loop": ('pub fn f(input: ParseString) -> ParseResult<V> { let mut i = 0; let mut best = None; loop { if i >= 3 { break; } if let Ok((rest, x)) = item(input.clone()) { best = Some(x); } i += 1; } Ok((input, best)) }', "driven"),
 "DRV-while-let-pop": ('pub fn f(input: ParseString) -> ParseResult<V> { let mut todo = vec![1, 2]; let mut best = None; while let Some(k) = todo.pop() { if let Ok((rest, x)) = item(input.clone()) { best = Some(x); } } Ok((input, best)) }', "driven"),
 "BAD-counter-not-an-exit": ('pub fn f(input: ParseString) -> ParseResult<V> { let mut cur = input; let mut n = 0; loop { if close(cur.clone()).is_ok() { break; } let (cur, x) = item(cur.clone())?; n += 1; } Ok((cur, n)) }', "bad"),
 "NA-counter-peek": ('pub fn f(input: ParseString) -> ParseResult<V> { let mut n = 0; let mut c = input.peek(n); while c == Some(" ") { n += 1; c = input.peek(n); } Ok((input, n)) }', "n/a"),
}


def items_of(src):
    p = os.path.join(TMP, "t.rs"); o = os.path.join(TMP, "t.jsonl")
    open(p, "w").write(src)
    r = subprocess.run([MS, "--raw", o, p], capture_output=True, text=True)
    assert r.returncode == 0, r.stderr
    items = [json.loads(l) for l in open(o)]
    for it in items:
        it.setdefault("mod", "mechdown")
    return items


class Rep:
    def __init__(s): s.badk, s.okk, s.notes = [], [], []
    def ok(s, r, k, sample=None): s.okk.append(k)
    def bad(s, r, k, msg, where="", detail=None): s.badk.append((k, msg))
    def note(s, c, item): s.notes.append(item)
    def floor(s, *a): pass


def main():
    flt = [a for a in sys.argv[1:] if not a.startswith("-")]
    flt = flt[0] if flt else ""
    fail = 0
    for name, (src, want) in CASES.items():
        if flt and flt not in name:
            continue
        items = items_of(PRELUDE + src)
        N = Nullability(items)
        dn = N.definitely_nullable_set()
        it = [i for i in items if i["k"] == "fn" and i["name"] == "f"][0]
        loops = [n for k in ("loop", "while") for n in find(it["body"], k)]
        rep = Rep()
        lp = LoopProgress(rep, N, dn)
        res = lp.check(it, loops[0], None)
        if rep.badk:
            got = "bad"
        elif any(k.endswith(":undecided") for k in rep.okk):
            got = "unk"
        elif rep.okk:
            got = "ok"
        elif rep.notes:
            got = "driven" if "driven by" in rep.notes[0]["why"] else "unmodelled"
        else:
            got = "n/a"
        ok = got == want
        fail += not ok
        print("%-32s %s got=%s want=%s" % (name, "ok  " if ok else "FAIL", got, want))
        if not ok or "-v" in sys.argv:
            for k, m in rep.badk:
                print("      " + k)
                print("      " + m)
            for b, o in (res.get("vars") or {}).items():
                for p in o["paths"]:
                    print("      %s %s %s  %s" % (b.name, p["verdict"], p["why"], describe_path(p)))
    print("%d cases, %d failed" % (len([c for c in CASES if flt in c]), fail))
    sys.exit(1 if fail else 0)


if __name__ == "__main__":
    main()
