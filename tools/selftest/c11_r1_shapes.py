import sys, re
import os
sys.path.insert(0, os.path.dirname(os.path.dirname(os.path.dirname(os.path.abspath(__file__)))))
from lib.facts import Facts, CallGraph
from rules import c11_guard as G
from lib.mirflow import private_callees, callee
F = Facts(os.path.join(os.environ.get("MECH_CACHE", "/verif/cache"), "facts", sys.argv[1]))
cg = CallGraph(F, ["mech_interpreter.lib"])
for f in sorted(cg.bodies):
    m = re.search(r"structures::(tv_[bm]\d+)$", f)
    if not m:
        continue
    res = G.check_anchor(cg, f, 0, "MatrixHorzCat")
    where = res["gathered_in"]
    verdict = dict(loop=res["in_loop"], fwd=res["forward"], good=res.get("good"), bad_dims=res["bad_dims"], err=res["err_ok"], guarded=res["guarded"], tests=[t["dims"] for t in res["tests"]], concat=res["concat_after"])
    allok = res["in_loop"] and res["forward"] and res.get("good") and not res["bad_dims"] and res["err_ok"] is True and res["guarded"] == res["in_loop"] and res["concat_after"]
    print("%-8s %-5s %s %s" % (m.group(1), "PASS" if allok else "ALARM", verdict, "" if where == f else "(in %s)" % where.split("::")[-1]))
