#!/usr/bin/env python3
"""Shape-robustness self-test of C03-R8 (index conversion is position-preserving; rules/c03_ixconv.py + lib/seqeval.py) on a small model of the read path
(Subscript / Value / Matrix enums, subscript(), the conversion helpers) parsed with `mechsyn --raw` - no pipeline run, a few seconds.
Behaviour-preserving rewrites of the conversion code must stay silent WITH THE SAME NUMBER OF OBLIGATIONS, the defective twins must be reported.
usage: python3 tools/ut_c03_ixconv.py        (exit 0 = all cases as expected)"""
import json, os, subprocess, sys, tempfile
VERIF = os.path.dirname(os.path.dirname(os.path.abspath(__file__)))
sys.path.insert(0, VERIF)
from rules import c03_ixconv
MS = os.path.join(VERIF, "tools/mechsyn/target/release/mechsyn")
TMP = tempfile.mkdtemp(prefix="ut_c03_")

BASE = r'''
pub enum Subscript { All, Bracket(Vec<Subscript>), Brace(Vec<Subscript>), Formula(Factor), Range(RangeExpression) }
pub enum Matrix<T> { DVector(Ref<DVector<T>>), RowDVector(Ref<RowDVector<T>>), DMatrix(Ref<DMatrix<T>>) }
pub enum Value { F64(Ref<f64>), U8(Ref<u8>), Index(Ref<usize>), Bool(Ref<bool>), MatrixIndex(Matrix<usize>), MatrixBool(Matrix<bool>), MatrixF64(Matrix<f64>), MatrixU8(Matrix<u8>),
                 MutableReference(MutableReference), IndexAll, Empty }
impl<T> Matrix<T> {
  pub fn shape(&self) -> Vec<usize> {
    let shape = match self {
      Matrix::RowDVector(x) => x.borrow().shape(),
      Matrix::DVector(x) => x.borrow().shape(),
      Matrix::DMatrix(x) => x.borrow().shape(),
    };
    [shape.0, shape.1].to_vec()
  }
  pub fn as_vec(&self) -> Vec<T> {
    match self {
      Matrix::RowDVector(x) => x.borrow().as_slice().to_vec(),
      Matrix::DVector(x) => x.borrow().as_slice().to_vec(),
      Matrix::DMatrix(x) => x.borrow().as_slice().to_vec(),
    }
  }
}
impl ToMatrix for usize {
  fn to_matrix(elements: Vec<Self>, rows: usize, cols: usize) -> Matrix<Self> {
    match (rows, cols) {
      (1,1) => Matrix::DMatrix(Ref::new(DMatrix::from_vec(1,1,elements))),
      (1,n) => Matrix::RowDVector(Ref::new(RowDVector::from_vec(elements))),
      (m,1) => Matrix::DVector(Ref::new(DVector::from_vec(elements))),
      (m,n) => Matrix::DMatrix(Ref::new(DMatrix::from_vec(m,n,elements))),
    }
  }
}
impl ToValue for Vec<usize> {
  fn to_value(&self) -> Value {
    match self.len() {
      1 => Value::Index(Ref::new(self[0].clone())),
      n => Value::MatrixIndex(Matrix::DVector(Ref::new(DVector::from_vec(self.clone())))),
    }
  }
}
impl Value {
  pub fn shape(&self) -> Vec<usize> {
    match self {
      Value::F64(x) => [1,1].to_vec(),
      Value::U8(x) => [1,1].to_vec(),
      Value::Index(x) => [1,1].to_vec(),
      Value::Bool(x) => [1,1].to_vec(),
      Value::MatrixIndex(x) => x.shape(),
      Value::MatrixBool(x) => x.shape(),
      Value::MatrixF64(x) => x.shape(),
      Value::MatrixU8(x) => x.shape(),
      Value::MutableReference(x) => x.borrow().shape(),
      _ => [0,0].to_vec(),
    }
  }
  pub fn as_usize(&self) -> MResult<usize> {
    match self {
      Value::Index(v) => Ok(*v.borrow()),
      Value::U8(v) => Ok(*v.borrow() as usize),
      Value::F64(v) => Ok((*v.borrow()) as usize),
      Value::MutableReference(v) => v.borrow().as_usize(),
      _ => Err(MechError::new(CannotConvertToTypeError { target_type: "usize" }, None).with_compiler_loc()),
    }
  }
  pub fn as_vecbool(&self) -> MResult<Vec<bool>> { if let Value::MatrixBool(v) = self { Ok(v.as_vec()) } else if let Value::Bool(v) = self { Ok([v.borrow().clone()].to_vec()) } else if let Value::MutableReference(val) = self { val.borrow().as_vecbool() } else { Err(MechError::new(CannotConvertToTypeError { target_type: "bool" }, None).with_compiler_loc()) } }
  pub fn as_bool(&self) -> MResult<Ref<bool>> {
    if let Value::Bool(v) = self { Ok(v.clone()) } else if let Value::MutableReference(val) = self { val.borrow().as_bool() } else { Err(MechError::new(UnhandledFunctionArgumentKindError, None).with_compiler_loc()) }
  }
  pub fn as_vecusize(&self) -> MResult<Vec<usize>> {
    match self {
      Value::U8(v) => Ok([*v.borrow() as usize].to_vec()),
      Value::F64(v) => Ok([(*v.borrow()) as usize].to_vec()),
      Value::MatrixIndex(v) => Ok(v.as_vec()),
      Value::MatrixF64(v) => Ok(v.as_vec().iter().map(|x| (*x) as usize).collect::<Vec<usize>>()),
      Value::MatrixU8(v) => Ok(v.as_vec().iter().map(|x| *x as usize).collect::<Vec<usize>>()),
      Value::MatrixBool(_) => Err(MechError::new(CannotConvertToTypeError { target_type: "[usize]" }, None).with_compiler_loc()),
      Value::Bool(_) => Err(MechError::new(CannotConvertToTypeError { target_type: "[usize]" }, None).with_compiler_loc()),
      Value::MutableReference(x) => x.borrow().as_vecusize(),
      _ => Err(MechError::new(CannotConvertToTypeError { target_type: "[usize]" }, None).with_compiler_loc()),
    }
  }
  pub fn as_index(&self) -> MResult<Value> {
    match self.as_usize() {
      Ok(ix) => Ok(Value::Index(Ref::new(ix))),
      Err(_) => match self.as_vecusize() {
        Ok(x) => {
          let shape = self.shape();
          let out = Value::MatrixIndex(usize::to_matrix(x, shape[0] * shape[1],1 ));
          Ok(out)
        },
        Err(_) => match self.as_vecbool() {
          Ok(x) => {
            let shape = self.shape();
            let out = match (shape[0], shape[1]) {
              (1,1) => Value::Bool(Ref::new(x[0])),
              (1,n) => Value::MatrixBool(Matrix::DVector(Ref::new(DVector::from_vec(x)))),
              (m,1) => Value::MatrixBool(Matrix::DVector(Ref::new(DVector::from_vec(x)))),
              (m,n) => Value::MatrixBool(Matrix::DVector(Ref::new(DVector::from_vec(x)))),
              _ => ::core::panicking::panic("todo"),
            };
            Ok(out)
          }
          Err(_) => match self.as_bool() {
            Ok(x) => Ok(Value::Bool(x)),
            Err(_) => Err(MechError::new(CannotConvertToTypeError { target_type: "ix" }, None).with_compiler_loc()),
          }
        }
        x => Err(MechError::new(CannotConvertToTypeError { target_type: "ix" }, None).with_compiler_loc()),
      }
      _ => ::core::panicking::panic("todo"),
    }
  }
}
pub fn factor(fctr: &Factor, env: Option<&Environment>, p: &Interpreter) -> MResult<Value> { ::core::panicking::panic("todo") }
pub fn range(rng: &RangeExpression, env: Option<&Environment>, p: &Interpreter) -> MResult<Value> { ::core::panicking::panic("todo") }
pub fn subscript_formula_ix(sbscrpt: &Subscript, env: Option<&Environment>, p: &Interpreter) -> MResult<Value> {
  match sbscrpt {
    Subscript::Formula(fctr) => {
      let result = factor(fctr, env, p)?;
      result.as_index()
    }
    _ => ::core::panicking::panic("unreachable"),
  }
}
pub fn subscript_range(sbscrpt: &Subscript, env: Option<&Environment>, p: &Interpreter) -> MResult<Value> {
  match sbscrpt {
    Subscript::Range(rng) => {
      let result = range(rng, env, p)?;
      match result.as_vecusize() {
        Ok(v) => Ok(v.to_value()),
        Err(_) => Err(MechError::new(InvalidIndexKindError { kind: result.kind() }, None).with_compiler_loc().with_tokens(rng.tokens())),
      }
    }
    _ => ::core::panicking::panic("unreachable"),
  }
}
pub fn subscript(sbscrpt: &Subscript, val: &Value, env: Option<&Environment>, p: &Interpreter) -> MResult<Value> {
  let plan = p.plan();
  match sbscrpt {
    Subscript::Bracket(subs) => {
      let mut fxn_input = Vec::new();
      fxn_input.push(val.clone());
      match &subs[..] {
        [Subscript::Formula(ix)] => {
          let result = subscript_formula_ix(&subs[0], env, p)?;
          let shape = result.shape();
          fxn_input.push(result);
          match shape[..] {
            [1, 1] => plan.borrow_mut().push(AccessScalar {}.compile(&fxn_input)?),
            [1, n] => plan.borrow_mut().push(AccessRange {}.compile(&fxn_input)?),
            [n, 1] => plan.borrow_mut().push(AccessRange {}.compile(&fxn_input)?),
            _ => ::core::panicking::panic("todo"),
          }
        }
        [Subscript::Range(ix)] => {
          let result = subscript_range(&subs[0], env, p)?;
          fxn_input.push(result);
          plan.borrow_mut().push(AccessRange {}.compile(&fxn_input)?);
        }
        [Subscript::All] => {
          fxn_input.push(Value::IndexAll);
          plan.borrow_mut().push(MatrixAccessAll {}.compile(&fxn_input)?);
        }
        [Subscript::Formula(ix1), Subscript::Formula(ix2)] => {
          let result = subscript_formula_ix(&subs[0], env, p)?;
          let shape1 = result.shape();
          fxn_input.push(result);
          let result = subscript_formula_ix(&subs[1], env, p)?;
          let shape2 = result.shape();
          fxn_input.push(result);
          match ((shape1[0], shape1[1]), (shape2[0], shape2[1])) {
            ((1, 1), (1, 1)) => plan.borrow_mut().push(MatrixAccessScalarScalar {}.compile(&fxn_input)?),
            ((1, 1), (m, 1)) => plan.borrow_mut().push(MatrixAccessScalarRange {}.compile(&fxn_input)?),
            ((n, 1), (1, 1)) => plan.borrow_mut().push(MatrixAccessRangeScalar {}.compile(&fxn_input)?),
            ((n, 1), (m, 1)) => plan.borrow_mut().push(MatrixAccessRangeRange {}.compile(&fxn_input)?),
            _ => ::core::panicking::panic("unreachable"),
          }
        }
        [Subscript::All, Subscript::Range(ix2)] => {
          fxn_input.push(Value::IndexAll);
          let result = subscript_range(&subs[1], env, p)?;
          fxn_input.push(result);
          plan.borrow_mut().push(MatrixAccessAllRange {}.compile(&fxn_input)?);
        }
        _ => ::core::panicking::panic("todo"),
      }
      let plan_brrw = plan.borrow();
      let mut new_fxn = &plan_brrw.last().unwrap();
      new_fxn.solve();
      let res = new_fxn.out();
      return Ok(res);
    }
    _ => ::core::panicking::panic("todo"),
  }
}
'''

ADTS = [{"k": "adt", "name": "mech_core::value::Value", "enum": True, "variants": [{"name": "MutableReference", "fields": [["0", "mech_core::types::Ref<mech_core::value::Value>", True]]}]}]

MASK_ARM = "              (m,n) => Value::MatrixBool(Matrix::DVector(Ref::new(DVector::from_vec(x)))),\n"
THREE_ARMS = ("              (1,n) => Value::MatrixBool(Matrix::DVector(Ref::new(DVector::from_vec(x)))),\n"
              "              (m,1) => Value::MatrixBool(Matrix::DVector(Ref::new(DVector::from_vec(x)))),\n" + MASK_ARM)
NUM_ARM = "          let out = Value::MatrixIndex(usize::to_matrix(x, shape[0] * shape[1],1 ));\n"
F64_ARM = "      Value::MatrixF64(v) => Ok(v.as_vec().iter().map(|x| (*x) as usize).collect::<Vec<usize>>()),\n"
DM_ARM = "      Matrix::DMatrix(x) => x.borrow().as_slice().to_vec(),\n    }\n  }\n}\nimpl ToMatrix"
FF_ARM_1 = "          let result = subscript_formula_ix(&subs[1], env, p)?;\n"
FORMULA_IX = "      let result = factor(fctr, env, p)?;\n      result.as_index()\n"
RANGE_OK = "        Ok(v) => Ok(v.to_value()),\n"
BOOL_MATCH_OPEN = "            let out = match (shape[0], shape[1]) {\n              (1,1) => Value::Bool(Ref::new(x[0])),\n" + THREE_ARMS + "              _ => ::core::panicking::panic(\"todo\"),\n            };\n"

SEED = ("              (m,n) => {\n                let mut mask = Vec::with_capacity(m * n);\n                for c in 0..n {\n                  for r in 0..m {\n"
        "                    mask.push(x[r * n + c]);\n                  }\n                }\n                Value::MatrixBool(Matrix::DVector(Ref::new(DVector::from_vec(mask))))\n              },\n")

CASES = {
    # name: (edits, expected: None = silent with the base obligation count | substring of a violation key)
    "base": ([], None),
    "merged-arms": ([(THREE_ARMS, "              (_,_) => Value::MatrixBool(Matrix::DVector(Ref::new(DVector::from_vec(x)))),\n")], None),
    "if-instead-of-match": ([(BOOL_MATCH_OPEN, "            let out = if shape[0] == 1 && shape[1] == 1 { Value::Bool(Ref::new(x[0])) } else { Value::MatrixBool(Matrix::DVector(Ref::new(DVector::from_vec(x)))) };\n")], None),
    "helper-extracted": ([(MASK_ARM, "              (m,n) => column_mask(x),\n"),
                          ("pub fn factor(", "fn column_mask(flat: Vec<bool>) -> Value {\n  let storage = DVector::from_vec(flat);\n  Value::MatrixBool(Matrix::DVector(Ref::new(storage)))\n}\npub fn factor(")], None),
    "identity-loop": ([(MASK_ARM, SEED.replace("x[r * n + c]", "x[c * m + r]"))], None),
    "identity-chunks": ([(MASK_ARM, "              (m,n) => Value::MatrixBool(Matrix::DVector(Ref::new(DVector::from_vec(x.chunks(m).flat_map(|col| col.iter().cloned()).collect::<Vec<bool>>())))),\n")], None),
    "while-loop-arm": ([(F64_ARM, "      Value::MatrixF64(v) => {\n        let data = v.as_vec();\n        let mut out = Vec::with_capacity(data.len());\n        let mut k = 0;\n        while k < data.len() {\n          out.push(data[k] as usize);\n          k += 1;\n        }\n        Ok(out)\n      },\n")], None),
    "conversion-inlined-into-dispatcher": ([("          let result = subscript_formula_ix(&subs[0], env, p)?;\n          let shape = result.shape();\n",
                                              "          let result = match &subs[0] { Subscript::Formula(f) => factor(f, env, p)?.as_index()?, _ => ::core::panicking::panic(\"unreachable\") };\n          let shape = result.shape();\n")], None),
    "early-return-guard": ([(FORMULA_IX, "      let result = factor(fctr, env, p)?;\n      if let Ok(ix) = result.as_usize() { return Ok(Value::Index(Ref::new(ix))); }\n      result.as_index()\n")], None),
    "from-column-slice": ([(MASK_ARM, "              (m,n) => Value::MatrixBool(Matrix::DVector(Ref::new(DVector::from_column_slice(&x)))),\n")], None),
    "closure-helper": ([(BOOL_MATCH_OPEN, "            let column = |flat: Vec<bool>| Value::MatrixBool(Matrix::DVector(Ref::new(DVector::from_vec(flat))));\n            let (rows, cols) = (shape[0], shape[1]);\n            let out = if rows * cols == 1 { Value::Bool(Ref::new(x[0])) } else { column(x) };\n")], None),
    "result-combinators": ([(FORMULA_IX, "      let result = factor(fctr, env, p)?;\n      result.as_usize().map(|ix| Value::Index(Ref::new(ix))).or_else(|_| result.as_index())\n")], None),
    "enumerate-loop-arm": ([(F64_ARM, "      Value::MatrixF64(v) => {\n        let data = v.as_vec();\n        let mut out = [0usize].repeat(data.len());\n        for (i, d) in data.iter().enumerate() { out[i] = *d as usize; }\n        Ok(out)\n      },\n")], None),
    "iter-mut-zip-arm": ([(F64_ARM, "      Value::MatrixF64(v) => {\n        let data = v.as_vec();\n        let mut out = [0usize].repeat(data.len());\n        for (o, d) in out.iter_mut().zip(data.iter()) { *o = *d as usize; }\n        Ok(out)\n      },\n")], None),
    "for-mut-ref-arm": ([(F64_ARM, "      Value::MatrixF64(v) => {\n        let data = v.as_vec();\n        let mut out: Vec<usize> = Vec::new();\n        for d in &data { out.push(*d as usize); }\n        for o in &mut out { *o = *o; }\n        Ok(out)\n      },\n")], None),
    "rev-rev": ([(MASK_ARM, "              (m,n) => Value::MatrixBool(Matrix::DVector(Ref::new(DVector::from_vec(x.into_iter().rev().rev().collect())))),\n")], None),
    # ---- defects
    "seed-row-major-mask": ([(MASK_ARM, SEED)], "via:Value::as_index:MatrixBool:DMatrix"),
    "numeric-arm-row-major": ([(NUM_ARM, "          let (m, n) = (shape[0], shape[1]);\n          let mut flat = Vec::with_capacity(m * n);\n          for r in 0..m { for c in 0..n { flat.push(x[c * m + r]); } }\n          let out = Value::MatrixIndex(usize::to_matrix(flat, m * n, 1));\n")], "via:Value::as_index:MatrixIndex:DMatrix"),
    "row-mask-reversed": ([("              (1,n) => Value::MatrixBool(Matrix::DVector(Ref::new(DVector::from_vec(x)))),\n", "              (1,n) => Value::MatrixBool(Matrix::DVector(Ref::new(DVector::from_vec(x.into_iter().rev().collect())))),\n")], "via:Value::as_index:MatrixBool:RowDVector"),
    "as-vec-transposed": ([(DM_ARM, "      Matrix::DMatrix(x) => x.borrow().transpose().as_slice().to_vec(),\n    }\n  }\n}\nimpl ToMatrix")], "via:Matrix::as_vec"),
    "as-vecusize-skips-first": ([(F64_ARM, "      Value::MatrixF64(v) => Ok(v.as_vec().iter().skip(1).map(|x| (*x) as usize).collect::<Vec<usize>>()),\n")], "via:Value::as_vecusize:MatrixF64"),
    "as-vecusize-plus-one": ([(F64_ARM, "      Value::MatrixF64(v) => Ok(v.as_vec().iter().map(|x| (*x) as usize + 1).collect::<Vec<usize>>()),\n")], "via:Value::as_vecusize:MatrixF64"),
    "range-drops-last": ([(RANGE_OK, "        Ok(v) => Ok(v[..v.len() - 1].to_vec().to_value()),\n")], "subscript_range"),
    "range-to-value-reversed": ([("      n => Value::MatrixIndex(Matrix::DVector(Ref::new(DVector::from_vec(self.clone())))),\n", "      n => Value::MatrixIndex(Matrix::DVector(Ref::new(DVector::from_iterator(n, self.iter().rev().cloned())))),\n")], "to_value"),
    "second-subscript-evaluated-from-first": ([(FF_ARM_1, "          let result = subscript_formula_ix(&subs[0], env, p)?;\n")], "[Formula,Formula]:2"),
    "from-row-slice": ([(NUM_ARM, "          let out = Value::MatrixIndex(Matrix::DMatrix(Ref::new(DMatrix::from_row_slice(shape[0] * shape[1], 1, &x))));\n")], None),   # a column: row-major == column-major
    "mask-through-row-slice-of-matrix": ([(MASK_ARM, "              (m,n) => Value::MatrixBool(Matrix::DVector(Ref::new(DVector::from_vec(DMatrix::from_row_slice(m, n, &x).as_slice().to_vec())))),\n")], "via:Value::as_index:MatrixBool:DMatrix"),
}


class FakeFacts:
    def __init__(self, items):
        self.items = items

    def syn(self, crate):
        return self.items if crate == c03_ixconv.CRATES[0] else []

    def adts(self, crate):
        return ADTS


class Rep:
    def __init__(s):
        s.v, s.n, s.notes, s.analysed = [], 0, [], {}

    def rule(s, *a): pass

    def ok(s, rule, key, sample=None): s.n += 1

    def bad(s, rule, key, msg, where="", detail=None):
        s.n += 1
        s.v.append((key, msg))

    def note(s, cls, item): s.notes.append((cls, item))

    def floor(s, rule, what, count, minimum): pass


def items_of(src):
    p = os.path.join(TMP, "t.rs"); o = os.path.join(TMP, "t.jsonl")
    open(p, "w").write(src)
    r = subprocess.run([MS, "--raw", o, p], capture_output=True, text=True)
    assert r.returncode == 0, r.stderr
    items = [json.loads(l) for l in open(o)]
    for it in items:
        it.setdefault("mod", "expressions")
    return items


def main():
    fail, base_n = 0, None
    for name, (edits, want) in CASES.items():
        src = BASE
        for a, b in edits:
            assert src.count(a) == 1, (name, a, src.count(a))
            src = src.replace(a, b)
        rep = Rep()
        c03_ixconv.run_r8(FakeFacts(items_of(src)), rep, "C03-R8", r"^subscript$", floor_forms=0, floor_rows=0, rule9=None)
        if name == "base":
            base_n = rep.n
        keys = sorted({k for k, _m in rep.v})
        und = [n for n in rep.notes if n[0] == "undecided"]
        if want is None:
            ok = not keys and not und and rep.n == base_n
        else:
            ok = any(want in k for k in keys)
        fail += not ok
        print("%-40s %s obligations=%d undecided=%d %s" % (name, "ok  " if ok else "FAIL", rep.n, len(und), (keys[:2] if keys else "") or (und[:1] if und else "")))
    print("base obligations:", base_n)
    sys.exit(1 if fail else 0)


if __name__ == "__main__":
    main()
