#!/bin/bash
# usage: seedcheck.sh <patch.diff> <prop>...  — apply a seeded change to /repo, run the given checks, undo it.
P=$1; shift
cd /repo || exit 2
[ -n "$(git status --porcelain --untracked-files=no)" ] && { echo "/repo not clean"; exit 2; }
git apply "$P" || { echo "patch does not apply"; exit 2; }
for prop in "$@"; do
  out=$(cd /verif && python3 verif.py $prop 2>&1)
  echo "$out" | grep -E "violation:" | cut -c1-300 | head -8
  echo "$out" | grep -E "^VIOLATION|INFRA|obligations" | cut -c1-300
done
git checkout -- .
