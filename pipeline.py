#!/usr/bin/env python3
"""Fact pipeline: /repo working tree -> cache/facts/<hash>/ (MIR facts, expanded sources, syn facts).

Every check calls ensure_facts(); the pipeline runs once per tree state (content hash of every
source/manifest file under /repo) and is reused by the other checks on the same state.
"""
import fcntl
import hashlib
import json
import os
import re
import shutil
import subprocess
import sys
import time

VERIF = os.path.dirname(os.path.abspath(__file__))
REPO = os.environ.get("MECH_REPO", "/repo")
CACHE = os.environ.get("MECH_CACHE") or os.path.join(VERIF, "cache")   # a working clone may use its own cache (parallel pipeline runs)
SCRATCH = os.environ.get("MECH_SCRATCH", "/tmp/mechverif-scratch-" + hashlib.sha256(VERIF.encode()).hexdigest()[:8])
DRIVER = os.path.join(VERIF, "tools/mechfacts/target/debug/mechfacts")
MECHSYN = os.path.join(VERIF, "tools/mechsyn/target/release/mechsyn")
HASH_EXT = (".rs", ".toml", ".lock")

# crates (name.ctype) that must be analysed; a run that does not produce them fails closed
EXPECTED = [
    "mech_core.lib", "mech_syntax.lib", "mech_interpreter.lib", "mech.lib", "mech.bin",
    "mech_math.lib", "mech_compare.lib", "mech_logic.lib", "mech_set.lib", "mech_range.lib",
    "mech_matrix.lib", "mech_stats.lib", "mech_string.lib", "mech_combinatorics.lib", "mech_io.lib",
]


class InfraError(Exception):
    pass


def tree_files(root):
    out = []
    for dp, dn, fn in os.walk(root):
        dn[:] = sorted(d for d in dn if d not in ("target", ".git", "node_modules"))
        for f in sorted(fn):
            if f.endswith(HASH_EXT) or (os.path.basename(dp) == ".cargo" and f.startswith("config")):
                out.append(os.path.join(dp, f))
    return out


def tree_hash(root=REPO):
    h = hashlib.sha256()
    for p in tree_files(root):
        h.update(os.path.relpath(p, root).encode())
        h.update(b"\0")
        with open(p, "rb") as f:
            h.update(hashlib.sha256(f.read()).digest())
    # the tools are part of the state: a rebuilt tool invalidates facts
    for t in (DRIVER, MECHSYN):
        if os.path.exists(t):
            with open(t, "rb") as f:
                h.update(hashlib.sha256(f.read()).digest())
    return h.hexdigest()[:20]


def tools_hash():
    h = hashlib.sha256()
    for t in (DRIVER, MECHSYN):
        with open(t, "rb") as f:
            h.update(hashlib.sha256(f.read()).digest())
    return h.hexdigest()[:16]


def sysroot():
    return subprocess.check_output(["rustc", "+nightly", "--print", "sysroot"], text=True).strip()


def log(msg):
    sys.stderr.write("[pipeline] %s\n" % msg)
    sys.stderr.flush()


def _stale(binary, tooldir):
    if not os.path.exists(binary):
        return True
    bt = os.path.getmtime(binary)
    srcs = [os.path.join(tooldir, "Cargo.toml")] + [os.path.join(dp, f) for dp, _, fs in os.walk(os.path.join(tooldir, "src")) for f in fs]
    return any(os.path.exists(x) and os.path.getmtime(x) > bt for x in srcs)


def build_tools():
    env = dict(os.environ, CARGO_NET_OFFLINE="true")
    if _stale(DRIVER, os.path.join(VERIF, "tools/mechfacts")):
        log("building mechfacts")
        r = subprocess.run(["cargo", "build", "--offline"], cwd=os.path.join(VERIF, "tools/mechfacts"), env=env,
                           stdout=subprocess.PIPE, stderr=subprocess.STDOUT, text=True)
        if r.returncode != 0:
            raise InfraError("mechfacts build failed:\n" + r.stdout[-3000:])
    if _stale(MECHSYN, os.path.join(VERIF, "tools/mechsyn")):
        log("building mechsyn")
        r = subprocess.run(["cargo", "build", "--release", "--offline"], cwd=os.path.join(VERIF, "tools/mechsyn"), env=env,
                           stdout=subprocess.PIPE, stderr=subprocess.STDOUT, text=True)
        if r.returncode != 0:
            raise InfraError("mechsyn build failed:\n" + r.stdout[-3000:])


SEMI_RE = re.compile(r"error: macro expansion ignores `;` and any tokens following\s*\n\s*--> ([^\s:]+):(\d+):(\d+)")


def normalise(scratch_repo, stderr_text):
    """Delete the `;` tokens that nightly rejects and stable ignores (DESIGN.md §9).
    Returns number of tokens removed. Fails closed if the byte at the location is not `;`."""
    n = 0
    seen = set()
    for m in SEMI_RE.finditer(stderr_text):
        rel, line, col = m.group(1), int(m.group(2)), int(m.group(3))
        key = (rel, line, col)
        if key in seen:
            continue
        seen.add(key)
        p = os.path.join(scratch_repo, rel)
        with open(p, "rb") as f:
            lines = f.read().split(b"\n")
        ln = lines[line - 1]
        if ln[col - 1:col] != b";":
            raise InfraError("normalise: expected `;` at %s:%d:%d, found %r" % (rel, line, col, ln[col - 1:col]))
        lines[line - 1] = ln[:col - 1] + b" " + ln[col:]
        with open(p, "wb") as f:
            f.write(b"\n".join(lines))
        n += 1
    return n, sorted({k[0] for k in seen})


def run_cargo(scratch_repo, outdir, extra_args=()):
    sr = sysroot()
    env = dict(os.environ)
    env.update({
        "LD_LIBRARY_PATH": sr + "/lib",
        "RUSTFLAGS": "-Zmir-opt-level=0 -Awarnings",
        "RUSTC_WRAPPER": DRIVER,
        "MECHFACTS_OUT": outdir,
        "CARGO_TARGET_DIR": os.path.join(CACHE, "target-nightly"),
        "CARGO_NET_OFFLINE": "true",
    })
    cmd = ["cargo", "+nightly", "check", "--workspace", "--offline"] + list(extra_args)
    r = subprocess.run(cmd, cwd=scratch_repo, env=env, stdout=subprocess.PIPE, stderr=subprocess.PIPE, text=True)
    return r


def clear_fingerprints():
    fp = os.path.join(CACHE, "target-nightly/debug/.fingerprint")
    if os.path.isdir(fp):
        for d in os.listdir(fp):
            if d.startswith("mech"):
                shutil.rmtree(os.path.join(fp, d), ignore_errors=True)


def ensure_facts(force=False, clean=False):
    """Returns the fact directory for /repo's current working tree, building it if needed."""
    os.makedirs(CACHE, exist_ok=True)
    build_tools()
    lockf = open(os.path.join(CACHE, "pipeline.lock"), "w")
    fcntl.flock(lockf, fcntl.LOCK_EX)
    try:
        h = tree_hash()
        out = os.path.join(CACHE, "facts", h)
        done = os.path.join(out, "DONE")
        if os.path.exists(done) and not force and (not clean or os.path.exists(os.path.join(out, "CLEAN"))):
            return out
        t0 = time.time()
        log("tree state %s: running pipeline" % h)
        cur = os.path.join(CACHE, "facts", "current")
        os.makedirs(cur, exist_ok=True)
        shutil.rmtree(out, ignore_errors=True)
        scratch_repo = os.path.join(SCRATCH, "repo")
        os.makedirs(SCRATCH, exist_ok=True)
        # incremental: the scratch copy and cargo's target dir persist; only files whose CONTENT changed are
        # re-copied and touched, so cargo re-invokes the driver for exactly the crates that need it and the
        # fact files of untouched crates (written when they were last compiled from identical sources) stay valid.
        marker = os.path.join(cur, "STATE")
        state = {}
        if os.path.exists(marker):
            try:
                state = json.load(open(marker))
            except Exception:
                state = {}
        from_scratch = clean or state.get("scratch") != scratch_repo or not os.path.isdir(scratch_repo) or state.get("tools") != tools_hash()
        if from_scratch:
            # no trustworthy incremental state: start from scratch
            shutil.rmtree(scratch_repo, ignore_errors=True)
            shutil.rmtree(cur, ignore_errors=True)
            os.makedirs(cur)
            clear_fingerprints()
        # files normalised in the scratch copy (§9) are left alone while their /repo original is unchanged
        keep = []
        normd = dict(state.get("normalised", {}))
        for rel, sha in list(normd.items()):
            try:
                with open(os.path.join(REPO, rel), "rb") as f:
                    same = hashlib.sha256(f.read()).hexdigest() == sha
            except OSError:
                same = False
            if same and os.path.exists(os.path.join(scratch_repo, rel)):
                keep += ["--exclude", "/" + rel]
            else:
                del normd[rel]
        r = subprocess.run(["rsync", "-a", "--checksum", "--delete", "--itemize-changes", "--exclude", "target", "--exclude", ".git"] + keep +
                           [REPO + "/", scratch_repo + "/"], stdout=subprocess.PIPE, text=True, check=True)
        now = time.time()
        for ln in r.stdout.splitlines():
            if ln.startswith(">f"):
                fp = os.path.join(scratch_repo, ln.split(" ", 1)[1])
                if os.path.exists(fp):
                    os.utime(fp, (now, now))
        if os.path.exists(marker):
            os.remove(marker)
        removed = 0
        for attempt in range(6):
            r = run_cargo(scratch_repo, cur)
            if r.returncode == 0:
                break
            k, files = normalise(scratch_repo, r.stderr)
            for rel in files:
                with open(os.path.join(REPO, rel), "rb") as f:
                    normd[rel] = hashlib.sha256(f.read()).hexdigest()
            if k == 0:
                errs = [l for l in r.stderr.splitlines() if l.startswith("error")][:20]
                raise InfraError("the tree does not compile under the analysis toolchain:\n" + "\n".join(errs) + "\n" + r.stderr[-2000:])
            removed += k
            log("normalised %d `;` tokens in the scratch copy, retrying" % k)
        else:
            raise InfraError("normalisation did not converge")
        for f in os.listdir(cur):
            if ".tmp" in f:
                os.remove(os.path.join(cur, f))
        missing = [e for e in EXPECTED if not os.path.exists(os.path.join(cur, e + ".mir.jsonl"))]
        if missing:
            raise InfraError("fact files missing for: %s" % missing)
        missing = [e for e in EXPECTED if not os.path.exists(os.path.join(cur, e + ".expanded.rs"))]
        if missing:
            raise InfraError("expanded sources missing for: %s" % missing)
        # syn facts, only for expanded files newer than their syn file
        exp = []
        for f in sorted(os.listdir(cur)):
            if f.endswith(".expanded.rs"):
                sj = os.path.join(cur, f.replace(".expanded.rs", ".syn.jsonl"))
                if not os.path.exists(sj) or os.path.getmtime(sj) < os.path.getmtime(os.path.join(cur, f)):
                    exp.append(f)
        if exp:
            # snapshots are hard links: never rewrite a fact file in place, always create a new inode
            for f in exp:
                sj = os.path.join(cur, f.replace(".expanded.rs", ".syn.jsonl"))
                if os.path.exists(sj):
                    os.remove(sj)
            r = subprocess.run([MECHSYN, cur] + exp, stdout=subprocess.PIPE, stderr=subprocess.PIPE, text=True)
            if r.returncode != 0:
                raise InfraError("mechsyn failed: " + r.stderr[-3000:])
        json.dump({"scratch": scratch_repo, "tools": tools_hash(), "hash": h, "normalised": normd}, open(marker, "w"))
        # snapshot (hard links; fact files are replaced by rename, never rewritten in place)
        tmp = out + ".tmp"
        shutil.rmtree(tmp, ignore_errors=True)
        os.makedirs(tmp)
        for f in os.listdir(cur):
            if f != "STATE":
                os.link(os.path.join(cur, f), os.path.join(tmp, f))
        meta = {"hash": h, "normalised_tokens": removed, "wall_s": round(time.time() - t0, 1),
                "scratch": scratch_repo, "recompiled": sorted(f for f in os.listdir(cur) if f.endswith(".mir.jsonl") and os.path.getmtime(os.path.join(cur, f)) >= t0),
                "files": sorted(os.listdir(tmp))}
        with open(os.path.join(tmp, "DONE"), "w") as f:
            json.dump(meta, f)
        if from_scratch:
            with open(os.path.join(tmp, "CLEAN"), "w") as f:
                f.write("facts of this snapshot were produced by a from-scratch pipeline run\n")
        os.rename(tmp, out)
        # keep only the most recent fact dirs (hard links: a dir costs only the fact files of the crates that differ)
        fd = os.path.join(CACHE, "facts")
        ds = sorted((os.path.getmtime(os.path.join(fd, d)), d) for d in os.listdir(fd) if d != "current")
        for _, d in ds[:-int(os.environ.get("MECH_FACTS_KEEP", "24")):]:
            shutil.rmtree(os.path.join(fd, d), ignore_errors=True)
        log("pipeline done in %.1fs" % (time.time() - t0))
        return out
    finally:
        fcntl.flock(lockf, fcntl.LOCK_UN)
        lockf.close()


if __name__ == "__main__":
    if "--setup" in sys.argv:
        try:
            build_tools()
        except InfraError as e:
            sys.stderr.write("INFRA-ERROR: %s\n" % e)
            sys.exit(2)
        sys.exit(0)
    try:
        print(ensure_facts(force="--force" in sys.argv))
    except InfraError as e:
        sys.stderr.write("INFRA-ERROR: %s\n" % e)
        sys.exit(2)
