#!/usr/bin/env python3
"""Fact pipeline: /repo working tree -> cache/facts/<hash>/ (MIR facts, expanded sources, syn facts).

Every check calls ensure_facts(); the pipeline runs once per tree state (content hash of every
source/manifest file under /repo) and is reused by the other checks on the same state.
"""
import fcntl
import hashlib
import json
import os
import re
import shutil
import subprocess
import sys
import time

VERIF = os.path.dirname(os.path.abspath(__file__))
REPO = os.environ.get("MECH_REPO", "/repo")
CACHE = os.path.join(VERIF, "cache")
SCRATCH = os.environ.get("MECH_SCRATCH", "/tmp/mechverif-scratch")
DRIVER = os.path.join(VERIF, "tools/mechfacts/target/debug/mechfacts")
MECHSYN = os.path.join(VERIF, "tools/mechsyn/target/release/mechsyn")
HASH_EXT = (".rs", ".toml", ".lock")

# crates (name.ctype) that must be analysed; a run that does not produce them fails closed
EXPECTED = [
    "mech_core.lib", "mech_syntax.lib", "mech_interpreter.lib", "mech.lib", "mech.bin",
    "mech_math.lib", "mech_compare.lib", "mech_logic.lib", "mech_set.lib", "mech_range.lib",
    "mech_matrix.lib", "mech_stats.lib", "mech_string.lib", "mech_combinatorics.lib", "mech_io.lib",
]


class InfraError(Exception):
    pass


def tree_files(root):
    out = []
    for dp, dn, fn in os.walk(root):
        dn[:] = sorted(d for d in dn if d not in ("target", ".git", "node_modules"))
        for f in sorted(fn):
            if f.endswith(HASH_EXT) or (os.path.basename(dp) == ".cargo" and f.startswith("config")):
                out.append(os.path.join(dp, f))
    return out


def tree_hash(root=REPO):
    h = hashlib.sha256()
    for p in tree_files(root):
        h.update(os.path.relpath(p, root).encode())
        h.update(b"\0")
        with open(p, "rb") as f:
            h.update(hashlib.sha256(f.read()).digest())
    # the tools are part of the state: a rebuilt tool invalidates facts
    for t in (DRIVER, MECHSYN):
        if os.path.exists(t):
            with open(t, "rb") as f:
                h.update(hashlib.sha256(f.read()).digest())
    return h.hexdigest()[:20]


def sysroot():
    return subprocess.check_output(["rustc", "+nightly", "--print", "sysroot"], text=True).strip()


def log(msg):
    sys.stderr.write("[pipeline] %s\n" % msg)
    sys.stderr.flush()


def build_tools():
    env = dict(os.environ, CARGO_NET_OFFLINE="true")
    if not os.path.exists(DRIVER):
        log("building mechfacts")
        r = subprocess.run(["cargo", "build", "--offline"], cwd=os.path.join(VERIF, "tools/mechfacts"), env=env,
                           stdout=subprocess.PIPE, stderr=subprocess.STDOUT, text=True)
        if r.returncode != 0:
            raise InfraError("mechfacts build failed:\n" + r.stdout[-3000:])
    if not os.path.exists(MECHSYN):
        log("building mechsyn")
        r = subprocess.run(["cargo", "build", "--release", "--offline"], cwd=os.path.join(VERIF, "tools/mechsyn"), env=env,
                           stdout=subprocess.PIPE, stderr=subprocess.STDOUT, text=True)
        if r.returncode != 0:
            raise InfraError("mechsyn build failed:\n" + r.stdout[-3000:])


SEMI_RE = re.compile(r"error: macro expansion ignores `;` and any tokens following\s*\n\s*--> ([^\s:]+):(\d+):(\d+)")


def normalise(scratch_repo, stderr_text):
    """Delete the `;` tokens that nightly rejects and stable ignores (DESIGN.md §9).
    Returns number of tokens removed. Fails closed if the byte at the location is not `;`."""
    n = 0
    seen = set()
    for m in SEMI_RE.finditer(stderr_text):
        rel, line, col = m.group(1), int(m.group(2)), int(m.group(3))
        key = (rel, line, col)
        if key in seen:
            continue
        seen.add(key)
        p = os.path.join(scratch_repo, rel)
        with open(p, "rb") as f:
            lines = f.read().split(b"\n")
        ln = lines[line - 1]
        if ln[col - 1:col] != b";":
            raise InfraError("normalise: expected `;` at %s:%d:%d, found %r" % (rel, line, col, ln[col - 1:col]))
        lines[line - 1] = ln[:col - 1] + b" " + ln[col:]
        with open(p, "wb") as f:
            f.write(b"\n".join(lines))
        n += 1
    return n


def run_cargo(scratch_repo, outdir, extra_args=()):
    sr = sysroot()
    env = dict(os.environ)
    env.update({
        "LD_LIBRARY_PATH": sr + "/lib",
        "RUSTFLAGS": "-Zmir-opt-level=0 -Awarnings",
        "RUSTC_WRAPPER": DRIVER,
        "MECHFACTS_OUT": outdir,
        "CARGO_TARGET_DIR": os.path.join(CACHE, "target-nightly"),
        "CARGO_NET_OFFLINE": "true",
    })
    cmd = ["cargo", "+nightly", "check", "--workspace", "--offline"] + list(extra_args)
    r = subprocess.run(cmd, cwd=scratch_repo, env=env, stdout=subprocess.PIPE, stderr=subprocess.PIPE, text=True)
    return r


def clear_fingerprints():
    fp = os.path.join(CACHE, "target-nightly/debug/.fingerprint")
    if os.path.isdir(fp):
        for d in os.listdir(fp):
            if d.startswith("mech"):
                shutil.rmtree(os.path.join(fp, d), ignore_errors=True)


def ensure_facts(force=False):
    """Returns the fact directory for /repo's current working tree, building it if needed."""
    os.makedirs(CACHE, exist_ok=True)
    build_tools()
    lockf = open(os.path.join(CACHE, "pipeline.lock"), "w")
    fcntl.flock(lockf, fcntl.LOCK_EX)
    try:
        h = tree_hash()
        out = os.path.join(CACHE, "facts", h)
        done = os.path.join(out, "DONE")
        if os.path.exists(done) and not force:
            return out
        t0 = time.time()
        log("tree state %s: running pipeline" % h)
        tmp = out + ".tmp"
        shutil.rmtree(tmp, ignore_errors=True)
        shutil.rmtree(out, ignore_errors=True)
        os.makedirs(tmp)
        scratch_repo = os.path.join(SCRATCH, "repo")
        os.makedirs(SCRATCH, exist_ok=True)
        try:
            subprocess.check_call(["rsync", "-a", "--delete", "--exclude", "target", "--exclude", ".git", REPO + "/", scratch_repo + "/"])
            removed = 0
            for attempt in range(6):
                clear_fingerprints()
                r = run_cargo(scratch_repo, tmp)
                if r.returncode == 0:
                    break
                k = normalise(scratch_repo, r.stderr)
                if k == 0:
                    errs = [l for l in r.stderr.splitlines() if l.startswith("error")][:20]
                    raise InfraError("the tree does not compile under the analysis toolchain:\n" + "\n".join(errs) + "\n" + r.stderr[-2000:])
                removed += k
                log("normalised %d `;` tokens in the scratch copy, retrying" % k)
            else:
                raise InfraError("normalisation did not converge")
            for f in os.listdir(tmp):
                if ".tmp" in f:
                    os.remove(os.path.join(tmp, f))
            missing = [e for e in EXPECTED if not os.path.exists(os.path.join(tmp, e + ".mir.jsonl"))]
            if missing:
                raise InfraError("fact files missing for: %s" % missing)
            missing = [e for e in EXPECTED if not os.path.exists(os.path.join(tmp, e + ".expanded.rs"))]
            if missing:
                raise InfraError("expanded sources missing for: %s" % missing)
            # syn facts
            exp = sorted(f for f in os.listdir(tmp) if f.endswith(".expanded.rs"))
            r = subprocess.run([MECHSYN, tmp] + exp, stdout=subprocess.PIPE, stderr=subprocess.PIPE, text=True)
            if r.returncode != 0:
                raise InfraError("mechsyn failed: " + r.stderr[-3000:])
            meta = {"hash": h, "normalised_tokens": removed, "wall_s": round(time.time() - t0, 1),
                    "scratch": scratch_repo, "files": sorted(os.listdir(tmp))}
            with open(os.path.join(tmp, "DONE"), "w") as f:
                json.dump(meta, f)
            os.rename(tmp, out)
        finally:
            shutil.rmtree(SCRATCH, ignore_errors=True)
        # keep only the 3 most recent fact dirs
        fd = os.path.join(CACHE, "facts")
        ds = sorted((os.path.getmtime(os.path.join(fd, d)), d) for d in os.listdir(fd))
        for _, d in ds[:-3]:
            shutil.rmtree(os.path.join(fd, d), ignore_errors=True)
        log("pipeline done in %.1fs" % (time.time() - t0))
        return out
    finally:
        fcntl.flock(lockf, fcntl.LOCK_UN)
        lockf.close()


if __name__ == "__main__":
    try:
        print(ensure_facts(force="--force" in sys.argv))
    except InfraError as e:
        sys.stderr.write("INFRA-ERROR: %s\n" % e)
        sys.exit(2)
