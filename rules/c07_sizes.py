"""C07-R10 — the size guards of the constant decoder accept every length the encoder produces.

`ParsedProgram::decode_const_entries` dispatches on the type tag of a constant and, per arm, first tests the length of the constant's bytes
(`if data.len() OP N { return Err(..) }`). Decoding "yields the same constants the compiler wrote" only if no such guard rejects a length the
writer of that kind emits. The guard is a closed predicate over one integer, so it is decided exactly over a finite table of lengths:

  scalar of a fixed-width kind      exactly size_of(kind)
  string                            4 + n            (u32 byte count, then n bytes)              n = 0..6
  matrix of a fixed-width kind      8 + n * size     (rows u32, cols u32, then n elements)       n = 1..6
  matrix of strings                 8 + m * (4 + k)                                              m = 1..3, k = 0..3

The widths come from the tag's own name (U16 -> 2 bytes ...); named constants in the guard are resolved from the crate's `const` items.
Nothing here depends on the spelling of a local: the byte buffer is whatever path the guard takes `.len()` of, provided the arm reads it again.
"""
import re
from lib.facts import find, is_node, path_of, render, render_stmt
from lib.minieval import ev, NoEval

FIXED = {"Bool": 1, "C64": 16, "R64": 16, "Index": 8}


def width(kind):
    if kind in FIXED:
        return FIXED[kind]
    m = re.fullmatch(r"[UIF](\d+)", kind)
    return int(m.group(1)) // 8 if m else None


def legal_lengths(tag):
    """lengths the encoder produces for a constant with this tag (None = not modelled)"""
    if tag == "String":
        return [4 + n for n in range(0, 7)]
    if tag == "MatrixString":
        return sorted({8 + m * (4 + k) for m in range(1, 4) for k in range(0, 4)})
    if tag.startswith("Matrix"):
        w = width(tag[len("Matrix"):])
        return [8 + n * w for n in range(1, 7)] if w else None
    w = width(tag)
    return [w] if w else None


def subst_len(e, var):
    """replace `<var>.len()` by the symbolic variable __len"""
    if not is_node(e):
        return e
    if e[0] == "mcall" and e[2] == "len" and not e[4] and is_node(e[1]) and e[1][0] == "path" and e[1][1] == var:
        return ["path", "__len"]
    return [subst_len(x, var) if isinstance(x, list) else x for x in e]


def len_receivers(e):
    return {c[1][1] for c in find(e, "mcall") if c[2] == "len" and not c[4] and is_node(c[1]) and c[1][0] == "path"}


def exits_with_err(block):
    txt = " ".join(render(s[1]) if is_node(s) and len(s) > 1 and is_node(s[1]) else "" for s in block)
    return "Err(" in txt and ("return" in txt or txt.strip().startswith("Err("))


def run(F, rep, items):
    rep.rule("C07-R10", "every length guard of the constant decoder accepts all lengths the encoder of that kind produces (decided over a finite length table)")
    consts = {}
    for it in items:
        if it["k"] == "const" and is_node(it.get("val")) and it["val"][0] == "int":
            consts[it["name"]] = int(re.sub(r"[^0-9].*$", "", str(it["val"][1])) or 0)
    fns = [i for i in items if i["k"] in ("method", "fn") and i["name"] == "decode_const_entries"]
    if not rep.check(len(fns) == 1, "C07-R10", "anchor:decode_const_entries", "decode_const_entries not found"):
        return
    fn = fns[0]
    decided = 0
    tag_matches = [m for m in find(fn["body"], "match") if any(is_node(a[0]) and a[0][0] == "ppath" and str(a[0][1]).startswith("TypeTag::") for a in m[2])]
    for m in tag_matches:
        for arm in m[2]:
            pat = arm[0]
            if not (is_node(pat) and pat[0] == "ppath" and str(pat[1]).startswith("TypeTag::")):
                continue
            tag = pat[1].split("::")[-1]
            lens = legal_lengths(tag)
            if lens is None:
                rep.note("C07-R10-not-modelled", tag)
                continue
            body = arm[2]
            stmts = body[1] if is_node(body) and body[0] == "block" else [["expr", body, False]]
            rest_txt = None
            for k, st in enumerate(stmts):
                e = st[1] if is_node(st) and st[0] == "expr" else None
                if not (is_node(e) and e[0] == "if"):
                    continue
                cond, then = e[1], e[2]
                recv = len_receivers(cond)
                if len(recv) != 1:
                    continue
                var = next(iter(recv))
                if not exits_with_err(then if isinstance(then, list) else []):
                    continue
                # the buffer must be what the arm decodes afterwards
                rest_txt = " ".join(render_stmt(x) for x in stmts[k + 1:])
                if not re.search(r"(?<![A-Za-z0-9_])%s(?![A-Za-z0-9_])" % re.escape(var), rest_txt):
                    continue
                c = subst_len(cond, var)
                rejected = []
                try:
                    for n in lens:
                        env = dict(consts)
                        env["__len"] = n
                        if ev(c, env):
                            rejected.append(n)
                except NoEval as ex:
                    rep.note("C07-R10-not-evaluated", {"tag": tag, "guard": render(cond)[:80], "why": str(ex)})
                    continue
                decided += 1
                rep.check(not rejected, "C07-R10", "%s:guard-accepts-encoder-lengths" % tag,
                          "decode_const_entries: the length guard of TypeTag::%s (`%s`) rejects %s, a length the encoder produces for this kind (%s): "
                          "a constant the compiler wrote no longer decodes" % (tag, render(cond)[:80], rejected[:4],
                                                                               "8-byte shape header + elements" if tag.startswith("Matrix") else "exact width" if len(lens) == 1 else "4-byte count + bytes"),
                          "src/core/src/program/program.rs", sample={"tag": tag, "guard": render(cond)[:60], "lengths": lens})
    rep.floor("C07-R10", "length guards of constant-decoder arms decided over the length table", decided, 30)
