"""C10-R11 — the code / prose decision of a Mechdown document is taken LINE BY LINE, and prose recognisers that are consulted before the code parser
consume whole lines only.

Clause: "interpreting a document gives every variable the value it gets from interpreting, in document order, only the document's executable code:
titles ... never change any value".  Necessary for it on the parser side: a line of code is never taken for (part of) a prose element.  `section()` asks the
numbered-heading recogniser at every element boundary BEFORE it tries `mech_code` (and `program()` asks `title` before the body, `mech_code()` asks
`not_mech_code` before every statement), so what these recognisers accept is decided against code.  An underlined heading is `<any text line>` + `<a line
made of a marker run>`: its first line can be a line of code, the underline is the only thing that tells it from code, and when the marker can also BEGIN
a line of code (`-`: `-- comment`, `-x`) the underline tells a heading from code only if it is a WHOLE line.

Structural facts decided here (lib/linegram.py: every recogniser is read as a sequence of items classified by what they can consume - line end /
in-line blanks / optional line end / marker run / sigil / content - from the literal sets of the crate's leaf token parsers, helpers and tuples looked through):

 A  every underlined-heading recogniser of the grammar (found by SHAPE among all parser functions: content, a line end, then a marker run at the
    beginning of the next line):  (b) the marker run is mandatory (many1), (c) if some literal
    with which code can begin (FIRST literals of the alternatives of the code parser, derived from the grammar) starts with the marker, the run is followed -
    in-line blanks apart - by a mandatory line end (new_line / eof), i.e. the underline is a whole line, (d) the text line cannot run past its line end.
 B  in every function that applies a code parser (by return type) in a loop: the recognisers consulted BEFORE the code parser at the same position (the
    pre-emption set) each carry something code cannot match - a leading sigil with which no derivable code start begins, or a whole-line underline (A) - and
    the code parser is tried before the generic prose parser (the one returning SectionElement).
 C  the statement terminator applied after each statement of a code run has a mandatory line-end alternative (a statement ends where its line ends:
    text after it on the same line is not silently accepted).
 D  guarded text loops `+( !stop, element )` that form the text lines of these recognisers stop at a line end.
The behaviour itself (which documents parse to which tree) is not decided.
"""
import re
from lib.facts import find, walk, is_node, path_of, render, last_seg
from lib.grammar import Grammar
from lib.linegram import LineGrammar, NEWLINES, parser_applications, show, term_la

R = "C10-R11"


def _plain_parsers(G):
    """parser functions proper: one parameter, of type ParseString (the crate's own combinators `tuple`, `peek`, `label..` take parsers, not input)"""
    out = {}
    for n, it in G.fns.items():
        ins = it.get("sig", {}).get("inputs", [])
        if len(ins) == 1 and re.sub(r"\s", "", str(ins[0][1])) == "ParseString":
            out[n] = it
    return out


def _lits(item):
    return frozenset(item.lits or ())


def heading_shape(items, peeks_nl=lambda item: False):
    """an underlined heading: CONTENT .. <line end> <marker run at the beginning of the next line> ..  ->  dict or None.
    The separator may be an optional line end and the run optional: that is what the obligations decide; the SHAPE is still recognised."""
    for i, it in enumerate(items):
        if it.kind not in ("MARK", "TOK") or not it.lits or any(x.strip() == "" or len(x) != 1 for x in it.lits):
            continue
        # previous item that is not a look-ahead / in-line blank
        j = i - 1
        while j >= 0 and items[j].kind in ("LA", "BLANK"):
            j -= 1
        if j < 0 or items[j].kind not in ("NL", "WSNL"):
            continue
        if not any(x.kind == "CONTENT" and x.mandatory for x in items[:j]):
            continue
        # the run: consecutive MARK / TOK items over the same literal set, at least one repetition among them
        k = i
        run = []
        while k < len(items) and items[k].kind in ("MARK", "TOK") and _lits(items[k]) == _lits(it):
            run.append(items[k])
            k += 1
        if not any(x.kind == "MARK" and x.term[0] in ("plus", "star") for x in run):
            continue
        rest = k
        while rest < len(items) and (items[rest].kind == "BLANK" or (items[rest].kind == "LA" and not peeks_nl(items[rest]))):
            rest += 1
        after = items[rest] if rest < len(items) else None
        return {"sep": items[j], "run": run, "lits": sorted(_lits(it)), "after": after, "whole": after is not None and (after.kind == "NL" or peeks_nl(after)),
                "tail": items[k:], "text": items[:j]}
    return None


def _guard_loops(items):
    """(item, stop term, element term) for text loops `+( !stop, element )` / `*( .. )` among the items"""
    out = []
    for it in items:
        t = it.term
        if t[0] in ("plus", "star") and t[1][0] == "seq" and t[1][1] and t[1][1][0][0] == "la" and t[1][1][0][1] == "not":
            out.append((it, t[1][1][0][2], ("seq", t[1][1][1:])))
    return out


def _single_line_end(L, t, depth=0):
    """`t` accepts exactly one line end token (new_line, an alternative of line-end leaves, a one-step helper around one) - not a sequence of two, not a run"""
    if depth > 6:
        return False
    if t[0] == "lit":
        return t[1] in NEWLINES
    if t[0] == "alt":
        return bool(t[1]) and all(_single_line_end(L, x, depth + 1) for x in t[1])
    if t[0] == "nt":
        st = L.steps(t[1])
        return bool(st) and len(st) == 1 and _single_line_end(L, st[0], depth + 1)
    return False


def _stops_at_newline(L, stop, depth=0):
    """the stop set of a guarded text loop contains the single line end as one of its alternatives (a stop that needs MORE than a line end - two line ends,
    a line end followed by something - lets the loop run over single line ends)"""
    if stop[0] == "alt":
        return any(_stops_at_newline(L, x) for x in stop[1])
    if _single_line_end(L, stop):
        return True
    if stop[0] == "nt" and depth < 4:
        st = L.steps(stop[1])          # the stop set held by a one-step helper
        return bool(st) and len(st) == 1 and _stops_at_newline(L, st[0], depth + 1)
    return False


def _can_take_newline(L, t, depth=0, seen=None):
    """True only on positive evidence: some literal reachable in `t` contains a line end"""
    seen = set() if seen is None else seen
    if depth > 8:
        return False
    k = t[0]
    if k == "lit":
        return "\n" in t[1] or "\r" in t[1]
    if k in ("opt", "star", "plus"):
        return _can_take_newline(L, t[1], depth + 1, seen)
    if k in ("seq", "alt"):
        return any(_can_take_newline(L, x, depth + 1, seen) for x in t[1])
    if k == "sep":
        return _can_take_newline(L, t[1], depth + 1, seen) or _can_take_newline(L, t[2], depth + 1, seen)
    if k == "nt" and t[1] not in seen:
        seen.add(t[1])
        st = L.steps(t[1])
        return bool(st) and any(_can_take_newline(L, x, depth + 1, seen) for x in st)
    return False


def run_r11(F, rep):
    rep.rule(R, "line discipline of the document grammar: underlined headings consulted before the code parser are whole lines (mandatory line end after the text, mandatory "
                "marker run, mandatory line end after a marker run whose marker can begin a line of code); recognisers that pre-empt the code parser carry a sigil / "
                "whole-line underline code cannot match; code is tried before generic prose; a statement ends with a mandatory terminator; text lines stop at the line end")
    syn = F.syn("mech_syntax.lib")
    G = Grammar(syn)
    L = LineGrammar(G)
    P = _plain_parsers(G)

    # ---- the code parsers, by return type, and the literals with which code can begin (positive evidence, derived from the grammar)
    code_parsers = sorted(n for n in P if "MechCode" in (G.ret_type(n) or ""))
    if not rep.check(len(code_parsers) >= 1, R, "anchor:code-parser", "no parser function returning MechCode found in mech_syntax"):
        return
    code_first = set()
    for n in code_parsers:
        l, _, _ = L.first_lits(("nt", n))
        code_first |= l
    code_first = {c for c in code_first if c.strip()}
    rep.floor(R, "literals with which a line of code can begin (FIRST of the code parser's alternatives)", len(code_first), 2)

    def code_capable(lits):
        """code-start literals that begin with one of the marker / sigil literals `lits`"""
        return sorted(c for c in code_first for m in lits if m and c.startswith(m))

    # ---- A: underlined headings, by shape, among all parser functions
    headings = {}
    for n in sorted(P):
        items = L.items(n)
        if not items:
            continue
        h = heading_shape(items, lambda x: x.term[0] == "la" and x.term[1] == "peek" and L.classify(x.term[2]).kind == "NL")
        if h is not None:
            headings[n] = (items, h)
    rep.floor(R, "underlined-heading recognisers (text line, line end, marker run)", len(headings), 2)
    heading_ok = {}
    n_whole = 0
    for n, (items, h) in sorted(headings.items()):
        marker = "".join(h["lits"])
        ok = True
        ok &= rep.check(any(x.mandatory for x in h["run"]), R, "heading:%s:underline-mandatory" % n,
                        "%s(): the `%s` underline run is optional (%s): every text line of that form is a heading, including lines of code" % (n, marker, ", ".join(show(x.term) for x in h["run"])),
                        "%s (mech_syntax.lib)" % n)
        cap = code_capable(h["lits"])
        if cap:
            n_whole += 1
            after = h["after"]
            whole = h["whole"]
            ok &= rep.check(whole, R, "heading:%s:underline-is-a-whole-line" % n,
                            "%s(): the `%s` underline of the heading is not required to be a whole line: after the marker run comes %s instead of a mandatory line end, "
                            "and code can begin with %s - a line of code followed by a line that merely STARTS with `%s` (e.g. a `%s` comment) is taken for a heading and "
                            "the statement is dropped from the program" % (n, marker, ", ".join(show(x.term) for x in h["tail"][:4]) or "nothing", cap, marker, cap[0]),
                            "%s (mech_syntax.lib)" % n, sample={"recogniser": n, "marker": marker, "code_starts": cap, "after_run": show(after.term) if after else None})
        else:
            rep.ok(R, "heading:%s:marker-cannot-begin-code" % n, sample={"recogniser": n, "marker": marker, "code_starts_with_marker": []})
        # (d) the text line stays on its line
        for it, stop, elem in _guard_loops(h["text"]):
            owner = it.via[-1] if it.via else n
            ok &= rep.check(_stops_at_newline(L, stop), R, "text-line-bounded:%s" % owner,
                            "%s(): the text loop %s does not stop at a line end (stop set %s): the text of a prose element runs on into the following lines, which may be code" % (owner, show(it.term)[:80], show(stop)),
                            "%s (mech_syntax.lib)" % owner)
        for it in h["text"]:
            if it.kind == "CONTENT" and not _guard_loops([it]) and _can_take_newline(L, it.term):
                ok &= rep.check(False, R, "text-line-bounded:%s" % n, "%s(): the heading text %s can consume a line end: the heading text runs on into following lines" % (n, show(it.term)[:80]))
        heading_ok[n] = ok
    rep.floor(R, "underlined headings whose marker can begin a line of code (whole-line underline demanded)", n_whole, 1)

    # ---- B: pre-emption sets
    prose_parsers = {n for n in P if (G.ret_type(n) or "") == "SectionElement"}
    # the types that hold section elements / sections (Section, Body, Program ..): their parsers form the spine above the code parser
    holders = set()
    adts = [a for a in F.adts("mech_core.lib") if not a.get("enum")]
    grow = True
    while grow:
        grow = False
        for a in adts:
            short = a["name"].split("::")[-1]
            if short in holders:
                continue
            ftypes = " ".join(str(f[1]) for v in a["variants"] for f in (v.get("fields") or []))
            if re.search(r"Vec<[\w:]*::SectionElement\b", ftypes) or any(re.search(r"::%s\b" % re.escape(h), ftypes) for h in holders):
                holders.add(short)
                grow = True
    spine = set(code_parsers) | {n for n in P if (G.ret_type(n) or "") in holders}

    def leading(items):
        for it in items:
            if it.kind == "LA" or (it.kind in ("BLANK", "WSNL") and not it.mandatory):
                continue
            return it
        return None

    def discriminated(name, depth=0):
        """('ok' | 'bad' | 'undecided', reason) - does recogniser `name` carry something a line of code cannot match?"""
        if name in headings:
            return ("ok", "whole-line underlined heading") if heading_ok[name] else ("bad", "its underline does not tell it from code (see heading:%s)" % name)
        items = L.items(name)
        if not items:
            return "undecided", "not a step sequence"
        lead = leading(items)
        if lead is None:
            return "undecided", "consumes nothing mandatory"
        if lead.kind in ("TOK", "MARK") and lead.mandatory and lead.lits:
            cap = code_capable(lead.lits)
            if not cap:
                return "ok", "leading sigil %s" % sorted(lead.lits)[:4]
            if any(x.kind == "NL" for x in items):
                return "bad", "it begins with %s, with which code can begin too (%s), and nothing else in it tells it from a line of code" % (sorted(lead.lits)[:3], cap[:3])
            return "undecided", "leading %s can begin code; no line structure to judge" % sorted(lead.lits)[:3]
        if lead.kind == "CONTENT" and lead.term[0] == "alt" and depth < 2 and all(x[0] == "nt" for x in lead.term[1]):
            res = [discriminated(x[1], depth + 1) for x in lead.term[1]]
            if any(r[0] == "bad" for r in res):
                return [r for r in res if r[0] == "bad"][0]
            if all(r[0] == "ok" for r in res):
                return "ok", "every alternative has a leading sigil"
            return "undecided", "alternatives not all decidable"
        if lead.kind == "CONTENT" and lead.term[0] == "nt" and depth < 2 and lead.term[1] in P:
            return discriminated(lead.term[1], depth + 1)
        if lead.kind == "CONTENT" and lead.mandatory and any(x.kind == "NL" for x in items) and _guard_loops([lead]):
            return "bad", "it begins with free text (%s) and is not an underlined heading: any line is accepted" % show(lead.term)[:50]
        return "undecided", "leading %s" % show(lead.term)[:50]

    n_sites = n_pre = 0
    order_sites = 0
    for fname in sorted(P):
        it = P[fname]
        apps = [(a, c) for a, c in parser_applications(it["body"], G.fns) if a in P]
        idx = [i for i, (a, _) in enumerate(apps) if a in spine and a != fname]
        if not idx or fname not in spine:
            continue
        first = idx[0]
        # steps that are a mandatory prefix (consumed, not consulted): top-level `let (input, _) = p(input)?` with a non-nullable term
        prefix_calls = set()
        for st in it["body"]:
            if st[0] == "let" and st[2] is not None:
                e = st[2]
                while is_node(e) and e[0] in ("try", "paren"):
                    e = e[1]
                if is_node(e) and e[0] == "call":
                    t2 = term_la(e[1])
                    if t2[0] != "la" and not L.nullable(t2):
                        prefix_calls.add(id(e))
        pre = []
        for a, c in apps[:first]:
            if id(c) in prefix_calls:
                continue
            its = L.items(a)
            if its and all(x.kind in ("BLANK", "WSNL", "LA") for x in its):
                continue        # blanks
            if L.alphabet(("nt", a)) is not None and all(x.strip() == "" for x in L.alphabet(("nt", a))):
                continue
            if a not in pre:
                pre.append(a)
        # look-ahead wrappers (`peek(not_mech_code)`): the alternatives they hold
        expanded = []
        for a in pre:
            its = L.items(a)
            if its and len(its) == 1 and its[0].kind == "CONTENT" and its[0].term[0] == "alt" and all(x[0] == "nt" for x in its[0].term[1]):
                expanded += [x[1] for x in its[0].term[1]]
            else:
                expanded.append(a)
        if not expanded:
            continue
        n_sites += 1
        for a in expanded:
            n_pre += 1
            verdict, why = discriminated(a)
            if verdict == "undecided":
                rep.note("undecided", {"rule": R, "site": fname, "pre-empts code": a, "why": why})
                rep.ok(R, "pre-empts-code:%s:%s" % (fname, a))
            else:
                rep.check(verdict == "ok", R, "pre-empts-code:%s:%s" % (fname, a),
                          "%s() consults %s() before the code parser %s(), but %s: a line of code at that position is taken for prose" % (fname, a, apps[first][0], why),
                          "%s (mech_syntax.lib)" % fname, sample={"site": fname, "recogniser": a, "why": why})
        # code before generic prose
        prose_idx = [i for i, (a, _) in enumerate(apps) if a in prose_parsers and a != fname]
        if prose_idx and apps[first][0] in code_parsers:
            order_sites += 1
            rep.check(first < prose_idx[0], R, "code-before-prose:%s" % fname,
                      "%s() tries the generic prose parser %s() before the code parser %s(): a line that is both valid prose and valid code is now prose and is not evaluated" % (
                          fname, apps[prose_idx[0]][0], apps[first][0]), "%s (mech_syntax.lib)" % fname)
    rep.floor(R, "functions that consult prose recognisers before a code parser", n_sites, 3)
    rep.floor(R, "recognisers consulted before a code parser", n_pre, 3)
    rep.floor(R, "element loops trying code before generic prose", order_sites, 1)

    # ---- C: the statement terminator
    n_term = 0
    for fname in code_parsers:
        it = P[fname]
        apps = [(a, c) for a, c in parser_applications(it["body"], G.fns) if a in P]
        idx = [i for i, (a, _) in enumerate(apps) if a in code_parsers and a != fname]
        if not idx:
            continue
        for a, _ in apps[idx[0] + 1:]:
            its = L.items(a)
            if not its:
                continue

            def has_nl_branch(t):
                if t[0] == "alt":
                    return any(L.classify(x).kind == "NL" for x in t[1])
                if t[0] == "opt":
                    return has_nl_branch(t[1])
                if t[0] == "nt" and L.steps(t[1]) and len(L.steps(t[1])) == 1:
                    return has_nl_branch(L.steps(t[1])[0])
                return False
            cands = [x for x in its if x.kind == "NL" or has_nl_branch(x.term)]
            if not cands or a in code_parsers:
                continue
            if not any(x.kind in ("CONTENT", "TOK") and x.term[0] in ("alt", "opt", "nt") for x in cands):
                continue        # a recogniser that merely contains a line end (a heading, a block): not the terminator of a statement
            n_term += 1
            rep.check(all(x.mandatory for x in cands), R, "statement-terminator-mandatory:%s" % a,
                      "%s(), applied after every statement of a code run in %s(), can succeed without a line end / `;` / end of input (%s): a statement no longer ends where its line "
                      "ends, and text following it on the same line is read as the next statement" % (a, fname, ", ".join(show(x.term) for x in cands if not x.mandatory)),
                      "%s (mech_syntax.lib)" % a)
    rep.floor(R, "statement terminators after the code parser", n_term, 1)
