"""C09-R5 (per-path clause): every path of a hand-written parser loop back to the loop head advances the loop-carried input.

The older R5 evidence ("a consuming parser somewhere on the spine", "consuming rebinds only", "a cursor comparison somewhere") is a
MAY-argument.  Termination needs a MUST-argument per path: on every `continue` and at the fall-through end of the body, the binding
declared OUTSIDE the loop that the loop's parser applications read has been ASSIGNED a remainder that a parser proven consuming
(lib/nullable.py) - or a cursor comparison on that very path - puts strictly behind the position at the loop head.  A `let` inside the
body that merely shadows the outer binding does not advance the loop, nor does an assignment from parsers that can succeed without
consuming (whitespace0, opt, many0 ..).  lib/parseloop.py enumerates the paths; this module states the verdicts.

    bad       a back path on which the loop-carried input is not assigned at all, or only from provably nullable parsers  -> violation
    undecided a back path runs through a parser that is neither proven consuming nor provably nullable, or through a value the
              analysis does not track (error recovery on `e.remaining_input`, a non-parser helper, a nested loop)          -> note, no alarm
    ok        every back path advances

Loops that are driven by something else than the parsed position (a counter feeding the condition, `while let Some(x) = it.next()`)
are not this rule's business: the older evidence kinds stay in charge of them.
"""
from lib.facts import is_node, render, walk, find
from lib import guards as G
from lib.synq import Scope
from lib.parseloop import LoopPaths, describe_path, path_key

RULE = "C09-R5"
# floors (with a little slack for a maintainer who merges the three list loops or rewrites a loop with nom's many0): see REPORT
FLOOR_MODELLED = 6
FLOOR_PROVEN = 4

EXPLANATION = (" (R5, per-path clause) for every hand-written loop / while / while-let that applies parsers to an input binding declared outside it, "
               "every syntactic path from the loop head back to the loop head (each `continue` and the end of the body; paths through `break`, `return` and the "
               "Err side of `?` leave) must have ASSIGNED that binding - resolved as a binding, so an inner `let` of the same spelling does not count - a remainder "
               "that passed a parser proven consuming or the strict side of a cursor comparison on that path; a back path that leaves it unassigned or feeds it only "
               "from provably nullable parsers is reported, a path through an unclassified parser is listed as undecided. Decided: this structural must-advance "
               "fact per path (the termination measure); not decided: the behaviour itself (run time, feasibility of the path).")


class LoopProgress:
    def __init__(self, rep, N, dn):
        self.rep = rep
        self.N = N
        self.dn = dn
        self.scopes = {}
        self.modelled = 0
        self.proven = 0

    def scope(self, it):
        k = id(it)
        if k not in self.scopes:
            self.scopes[k] = Scope().add_fn(it)
        return self.scopes[k]

    def other_driver(self, it, loop):
        """the loop is driven by something else than the parsed position (so that an unadvanced input does not mean non-termination):
        a counter that is stepped on the spine of the body and read by an exit condition, or a `while let` over a non-parser value"""
        sc = self.scope(it)
        body = loop[1] if loop[0] == "loop" else loop[2]
        if loop[0] == "while" and is_node(loop[1]) and loop[1][0] == "letc":
            e = loop[1][2]
            while is_node(e) and e[0] in ("ref", "try"):
                e = e[2] if e[0] == "ref" else e[1]
            if not (is_node(e) and e[0] == "call" and self.N.is_application(e)):
                return "while-let over a non-parser value"
        counters = []
        for st in body:
            if st[0] == "expr" and is_node(st[1]) and st[1][0] == "bin" and st[1][1] in ("+=", "-=") and is_node(st[1][2]) and st[1][2][0] == "path" and is_node(st[1][3]) and st[1][3][0] == "int":
                b = sc.use.get(id(st[1][2]))
                if b is not None:
                    counters.append(b)
        if counters:
            conds = [loop[1]] if loop[0] == "while" else []
            for n in walk(body):
                if n[0] == "if" and G.diverges(n[2], panics=True):
                    conds.append(n[1])
            for c in conds:
                for q in find(c, "path"):
                    if any(sc.use.get(id(q)) is b for b in counters):
                        return "a counter read by an exit condition"
        return None

    def check(self, it, loop, old_evidence):
        rep = self.rep
        kind = loop[0]
        key = "%s:%s" % (it["name"], kind)
        try:
            res = LoopPaths(self.N, self.dn, self.scope(it), it["body"]).analyse(loop)
        except Exception as ex:   # a shape the interpreter does not expect: not an alarm, and not silent either (note + the floors below)
            res = {"status": "unmodelled", "why": "analysis gave up: %s" % type(ex).__name__}
        if res["status"] == "n/a":
            return res
        if res["status"] == "unmodelled":
            rep.note("undecided", {"rule": RULE, "fn": it["name"], "loop": kind, "why": res["why"]})
            return res
        drv = self.other_driver(it, loop)
        if drv:
            rep.note("undecided", {"rule": RULE, "fn": it["name"], "loop": kind, "why": "driven by %s: per-path input progress not required" % drv, "verdict": res["verdict"]})
            return res
        self.modelled += 1
        where = "mech_syntax::%s (expanded line %d)" % (it["name"], it["line"])
        if res["verdict"] == "ok":
            self.proven += 1
            rep.ok(RULE, key + ":every-back-path-advances", sample={"fn": it["name"], "loop": kind, "back_paths": res["back_paths"],
                                                                   "paths": [describe_path(p) for o in res["vars"].values() if o["verdict"] == "ok" for p in o["paths"]][:6]})
            return res
        if res["verdict"] == "bad":
            seen = set()
            for b, o in res["vars"].items():
                for p in o["paths"]:
                    if p["verdict"] != "bad":
                        continue
                    k = "%s:back-path-not-advanced:%s" % (key, path_key(p))
                    if k in seen:
                        continue
                    seen.add(k)
                    rep.bad(RULE, k, self.message(it, kind, b, p), where, detail={"path": describe_path(p)})
            return res
        und = [{"path": describe_path(p), "why": p["why"]} for o in res["vars"].values() for p in o["paths"] if p["verdict"] != "ok"]
        rep.note("undecided", {"rule": RULE, "fn": it["name"], "loop": kind, "why": "back paths through parsers that are neither proven consuming nor provably nullable, or through untracked values",
                               "paths": und[:8]})
        rep.ok(RULE, key + ":every-back-path-advances:undecided")
        return res

    def message(self, it, kind, b, p):
        steps = describe_path(p)
        if p["why"] == "unassigned":
            what = "is never assigned on this path"
            if p["shadow"] is not None:
                last = p["shadow"][3][-1][0] if p["shadow"][3] else "a parser"
                what += (": the remainder returned by `%s` is bound by an inner `let %s` that SHADOWS the loop variable (a new binding that dies at the end of "
                         "its block) instead of being assigned to it" % (last, b.name))
        else:
            tr = p["value"][3] if p["value"] else ()
            what = ("is only assigned a remainder that passed through parsers that can succeed without consuming anything (%s) and no cursor comparison on the path excludes "
                    "an unchanged position" % (", ".join(x[0] for x in tr) or "none at all"))
        return ("%s: hand-written `%s`: on the path [%s] back to the loop head, the loop-carried input `%s` (declared outside the loop; the loop's parsers read it) %s: "
                "the next iteration starts at the same position, takes the same path again and the parser never terminates on such input"
                % (it["name"], kind, steps, b.name, what))

    def finish(self):
        self.rep.floor(RULE, "hand-written parser loops whose back paths are decided per path", self.modelled, FLOOR_MODELLED)
        self.rep.floor(RULE, "hand-written parser loops with every back path proven advancing", self.proven, FLOOR_PROVEN)
