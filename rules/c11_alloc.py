"""C11-R8 — every concatenation arm allocates its result with (rows, columns) of the block matrix it builds.

The horzcat / vertcat dispatchers are `match (nargs, rows, columns)` where `rows` / `columns` are locals computed from the arguments'
`shape()[0]` / `shape()[1]` (one of them a sum over the arguments). An arm binds or fixes the two extents in its pattern; the dynamic allocation
in that arm (`DMatrix::from_element(r, c, _)`, `DVector::from_element(r, _)`, `RowDVector::from_element(c, _)`) must use the arm's row extent as
rows and its column extent as columns. The copy kernels write blocks linearly, so an exchanged allocation neither panics nor changes the element
count: the blocks come out reinterpreted in the transposed shape.

Roles are resolved through bindings: which tuple position is the row extent is read off the `let` that defines the scrutinee local
(`shape()[0]` vs `shape()[1]`), not off the local's spelling."""
import re
from lib.facts import find, is_node, path_of, render, render_pat, walk


def _let_inits(body):
    """name -> list of initialiser expressions of `let name = init` anywhere in the body (in source order)"""
    out = {}
    for n in walk(body):
        if is_node(n) and n[0] == "let" and is_node(n[1]) and n[2] is not None:
            pt = n[1][1] if n[1][0] == "ptype" and is_node(n[1][1]) else n[1]
            if pt[0] == "pident":
                out.setdefault(pt[1], []).append(n[2])
    return out


def _extent_role(e, lets):
    """'rows' / 'cols' / None for a scrutinee element: follows one level of let-binding"""
    exprs = [e]
    if is_node(e) and e[0] == "path" and e[1] in lets:
        exprs = lets[e[1]]
    roles = set()
    for x in exprs:
        t = re.sub(r"\s", "", render(x))
        has0, has1 = "shape()[0]" in t, "shape()[1]" in t
        if has0 and not has1:
            roles.add("rows")
        elif has1 and not has0:
            roles.add("cols")
    return roles.pop() if len(roles) == 1 else None


def run(F, rep):
    rep.rule("C11-R8", "each horzcat/vertcat arm of `match (nargs, rows, columns)` allocates its dynamic result with the arm's own row extent as rows and column extent as columns")
    n = 0
    for it in F.syn("mech_interpreter.lib"):
        if it["k"] not in ("fn", "method") or not it.get("body") or not re.search(r"(horzcat|vertcat)$", it["mod"]):
            continue
        lets = _let_inits(it["body"])
        seen = set()
        for m in find(it["body"], "match"):
            if not (is_node(m[1]) and m[1][0] == "tuple" and len(m[1][1]) == 3):
                continue
            roles = [_extent_role(x, lets) for x in m[1][1]]
            if roles[1:] != ["rows", "cols"] and roles[1:] != ["cols", "rows"]:
                continue
            ri, ci = (1, 2) if roles[1] == "rows" else (2, 1)
            for a in m[2]:
                pt = a[0]
                if not (is_node(pt) and pt[0] == "ptuple" and len(pt[1]) == 3):
                    continue
                # names bound by the arm's pattern are spelled canonically by their role (n: argument count, r: rows, c: columns):
                # neither the key nor the comparison depends on what the arm calls them
                ren = {}
                for pos, sub in enumerate(pt[1]):
                    role = "r" if pos == ri else ("c" if pos == ci else "n")
                    for b_ in find(sub, "pident"):
                        if b_[1] and (b_[1][0].islower() or b_[1][0] == "_"):
                            ren.setdefault(b_[1], role)
                canon = lambda txt: re.sub(r"[A-Za-z_]\w*", lambda m_: ren.get(m_.group(0), m_.group(0)), txt)
                arm_lets = _let_inits(a[2])

                def arg_txt(x):
                    # a named local standing for an extent is read as its initialiser
                    if is_node(x) and x[0] == "path" and x[1] in arm_lets and len(arm_lets[x[1]]) == 1 and x[1] not in ren:
                        x = arm_lets[x[1]][0]
                    return canon(re.sub(r"\s", "", render(x)))
                rows_p, cols_p = canon(render_pat(pt[1][ri]).strip()), canon(render_pat(pt[1][ci]).strip())
                arm_key = "(%s,%s,%s)" % tuple(canon(render_pat(x).strip()) for x in pt[1])
                for c in find(a[2], "call"):
                    pth = path_of(c[1]) or ""
                    mm = re.match(r"^(DMatrix|DVector|RowDVector)::from_element$", pth)
                    if not mm or len(c[2]) < 2:
                        continue
                    got = [arg_txt(x) for x in c[2][:-1]]
                    want = [rows_p, cols_p] if mm.group(1) == "DMatrix" else ([rows_p] if mm.group(1) == "DVector" else [cols_p])
                    key = "%s:%s:%s" % (it["mod"].split("::")[-1], arm_key, mm.group(1))
                    # a literal extent where the pattern binds a name (`(1, 1, n)` with a scalar argument: n is 1) is not decided
                    undecided = len(got) != len(want) or any(g != w and re.fullmatch(r"\d+", g) and not re.fullmatch(r"\d+", w) for g, w in zip(got, want))
                    if undecided:
                        rep.note("C11-R8-not-decided", {"arm": arm_key, "allocation": "%s(%s)" % (mm.group(1), ", ".join(got))})
                        continue
                    if got == want:
                        if key not in seen:
                            n += 1
                            seen.add(key)
                        rep.ok("C11-R8", key, sample={"arm": arm_key, "allocation": "%s(%s)" % (mm.group(1), ", ".join(got))})
                    else:
                        n += 1
                        rep.bad("C11-R8", "%s:%s" % (key, ",".join(got)),
                                "%s: the arm %s (row extent `%s`, column extent `%s`) allocates %s::from_element(%s): the concatenated blocks come out in a result "
                                "with rows and columns exchanged (same element count, so nothing panics)" % (it["mod"].split("::")[-1], arm_key, rows_p, cols_p, mm.group(1), ", ".join(got)),
                                "%s (mech_interpreter.lib)" % it["name"])
    rep.floor("C11-R8", "dynamic result allocations in concatenation arms", n, 6)
