"""C11 — concatenation: shape agreement tests before horzcat/vertcat, block order and running offsets of the copy kernels,
kind ladders of the two dispatchers."""
import re
from collections import defaultdict
from lib.facts import find, walk, is_node, path_of, render, render_stmt
from lib import fxn as X
from lib.kernel import Kernel, Unrecognised, show
from lib.dispatch import dispatchers

TECHNIQUE = ("kernel normal form with a copy_into(dst, offset) primitive: block order and offset = sum of the previous copies, per concatenation struct; "
             "MIR-level, path-sensitive check that every push of a block in matrix_row()/matrix() (or a private helper) lies behind the agree edge of the extent comparison, the (re)definition of the reference shape or the accumulator-empty edge (rules/c11_guard.py); kind-ladder comparison of the horzcat and vertcat dispatchers")
EXPLANATION = (
    "Decides structural clauses of C11: (R1) matrix_row() only accepts a block whose row count equals the first block's and matrix() only a row whose column "
    "count equals the first row's, every other case exits with Err before MatrixHorzCat / MatrixVertCat is compiled; (R3) each fixed-arity concatenation "
    "kernel copies its sources in field order e0, e1, .. with the k-th offset equal to the sum of what the previous k copies returned (first offset 0), "
    "horizontal kernels with the column-major copy and vertical kernels with the row-strided / vector copy; (R2) the vertical and horizontal dispatchers "
    "cover the same element kinds. Not decided: stride arithmetic inside copy_into_row_major; the variadic (NArgs) kernels' loop-carried offset is "
    "reported as unrecognised (evidence only)."
    " (R5) in the variadic concatenation arms the running offset advances by the block's extent along the concatenation dimension (shape()[1] in horzcat, shape()[0] in vertcat)."
    " (R6) the CopyMat block-copy primitives are executed over a finite table of block/result shapes and offsets: every element of the block lands at its row/column of the column-major result exactly once and the returned advance is the block's row count (row-major copy) or length (linear copies)."
    ' (R7) block operands keep their position: field eK of every concatenation struct built by the horzcat / vertcat dispatchers comes from arguments[K].'
)


def flatten_sum(v):
    if isinstance(v, tuple) and v[0] == "op" and v[1] == "+":
        return flatten_sum(v[2]) + flatten_sum(v[3])
    return [v]


def run(F, rep, tier):
    crate = "mech_interpreter.lib"
    items = F.syn(crate)
    rep.rule("C11-R1", "shape agreement: guarded pushes in matrix_row()/matrix(), Err otherwise")
    rep.rule("C11-R2", "vertcat and horzcat dispatchers cover the same element kinds")
    rep.rule("C11-R3", "copy kernels: field order, running offset = sum of previous copies, copy primitive per orientation")
    # R1 is decided on the MIR (rules/c11_guard.py): path-sensitive, follows private helpers, independent of local names and of the syntactic form of the test
    from rules import c11_guard
    c11_guard.run(F, rep, crate)
    # ---- R3 kernels
    S = X.load_fxn_structs(F, [crate])
    n = 0
    n_found = 0
    for (c, name), fs in sorted(S.items()):
        m = re.match(r"(Horizontal|Vertical)Concatenate", name)
        if not m or fs.solve is None:
            continue
        srcs = [f[0] for f in fs.fields if re.match(r"e\d+$", f[0])]
        if len(srcs) < 2:
            continue
        n_found += 1
        try:
            k = Kernel(fs.solve, fs.fields)
        except Unrecognised as e:
            # the mechanism is still there in a form the kernel evaluator does not normalise (a loop over an operand array, a fold): undecided, not gone -
            # provided the body does call the copy primitive; a kernel that no longer copies at all is reported
            from lib.facts import walk as _walk, is_node as _is_node
            calls_copy = any(_is_node(x) and x[0] == "mcall" and str(x[2]).startswith("copy_into") for x in _walk(fs.solve))
            if calls_copy:
                rep.note("undecided", "C11-R3: %s::solve is not normalised by the kernel evaluator (%s) but calls the copy primitive: block order and offsets are not decided for it" % (name, e))
            else:
                rep.bad("C11-R3", "%s:no-copy-primitive" % name, "%s::solve neither normalises nor calls a copy primitive: the blocks are not placed" % name, "%s (%s)" % (name, crate))
            continue
        copies = [e for e in k.effects if e.kind == "copy"]
        n += 1
        probs = []
        if [e for e in k.effects if e.kind == "write"]:
            probs.append("writes the output other than through the copy primitive")
        if len(copies) != len(srcs):
            probs.append("%d copies for %d sources" % (len(copies), len(srcs)))
        methods = set()
        for i, e in enumerate(copies):
            _, meth, src, off = e.value
            methods.add(meth)
            sname = src[1] if isinstance(src, tuple) and src[0] in ("field", "root") else show(src)
            if i < len(srcs) and sname != srcs[i]:
                probs.append("copy %d takes %s, expected %s (block order)" % (i, sname, srcs[i]))
            if e.target != ("whole", ("field", "out")) and e.target != ("whole", ("root", "out")):
                probs.append("copy %d does not target the output" % i)
            terms = flatten_sum(off)
            if i == 0:
                if off != ("int", 0):
                    probs.append("first block is copied at offset %s, expected 0" % show(off))
            else:
                got = sorted(show(t) for t in terms)
                want = sorted("<copied,self.%s>" % s for s in srcs[:i])
                got_n = sorted(re.sub(r"^<copied,(self\.)?", "<copied,self.", g) for g in got)
                if got_n != want:
                    probs.append("block %d is placed at offset %s, expected the sum of the sizes of blocks %s" % (i, show(off), srcs[:i]))
        if len(methods) > 1:
            probs.append("mixes copy primitives %s" % sorted(methods))
        elif methods:
            meth = next(iter(methods))
            if m.group(1) == "Horizontal" and meth != "copy_into":
                probs.append("horizontal concatenation uses %s instead of the column-major copy_into" % meth)
            if m.group(1) == "Vertical" and meth == "copy_into" and not re.search(r"VD\d?$|V\d", name):
                probs.append("vertical concatenation of matrices uses the column-major copy_into (rows would interleave)")
        rep.check(not probs, "C11-R3", name if not probs else "%s:%s" % (name, re.sub(r"[^a-z0-9]+", "-", probs[0].lower())[:70]),
                  "%s: %s" % (name, "; ".join(probs)), "%s (%s)" % (name, crate), sample={"struct": name, "copies": [repr(e)[:120] for e in copies]})
    rep.floor("C11-R3", "fixed-arity concatenation kernels", n_found, 8)   # found (normalised: see the `undecided` notes for the others)
    rep.floor("C11-R3", "fixed-arity concatenation kernels normalised", n, 1)
    # ---- R2 kind ladders: the `if ValueKind::is_compatible(target, ValueKind::K)` chains of the two dispatchers
    lad = {}
    fns_by_mod = defaultdict(dict)
    for it in items:
        if it["k"] == "fn" and it.get("body"):
            fns_by_mod[it["mod"]][it["name"]] = it

    def ladder_kinds(it, depth=2):
        """kinds K tested with `ValueKind::is_compatible(_, ValueKind::K)` in the dispatcher or in a private function of its module it calls (a ladder split into helpers)"""
        kinds = set()
        for c in find(it["body"], "call"):
            pth = path_of(c[1]) or ""
            if pth.endswith("is_compatible") and len(c[2]) == 2:
                for arg in c[2]:
                    k = path_of(arg)
                    if k and k.startswith("ValueKind::"):
                        kinds.add(k.split("::")[-1])
            elif depth > 0 and "::" not in pth and pth in fns_by_mod[it["mod"]] and pth != it["name"] and not (fns_by_mod[it["mod"]][pth].get("vis") or "").startswith("pub"):
                kinds |= ladder_kinds(fns_by_mod[it["mod"]][pth], depth - 1)
        return kinds
    for it in items:
        if it["k"] == "fn" and re.fullmatch(r"impl_(horzcat|vertcat)_fxn", it["name"]):
            lad[it["name"]] = ladder_kinds(it)
    rep.floor("C11-R2", "concatenation dispatchers", len(lad), 2)
    if len(lad) == 2:
        hk, vk = lad.get("impl_horzcat_fxn", set()), lad.get("impl_vertcat_fxn", set())
        rep.floor("C11-R2", "kinds handled by the horizontal dispatcher", len(hk), 10)
        miss = sorted(hk - vk)
        rep.check(not miss, "C11-R2", "impl_vertcat_fxn" if not miss else "impl_vertcat_fxn:missing:%s" % ",".join(miss),
                  "impl_vertcat_fxn has no branch for kind(s) %s that impl_horzcat_fxn handles: `[a; b]` of such a kind is rejected while `[a b]` works" % miss, "src/interpreter/src/stdlib/vertcat.rs",
                  sample={"horzcat": sorted(hk), "vertcat": sorted(vk)})
        miss2 = sorted(vk - hk)
        rep.check(not miss2, "C11-R2", "impl_horzcat_fxn" if not miss2 else "impl_horzcat_fxn:missing:%s" % ",".join(miss2),
                  "impl_horzcat_fxn has no branch for kind(s) %s that impl_vertcat_fxn handles" % miss2, "src/interpreter/src/stdlib/horzcat.rs")
    from rules.loopshape import c11_offset_dimension
    c11_offset_dimension(F, rep)
    run_r6(F, rep, tier)


def run_r6(F, rep, tier="quick"):
    """block-copy primitives of CopyMat evaluated over a finite table of shapes"""
    import json
    from lib.ministmt import Machine, Mat, NoEval, Panic
    rep.rule("C11-R6", "block copy primitives (CopyMat::copy_into / _v / _r / _row_major), executed over a finite table of block and result shapes: the linear copies write "
                      "element i of the block to offset+i and return the block length; the row-major copy writes element (i,j) of an r x c block to row offset+i, "
                      "column j of the column-major result (linear offset + j*R + i) and returns r - exactly once each, nothing else")
    items = [it for it in F.syn("mech_core.lib") if it["k"] == "method" and it["name"].startswith("copy_into") and "CopyMat" in (it.get("trait") or "") and it.get("body")]
    distinct = {}
    for it in items:
        distinct.setdefault((it["name"], json.dumps(it["body"])), []).append(it)
    # private free functions of the module(s) that hold the copy methods: a step computation extracted into a helper is executed, not rejected
    mods = {it["mod"] for it in items}
    helpers = {x["name"]: x for x in F.syn("mech_core.lib") if x["k"] == "fn" and x.get("body") and x["mod"] in mods and not (x.get("vis") or "").startswith("pub")}
    rep.floor("C11-R6", "CopyMat copy methods", len(items), 12)
    big = tier == "thorough"
    RS = range(1, 8 if big else 6)
    CS = range(1, 5 if big else 4)
    n_eval = 0
    for (name, _), its in sorted(distinct.items(), key=lambda kv: kv[0][0]):
        it = its[0]
        params = [p[0][1] for p in it["sig"]["inputs"][1:] if is_node(p[0]) and p[0][0] == "pident"]
        if not rep.check(len(params) == 2, "C11-R6", "anchor:%s-signature" % name, "%s does not take (dst, offset): %s" % (name, it["sig"]["inputs"])):
            continue
        dstn, offn = params
        row_major = name.endswith("row_major")
        bad = None
        undecided = None
        for r in RS:
            for c in CS:
                for extra in range(0, 4):
                    for off in range(0, extra + 1):
                        if row_major:
                            R, C = r + extra, c
                            start = off
                            exp = {start + j * R + i: ("elem", "src", j * r + i) for j in range(c) for i in range(r)}
                            exp_ret = r
                        else:
                            R, C = r * c + extra, 1
                            exp = {off + i: ("elem", "src", i) for i in range(r * c)}
                            exp_ret = r * c
                        m = Machine({"self": Mat("src", r, c), dstn: Mat("dst", R, C), offn: off}, fns=helpers)
                        try:
                            ret = m.block(it["body"])
                        except NoEval as e:
                            undecided = str(e)
                            break
                        except Panic as e:
                            bad = "block %dx%d into a result with %d rows at offset %d: panics (%s)" % (r, c, R, off, e)
                            break
                        n_eval += 1
                        got = {}
                        dup = False
                        for (mn, ix, v) in m.writes:
                            if mn != "dst" or ix in got:
                                dup = True
                            got[ix] = v
                        if got != exp or dup or ret != exp_ret:
                            wrong = sorted(k for k in set(got) | set(exp) if got.get(k) != exp.get(k))[:4]
                            bad = "block %dx%d into a column-major result with %d rows at offset %d: writes differ at linear positions %s (wrote %s, expected %s), returns %s (expected %s)" % (
                                r, c, R, off, wrong, [got.get(k) for k in wrong], [exp.get(k) for k in wrong], ret, exp_ret)
                            break
                    if bad or undecided:
                        break
                if bad or undecided:
                    break
            if bad or undecided:
                break
        if undecided:
            rep.note("undecided", "C11-R6: CopyMat::%s could not be evaluated over the shape table (%s): the placement it computes is not decided in this form" % (name, undecided))
            continue
        rep.check(bad is None, "C11-R6", "%s" % name if bad is None else "%s:misplaces" % name,
                  "CopyMat::%s (%d impls) %s - a concatenated block does not land where it is written" % (name, len(its), bad), "CopyMat::%s (mech_core.lib)" % name,
                  sample={"method": name, "impls": [x["self"] for x in its], "table": "r in %s, c in %s, slack 0..3, offset 0..slack" % (list(RS), list(CS))})
    rep.floor("C11-R6", "distinct copy bodies decided", len(distinct), 4)
    rep.floor("C11-R6", "shape-table evaluations", n_eval, 100)
    from rules.loopshape import c11_block_operand_positions
    c11_block_operand_positions(F, rep)
    from rules import c11_alloc
    c11_alloc.run(F, rep)
