"""C05-R12: a validator has no success exit in front of its checking loop.

Statements that can fail part-way (appending a record or a table to a table, ...) are kept atomic by a VALIDATOR that is run before anything is written: a function returning
`MResult<bool>` whose body is a loop over the fields / columns with an `Err` exit per mismatch, followed by `Ok(true)`.  A success exit placed IN FRONT of that loop (a "fast
path" for inputs that look fine at a glance) lets an ill-typed input through both the compile-time guard and the run-time re-check, and the statement that should fail changes
the table.  Structural fact decided, for every function of mech_core / mech_interpreter of that shape (found by return type and by a top-level loop containing an Err exit): the
statements in front of the first checking loop contain no `return Ok(..)`.  Not decided: what the loop compares."""
import re
from lib.facts import walk, is_node, path_of


def _has_err_exit(n):
    for x in walk(n):
        if is_node(x) and x[0] == "ret" and len(x) > 1 and is_node(x[1]) and x[1][0] == "call" and (path_of(x[1][1]) or "") == "Err":
            return True
        if is_node(x) and x[0] == "try":
            return True
    return False


def run(F, rep, crates=("mech_core.lib", "mech_interpreter.lib")):
    rid = "C05-R12"
    rep.rule(rid, "validators (functions returning MResult<bool> whose body is a checking loop with an Err exit per mismatch) have no `return Ok(..)` in front of that loop: "
                  "no fast path lets an input through unchecked")
    n = 0
    for crate in crates:
        for it in F.syn(crate):
            if it.get("k") not in ("fn", "method") or not it.get("body") or not it.get("sig"):
                continue
            if not re.match(r"^MResult<\s*bool\s*>$", str(it["sig"].get("ret")).strip()):
                continue
            body = it["body"]
            stmts = body[1] if (body and body[0] == "block") else body
            if not isinstance(stmts, list):
                continue
            first = None
            for i, st in enumerate(stmts):
                e = st[1] if is_node(st) and st[0] == "expr" else st
                if is_node(e) and e[0] in ("for", "while", "loop", "whilelet") and _has_err_exit(e):
                    first = i
                    break
            if first is None:
                continue
            n += 1
            bad = False
            for st in stmts[:first]:
                for x in walk(st):
                    if is_node(x) and x[0] == "ret" and len(x) > 1 and is_node(x[1]) and x[1][0] == "call" and (path_of(x[1][1]) or "") == "Ok":
                        bad = True
            who = "%s::%s" % (re.sub(r"<.*$", "", str(it.get("self") or it.get("mod") or "")), it["name"])
            rep.check(not bad, rid, "%s:ok-exit-before-the-checks" % who if bad else "%s:checks-first" % who,
                      "%s returns Ok in front of its checking loop: an input taken by that fast path is never compared field by field, so the statement this validator guards "
                      "(a table append) can succeed and write ill-typed data where it must fail and change nothing" % who, "%s (%s, line %s)" % (who, crate, it.get("line")))
    rep.floor(rid, "validators (MResult<bool>, checking loop with Err exits)", n, 2)
