"""C19 — re-evaluation: step() shape, idempotent recomputation of every non-assignment solve body, plan append order,
determinism (ordered value containers; no clock / RNG / hash-order dependence in evaluators and kernels)."""
import re
from collections import defaultdict
from lib.facts import CallGraph, find, is_node, path_of, render
from lib import absint as A
from lib import fxn as X
from lib.kernel import Kernel, Unrecognised, show, roots_in, root_of
from lib import outfresh as OF
from lib.synflow import Inliner

TECHNIQUE = ("effect classification of every solve body through the kernel normal form (accumulating / appending updates of the output cell), loop nest of every solve() in "
             "Interpreter::step by symbolic evaluation through helpers, iterator adaptors and counted while loops (counted forward passes over the whole plan), who-may-mutate the plan "
             "(append only; the plan is a role: field, accessor, typed parameter or a local initialised from one), field-type rule for the "
             "language's value containers and call-graph purity (clock, RNG, hash-ordered iteration) from the evaluators and kernels; output freshness of every solve body: flow-sensitive "
             "classification of each read of the body's own output cell (fresh / invariant / feedback) over the kernel normal form with private helpers inlined, idempotence of a "
             "self-projection decided by closed evaluation of its match arms")
EXPLANATION = (
    "Decides structural clauses of C19: (R1) step(0,n) is n forward passes over the whole plan and step(i,n) solves only step i, n times; (R2) every function "
    "struct outside the assignment families recomputes its output idempotently: its solve body writes only its own output and never updates it from its own "
    "previous value (`out op= e`) nor appends to it without clearing; (R3) the plan is only ever appended to (push / append; no insert, sort, reverse); "
    "(R4) determinism: MechSet / MechTable / MechRecord / MechMap hold insertion-ordered containers and no clock or random source is reachable from the "
    "kernels (solve bodies) other than the functions that are random by name. Not decided: equality of snapshots (runtime); floating point reproducibility "
    "is assumed from determinism of the callee set."
    ' (R5) in Interpreter::step every whole-plan solve() sits in the plan traversal nested inside the step-counter loop, in every branch.'
    ' (R6) a sequence collected while iterating a hash-ordered field of a value (MechTable::col_names, MechRecord::field_names ...) is never used position-wise.'
    " (R2, extended) a solve body that hands its output cell `&mut` to a method other than nalgebra's write-only `*_to` family transforms it in place: the previous evaluation's value feeds the next one."
    " (R7) output freshness, decided on the syntax of every non-assignment solve body (private helpers inlined): every read of the body's own output cell - a value, a condition or a loop "
    "bound that reaches a write, an update or an early exit - sees either a place the body defined from its inputs earlier on every path to the read, or a place no evaluation ever writes "
    "(the extent of a never-resized matrix, the column kinds of an output table); a read of a place that the same body writes and has not yet redefined (evaluation k+1 reads what evaluation "
    "k left) is reported unless it is a guarded resize to a computed extent, the padding of a resize, or a projection `P = match P {..}` proven idempotent by evaluating its arms on their own "
    "results; what is decided is this data-flow fact about the source, not the equality of the values held after k and k+1 evaluations."
    ' (R8) order-sensitive identity operations - the Hash, PartialOrd / Ord and Display impls of mech_core (by trait, for every self type), closures included - never call an iteration method of a std HashMap / HashSet (per-instance random order: equal records would hash differently, so two interpreters running the same program would hold different sets); PartialEq::eq is not judged (a conjunction over a map is order-free); a positive control proves the detector fires.'
)
CRATES = X.FXN_CRATES
NONDET = re.compile(r"^std::time::|^rand::|^rand_core::|^getrandom::|^std::env::|SystemTime|Instant::now|thread_rng|^std::process::id")
RANDOM_BY_NAME = re.compile(r"[Rr]and|[Uu]uid|[Tt]ime|[Cc]lock|[Nn]ow")


PLAN_APPEND = ("push", "append", "extend")
PLAN_EDIT = ("insert", "sort", "sort_by", "reverse", "swap", "rotate_left", "rotate_right", "remove", "retain", "truncate", "drain", "pop", "dedup", "swap_remove")
BORROWS = ("borrow_mut", "borrow", "as_mut", "as_ref", "clone", "deref", "deref_mut", "unwrap", "expect", "lock", "write", "read", "try_borrow_mut", "get_mut")


def plan_role(it):
    """-> predicate on expressions of the body of `it`: does this expression denote the evaluation plan (or a borrow of it)?"""
    lets = defaultdict(list)
    for st in find(it["body"], "let"):
        if st[2] is None:
            continue
        pat = st[1]
        while is_node(pat) and pat[0] in ("ptype", "pref"):
            pat = pat[1] if pat[0] == "ptype" else pat[2]
        if is_node(pat) and pat[0] == "pident":
            lets[pat[1]].append(st[2])
    params = set()
    for inp in (it.get("sig") or {}).get("inputs", []):
        if inp and inp[0] != "self" and is_node(inp[0]) and re.search(r"(^|[^\w])Plan([^\w]|$)|(Vec<|\[)Box<dynMechFunction>", (inp[1] or "").replace(" ", "")):
            params |= {b[1] for b in find(inp[0], "pident")}
    memo = {}

    def is_plan(e, depth=0):
        while is_node(e):
            if e[0] == "ref":
                e = e[2]
            elif e[0] == "un" and e[1] == "*":
                e = e[2]
            elif e[0] == "paren":
                e = e[1]
            elif e[0] == "mcall" and e[2] in BORROWS:
                e = e[1]
            elif e[0] == "try":
                e = e[1]
            else:
                break
        if not is_node(e):
            return False
        if e[0] == "field":
            return e[2] == "plan"
        if e[0] == "mcall":
            return e[2] == "plan" and not e[4]
        if e[0] == "path" and "::" not in e[1]:
            name = e[1]
            if name in params:
                return True
            if name in memo:
                return memo[name]
            memo[name] = False
            if depth < 6:
                memo[name] = any(is_plan(x, depth + 1) for x in lets.get(name, ()))
            return memo[name]
        return False
    return is_plan


class StepRun:
    """Interpreter::step evaluated with the role interpreter: which loops enclose every `solve()` (through helpers, iterator adaptors and named locals)"""

    def __init__(self, items, step):
        self.I = I = A.Interp(items)
        args = []
        nonself = [i for i in step["sig"]["inputs"] if not A.is_receiver(i)]
        for k, inp in enumerate(nonself):
            args.append(("atom", "arg%d" % k))
        # the count is the LAST integer parameter (step(step_id, step_count)); by position and type, not by name
        self.count = args[-1] if args else None
        self.step_id = args[0] if args else None
        self.result = I.run_item(step, args, self_val=("atom", "self"))
        self.solves = [e for e in I.events if e["k"] == "call" and e["name"] == "solve" and e["recv"] is not None]
        self.counters = [l for l, lp in I.loops.items() if lp["outer"] is not None and lp["src"][0] == "range" and self.count in set(A.subvalues(lp["src"]))]

    def is_plan_loop(self, lid):
        return any(x[0] == "field" and x[2] == "plan" for x in A.subvalues(self.I.loops[lid]["src"]))

    def by_position(self, lid):
        """the plan P when the loop walks it by position (`for i in 0..P.len()`), else None"""
        src = self.I.loops[lid]["src"]
        if src[0] == "range" and src[2][0] == "m" and src[2][2] == "len" and not src[2][3]:
            return src[2][1]
        return None

    def whole_traversal(self, lid):
        src = self.I.loops[lid]["src"]
        if src[0] != "range":
            return True
        return self.by_position(lid) is not None and src[1] == ("int", 0) and src[3] is False

    def plan_element(self, lid):
        """the value that denotes `the current plan step` inside the traversal"""
        src = self.I.loops[lid]["src"]
        p = self.by_position(lid)
        if p is not None:
            return ("index", p, ("elem", src, lid))
        return ("elem", src, lid)


def run(F, rep, tier):
    from rules import c19_hashorder
    c19_hashorder.run(F, rep)   # R8: Hash / Ord / Display of the value types never iterate a std hash collection
    rep.rule("C19-R1", "Interpreter::step: counted forward passes over the whole plan / a single step")
    rep.rule("C19-R2", "non-assignment solve bodies are idempotent: write only their output, never accumulate into it or append without clearing")
    rep.rule("C19-R3", "the plan is append-only")
    rep.rule("C19-R4", "ordered value containers; no clock/RNG reachable from kernels")
    rep.rule("C19-R7", "output freshness: a non-assignment solve body never lets what the previous evaluation left in its own output cell reach what it writes there (feedback reads)")
    check_step(F.syn("mech_interpreter.lib"), rep)
    run_rest(F, rep, tier)


def check_step(items, rep):
    """C19-R1 on Interpreter::step found among `items`"""
    step = [it for it in items if it["k"] == "method" and it["name"] == "step" and it["self"] == "Interpreter"]
    if rep.check(len(step) == 1, "C19-R1", "anchor:step", "Interpreter::step not found"):
        sr = StepRun(items, step[0])
        I = sr.I
        rep.floor("C19-R1", "counted loops over step_count", len(sr.counters), 2)
        n_whole = 0
        for c in sr.counters:
            rng = A.show(I.loops[c]["src"])
            rep.check(I.loops[c]["src"] == ("range", ("int", 0), sr.count, False) and not I.loops[c]["adapt"], "C19-R1", "step:count-range", "step() repeats `%s` instead of 0..step_count" % rng)
            S = [e for e in sr.solves if c in e["loops"]]
            inner = []
            for e in S:
                for l in e["loops"][e["loops"].index(c) + 1:]:
                    if l not in inner:
                        inner.append(l)
            if inner:
                n_whole += 1
                for g in inner:
                    it_ = A.show(I.loops[g]["src"]) + "".join(".%s()" % a for a in I.loops[g]["adapt"]) + (".filter(..)" if I.loops[g].get("conds") else "")
                    adapt = [a for a in I.loops[g]["adapt"] if not (a == "zip" and A.zip_same_length(I, g))]
                    rep.check(sr.is_plan_loop(g) and sr.whole_traversal(g) and not adapt and not I.loops[g].get("conds"), "C19-R1", "step:forward-whole-plan",
                              "step(0, n) iterates the plan as `%s` (not a forward pass over the whole plan)" % it_, sample={"iterator": it_})
                    solves = [e for e in S if e["loops"] and e["loops"][-1] == g]
                    rep.check(len(solves) == 1 and solves[0]["recv"] == sr.plan_element(g), "C19-R1", "step:solves-each-step-once", "each plan step is solved %d times per pass" % len(solves))
            else:
                rep.check(len(S) == 1, "C19-R1", "step:single-step-solved-once-per-count", "step(i, n) solves the selected step %d times per count" % len(S))
        rep.check(n_whole >= 1, "C19-R1", "step:whole-plan-branch", "step(0, n) no longer runs the whole plan")


def is_assignment_family(fs):
    """the assignment / op-assignment function structs are the ones that write through a `sink` cell (the variable being assigned): a role of the function
    protocol, read off the struct's fields - not off its name (`SetInsertFxn` is the pure function set/insert, `VariableDefine*` does nothing in solve)"""
    return "sink" in dict(fs.fields)


def output_fields(fs):
    """the fields of the struct that hold its output cell: the `self.<field>`s the protocol method `fn out()` returns"""
    if not fs.out_expr:
        return []
    return sorted({f[2] for f in find(fs.out_expr, "field") if is_node(f[1]) and f[1][0] == "path" and f[1][1] == "self"})


def check_output_freshness(F, S, rep):
    """C19-R7 over every non-assignment solve body"""
    inl = {}
    n = n_reads = n_harmless = 0
    idioms = defaultdict(int)
    for (crate, name), fs in sorted(S.items()):
        if fs.solve is None or is_assignment_family(fs):
            continue
        outs = output_fields(fs)
        if crate not in inl:
            inl[crate] = Inliner(F.syn(crate))
        k, R, why = OF.analyse_solve(fs.solve, fs.fields, outs, inl[crate], fs.mod, name)
        if k is None:
            rep.note("unrecognised_kernels_r7", {"struct": name, "why": why})
            continue
        n += 1
        n_reads += R.reads
        n_harmless += len(R.idioms)
        for (idiom, place) in R.idioms:
            idioms[idiom] += 1
            rep.note("harmless_feedback_reads", {"struct": name, "idiom": idiom, "place": place})
        for u in R.undecided:
            rep.note("undecided", {"rule": "C19-R7", "struct": name, "why": u})
        p0 = R.problems[0] if R.problems else None
        rep.check(p0 is None, "C19-R7", name if p0 is None else "%s:%s:%s" % (name, p0.kind, p0.place),
                  "%s::solve %s - re-running the plan gives a result that depends on how often it ran" % (name, "; ".join(p.msg for p in R.problems[:3])), "%s (%s)" % (name, crate),
                  sample={"struct": name, "reads_of_own_output": R.reads, "invariant": R.invariant, "fresh": R.fresh, "feedback": R.feedback})
    rep.floor("C19-R7", "non-assignment solve bodies analysed for output freshness", n, 800)
    rep.floor("C19-R7", "reads of the own output cell recognised (extents, fields, elements)", n_reads, 150)
    rep.analysed["output_freshness"] = {"bodies": n, "reads_of_own_output": n_reads, "harmless_feedback_idioms": dict(idioms)}


def run_rest(F, rep, tier):
    # ---- R2
    S = X.load_fxn_structs(F, CRATES)
    n = 0
    unrec = 0
    for (crate, name), fs in sorted(S.items()):
        if fs.solve is None:
            continue
        fields = dict(fs.fields)
        if is_assignment_family(fs):
            rep.note("assignment_family", name)
            continue
        try:
            k = Kernel(fs.solve, fs.fields)
        except Unrecognised as e:
            unrec += 1
            rep.note("unrecognised_kernels", {"struct": name, "why": str(e)})
            continue
        n += 1
        probs = []
        for e in k.effects:
            if e.kind == "write":
                r = root_of(e.target)
                if r is not None and r != "out" and not r.startswith("out"):
                    probs.append("writes `%s` (not its output)" % show(e.target))
                v = e.value
                if isinstance(v, tuple) and v[0] == "op" and v[2] == e.target and v[1] not in ("min", "max"):
                    # out op= e : accumulates unless the same element was reset earlier in the body
                    reset = any(p is not e and p.kind == "write" and root_of(p.target) == r and k.effects.index(p) < k.effects.index(e) and "out" not in roots_in(p.value)
                                and len(p.loops) <= len(e.loops) for p in k.effects)
                    if not reset:
                        probs.append("accumulates into its output: %s := %s" % (show(e.target), show(v)))
            elif e.kind == "mutate":
                r = root_of(e.target)
                m = e.value[1] if isinstance(e.value, tuple) and e.value[0] == "call" else "?"
                if r == "out" and m in ("push", "extend", "insert", "append", "push_str"):
                    cleared = any(p.kind in ("mutate", "write") and root_of(p.target) == "out" and (p.value[1] if p.kind == "mutate" and isinstance(p.value, tuple) else "") in ("clear", "truncate")
                                  and k.effects.index(p) < k.effects.index(e) for p in k.effects) or any(
                                      p.kind == "write" and p.target == ("root", "out") and k.effects.index(p) < k.effects.index(e) for p in k.effects)
                    if not cleared:
                        probs.append("appends to its output with `%s` without clearing it first" % m)
                elif r is not None and r != "out" and not str(r).startswith("out"):
                    probs.append("mutates `%s` (not its output) with %s" % (r, m))
            elif e.kind == "inplace":
                r = root_of(e.target)
                m = e.value[1] if isinstance(e.value, tuple) and e.value[0] == "call" else "?"
                if r == "out" or str(r).startswith("out"):
                    overwritten = any(p is not e and p.kind == "write" and root_of(p.target) == r and k.effects.index(p) < k.effects.index(e) and "out" not in roots_in(p.value) for p in k.effects)
                    if not overwritten:
                        probs.append("transforms its output in place with `%s(&mut out)`: the value left by the previous evaluation is the input of the next one" % m)
                elif r is not None:
                    probs.append("mutates `%s` (not its output) in place with %s" % (r, m))
            elif e.kind == "resize":
                rep.note("shape_changing_solve", name)
        rep.check(not probs, "C19-R2", name if not probs else "%s:%s" % (name, re.sub(r"[^a-z0-9]+", "-", probs[0].lower())[:60]),
                  "%s::solve is not an idempotent recomputation: %s - re-running the plan changes the value" % (name, "; ".join(probs)), "%s (%s)" % (name, crate),
                  sample={"struct": name, "normal_form": [repr(e) for e in k.effects][:3]})
    rep.floor("C19-R2", "non-assignment solve bodies classified", n, 700)
    rep.analysed = {"solve_bodies_classified": n, "unrecognised": unrec}
    check_output_freshness(F, S, rep)

    # ---- R3 plan append-only: methods called on a plan borrow anywhere in interpreter/core.  "The plan" is a role: the field `plan`, the result of the
    # accessor `plan()`, a parameter of type Plan, or a local initialised from one of these (`let b = p.plan(); let mut w = b.borrow_mut(); w.push(..)`)
    bad = []
    n_push = 0
    for crate in ("mech_interpreter.lib", "mech_core.lib"):
        for it in F.syn(crate):
            if it["k"] not in ("fn", "method") or not it.get("body"):
                continue
            is_plan = plan_role(it)
            for m in find(it["body"], "mcall"):
                if m[2] in PLAN_APPEND or m[2] in PLAN_EDIT:
                    if is_plan(m[1]):
                        if m[2] in PLAN_APPEND:
                            n_push += 1
                        else:
                            bad.append((it["name"], m[2], "plan"))
    rep.floor("C19-R3", "plan append sites", n_push, 20)
    rep.check(not bad, "C19-R3", "plan-append-only" if not bad else "plan-mutated:%s" % ",".join(sorted({"%s.%s" % (b[0], b[1]) for b in bad})),
              "the evaluation plan is reordered or edited other than by appending: %s" % bad[:5])

    # ---- R4 containers
    want = {"structures::set::MechSet": ("set", "IndexSet"), "structures::table::MechTable": ("data", "IndexMap"),
            "structures::map::MechMap": ("map", "IndexMap"), "structures::record::MechRecord": ("data", "IndexMap")}
    found = 0
    for a in F.adts("mech_core.lib"):
        for suffix, (fld, ty) in want.items():
            if a["name"].endswith(suffix) and not a["enum"]:
                for f in a["variants"][0]["fields"]:
                    if f[0] == fld:
                        found += 1
                        rep.check(ty.lower() in f[1].lower() and "hash::map::HashMap" not in f[1] and "hash::set::HashSet" not in f[1], "C19-R4", "%s.%s:ordered" % (suffix.split("::")[-1], fld),
                                  "%s.%s has type %s: iteration order of the language's value container is no longer insertion order (results that depend on element order become non-deterministic)" % (suffix, fld, f[1]),
                                  sample={"struct": suffix, "field": fld, "type": f[1][:80]})
    rep.floor("C19-R4", "value container fields", found, 3)
    # purity of kernels
    cg = CallGraph(F, CRATES)
    solves = [f for f in cg.bodies if re.search(r" as mech_core::functions::MechFunctionImpl>::solve$", f)]
    rep.floor("C19-R4", "solve bodies in the call graph", len(solves), 800)
    nd = []
    for s in solves:
        if RANDOM_BY_NAME.search(s.split(" as ")[0]):
            continue
        for g in cg.out(s):
            if NONDET.search(g):
                nd.append((s, g))
    rep.check(not nd, "C19-R4", "kernels-pure" if not nd else "kernel-nondeterminism:%s" % ",".join(sorted({re.sub(r"^<(.*?) as .*", r"\1", a).split("::")[-1] for a, _ in nd})),
              "a solve body calls a clock / random / process-state source: %s" % nd[:4])
    from rules.loopshape import c19_step_nesting
    c19_step_nesting(F, rep)
    from rules.loopshape import c19_hash_order_sensitive_use
    c19_hash_order_sensitive_use(F, rep)
