"""C09 — parser totality: effect purity of parse(), whole-input accounting, cursor / location bookkeeping, panic idioms,
progress of every hand-written parser loop (nullability analysis)."""
import re
from collections import defaultdict
from lib.facts import CallGraph, find, walk, is_node, path_of, render, render_stmt, last_seg
from lib.mirq import Slice, calls_matching, result_exits, edge_dominates
from lib.nullable import Nullability
from lib import fxn as X

TECHNIQUE = ("call-graph purity from parser::parse (with a positive control), MIR dominance of the remaining-input and error-log tests over the Ok exit, "
             "who-may-write for ParseString.cursor plus a sibling rule on the column/row bookkeeping, possibly-empty merge_tokens().unwrap() detection, and a "
             "nullability fixpoint over the nom combinators deciding progress of every hand-written parser loop")
EXPLANATION = (
    "Decides structural clauses of C09: (R1) nothing reachable from parser::parse touches files, environment, network, process, clock or randomness (same "
    "text, same outcome; a positive control on the file loader proves the detector fires); (R2) the Ok(tree) exit of parse() is dominated by the "
    "`remaining.len() != 0` test and taken only when the error log is empty; (R3) ParseString.cursor is written only by ParseString's own consume methods, "
    "each advancing by the number of graphemes matched, and every column update adds a grapheme display width (never a byte length); (R4) no "
    "`Token::merge_tokens(..).unwrap()` on a token list that may be empty (many0 / opt); (R5) every hand-written loop in the parser has progress evidence: a "
    "consuming parser on its spine, consuming rebinds only, an explicit cursor comparison, or a counter; a loop that rebinds its input from a parser that is "
    "provably able to succeed without consuming, with no progress test, is reported (it can spin forever); loops with neither proof are listed as unproven. "
    "Not decided: that reported ranges lie inside the input (values), super-linear time."
    " (R6) nothing on the parse path iterates a std HashMap/HashSet (per-instance random order); (R7) a catch-all arm that panics on the result of a sub-parser is dead: the sub-parser can return no variant outside the arms' patterns (variant sets over the parser call graph)."
    ' (R8) no ParseError is built with SourceRange::default(); (R9) format_error counts shown and remaining errors on the same list.'
    ' (R10) panicking element reads of the parser are guarded: the grapheme under the cursor is read only after is_empty() was tested false on that path; a constant-index read X[k] only where guards imply X.len() > k; Option/Vec unwraps the function itself tests elsewhere only where the test holds. Reads with a computed index are listed, not decided.'
    " (R11) column arithmetic of the report renderer agrees with the lexer: the length given to an empty line = the value for a missing line = the lexer's first column."
)
IMPURE = re.compile(r"^std::fs::|^std::env::|^std::net::|^std::process::|^std::time::|^rand::|^getrandom::|^std::thread::|^std::io::stdin|^std::os::|^tokio::|^reqwest::")


def run(F, rep, tier):
    rep.rule("C09-R1", "effect purity of parse()")
    rep.rule("C09-R2", "Ok(tree) requires remaining.len()==0 and an empty error log")
    rep.rule("C09-R3", "cursor written only by ParseString consume methods; column/row bookkeeping uses grapheme widths")
    rep.rule("C09-R4", "no unwrap of merge_tokens on a possibly empty token list")
    rep.rule("C09-R5", "progress of hand-written parser loops (nullability analysis)")
    crates = ["mech_syntax.lib", "mech_core.lib"]
    cg = CallGraph(F, crates)
    root = "mech_syntax::parser::parse"
    if not rep.check(root in cg.bodies, "C09-R1", "anchor:parse", "parser::parse not found"):
        return
    reach = cg.reach([root])
    rep.floor("C09-R1", "bodies reachable from parse()", len([f for f in reach if f in cg.bodies]), 400)
    bad = sorted(f for f in reach if IMPURE.search(f))
    path = cg.path([root], lambda f: bool(IMPURE.search(f))) if bad else None
    rep.check(not bad, "C09-R1", "parse-is-pure" if not bad else "parse-reaches:%s" % ",".join(b.split("::<")[0] for b in bad[:4]),
              "parser::parse can reach %s (path: %s): the outcome of parsing depends on more than the text" % (bad[:4], " -> ".join(path or [])), cg.bodies[root].where(),
              sample={"reachable_bodies": len(reach)})
    nothing_interp = [f for f in reach if f.startswith("mech_interpreter::")]
    rep.check(not nothing_interp, "C09-R1", "no-interpreter-state", "parse() reaches interpreter code: %s" % nothing_interp[:3])
    # positive control: the same detector on the file loader
    cgm = CallGraph(F, ["mech.lib"])
    ctl = [f for f in cgm.bodies if f.endswith("mechfs::read_mech_source_file")]
    if rep.check(len(ctl) == 1, "C09-R1", "control:anchor", "positive control read_mech_source_file not found"):
        r2 = cgm.reach(ctl)
        rep.check(any(IMPURE.search(f) for f in r2), "C09-R1", "control:detector-fires", "the purity detector does not report the file loader as impure: the rule is broken")
    # ---- R6 determinism: no iteration-order-dependent use of a std hash collection on the parse path (RandomState differs per instance)
    rep.rule("C09-R6", "determinism: nothing reachable from parse() iterates a std HashMap/HashSet (per-instance random order would order the report or tree differently for the same text)")
    HASH_ITER = re.compile(r"collections::hash::(set|map)::.*(::|>::)(into_iter|iter|iter_mut|drain|keys|values|values_mut|into_keys|into_values|retain|difference|union|intersection|symmetric_difference|extract_if)$")

    def hash_iters(b):
        return [(t.get("l"), (t.get("f") or t.get("tf"))) for _, t in b.calls() if HASH_ITER.search((t.get("f") or "")) or HASH_ITER.search((t.get("tf") or ""))]
    sites = []
    for f in sorted(reach):
        b = cg.bodies.get(f)
        # the parser crate itself and the node/error helpers of mech_core it calls; trait-method fallbacks of the call graph reach unrelated
        # mech_core impls (e.g. PartialEq of runtime tables), which the parser never touches
        if b is None or not re.search(r"^<?(mech_syntax::|mech_core::(nodes|error|errors)::)", f):
            continue
        for l, callee in hash_iters(b):
            sites.append((f, l, callee))
    for f, l, callee in sites:
        rep.bad("C09-R6", "hash-iteration:%s:%s" % (f.split("::<")[0], callee.split("::")[-1]),
                "%s (reachable from parse()) iterates a std hash collection (`%s`, line %s): its order depends on a per-instance random seed, so the same text can yield differently ordered results" % (f, callee[-90:], l),
                cg.bodies[f].where())
    if not sites:
        rep.ok("C09-R6", "no-hash-iteration-on-parse-path", sample={"bodies_scanned": len(reach)})
    ctl6 = [b for b in F.bodies("mech_core.lib") if hash_iters(b)]
    rep.check(len(ctl6) >= 1, "C09-R6", "control:detector-fires", "the hash-iteration detector finds no HashMap iteration anywhere in mech_core (there are several, e.g. MechTable::eq): the rule is broken",
              sample={"control_sites": len(ctl6)})
    # ---- R2
    pb = cg.bodies[root]
    ok_exits, err_exits = result_exits(pb)
    sl = Slice(pb)
    lens = [(i, t) for i, t in pb.calls() if (t.get("f") or t["tf"]).endswith("ParseString::<'a>::len") or (t.get("f") or t["tf"]).endswith("ParseString::len")]
    empt = [(i, t) for i, t in pb.calls() if re.search(r"Vec::<T, A>::is_empty$", t.get("f") or t["tf"])]
    rep.floor("C09-R2", "Ok exits of parse()", len(ok_exits), 1)
    rep.check(bool(lens) and all(any(pb.dominates(li, oe) for li, _ in lens) for oe in ok_exits), "C09-R2", "remaining-length-test-dominates-ok",
              "parse() can return Ok without testing that the whole input was consumed", pb.where(), sample={"len_calls": [t["l"] for _, t in lens]})
    # the len test pushes an error when non-zero: a push to the error log is reachable only... ; and the Ok exit is on the is_empty-true edge
    good = False
    for ei, et in empt:
        from lib.mirq import switch_on_call_result
        sw = switch_on_call_result(pb, ei, et)
        if sw:
            swb, t_true, t_false = sw
            if all(edge_dominates(pb, swb, t_true, oe) for oe in ok_exits):
                good = True
    rep.check(good, "C09-R2", "ok-only-when-error-log-empty", "parse() can return Ok while the error log is not empty", pb.where())
    # after a non-zero remaining length an error is pushed
    pushes = [(i, t) for i, t in pb.calls() if (t.get("f") or t["tf"]).endswith("Vec::<T, A>::push")]
    rep.check(any(any(pb.dominates(li, pi) for li, _ in lens) for pi, _ in pushes), "C09-R2", "unparsed-rest-is-logged", "a non-empty rest of the input is not recorded as an error", pb.where())

    # ---- R3
    syn_items = F.syn("mech_syntax.lib")
    writers = defaultdict(list)
    col_updates = []
    for it in syn_items:
        if it["k"] not in ("fn", "method") or "formatter" in it.get("mod", ""):
            continue
        name = ("%s::%s" % (X.type_head(it["self"]), it["name"])) if it["k"] == "method" else it["name"]
        for n in walk(it["body"]):
            tgt = None
            if n[0] == "assign":
                tgt, val, op = render(n[1]), n[2], "="
            elif n[0] == "bin" and n[1].endswith("=") and n[1] not in ("==", "!=", "<=", ">="):
                tgt, val, op = render(n[2]), n[3], n[1]
            if tgt is None:
                continue
            if re.search(r"(^|\.)cursor$", tgt):
                writers[name].append((op, render(val)))
            if re.search(r"location\.col$|location\.row$|\.col$|\.row$", tgt) and re.search(r"location", tgt):
                col_updates.append((name, tgt, op, val))
    rep.floor("C09-R3", "writers of ParseString.cursor", len(writers), 4)
    for w, ups in sorted(writers.items()):
        ok = w.startswith("ParseString::") and (w.split("::")[1].startswith("consume_") or w.split("::")[1] in ("new", "advance", "reset"))
        rep.check(ok, "C09-R3", "cursor-writer:%s" % w, "%s writes ParseString.cursor (%s): only ParseString's consume methods may move the cursor" % (w, ups[:2]), sample={"writer": w, "updates": ups})
        for op, val in ups:
            rep.check(op == "+=" and re.fullmatch(r"1|gs_len|\w*len\w*|n", val) is not None, "C09-R3", "cursor-advance:%s:%s%s" % (w, op, val),
                      "%s moves the cursor by `%s %s`: the cursor may only advance by the number of graphemes matched" % (w, op, val))
    rep.floor("C09-R3", "column/row updates", len(col_updates), 5)
    for name, tgt, op, val in col_updates:
        v = render(val)
        if tgt.endswith(".col"):
            ok = (op == "+=" and re.search(r"graphemes::width\(", v) is not None) or (op == "=" and v in ("1",)) or (op == "+=" and v == "1")
            rep.check(ok, "C09-R3", "column-update:%s" % name if ok else "column-update:%s:%s%s" % (name, op, re.sub(r"\W+", "", v)[:30]),
                      "%s updates the source column with `%s %s`: columns advance by grapheme display width (graphemes::width), a byte or char length makes reported ranges drift outside the input for non-ASCII text" % (name, op, v),
                      sample={"fn": name, "update": "%s %s %s" % (tgt, op, v)})
        else:
            ok = (op == "+=" and v == "1") or op == "="
            rep.check(ok, "C09-R3", "row-update:%s" % name, "%s updates the source row with `%s %s`" % (name, op, v))

    # ---- R4 merge_tokens(..).unwrap() on possibly empty lists
    n_mt = 0
    items = [it for it in syn_items if "formatter" not in it.get("mod", "")]
    for it in items:
        if it["k"] != "fn":
            continue
        # local -> producing combinator head
        produced = {}
        for st in find(it["body"], "let"):
            if len(st) != 4 or st[2] is None:
                continue
            txt = render(st[2])
            m = re.match(r"^(\w+)\(", txt)
            names = [p[1] for p in find(st[1], "pident")]
            head = None
            if is_node(st[2]) and st[2][0] == "try" and is_node(st[2][1]) and st[2][1][0] == "call" and is_node(st[2][1][1]) and st[2][1][1][0] == "call":
                head = (path_of(st[2][1][1][1]) or "").split("::")[-1]
            for nm in names:
                if head:
                    produced.setdefault(nm, head)
        for mc in find(it["body"], "mcall"):
            if mc[2] in ("unwrap", "expect") and is_node(mc[1]) and mc[1][0] == "call" and (path_of(mc[1][1]) or "").endswith("merge_tokens"):
                n_mt += 1
                arg = mc[1][2][0] if mc[1][2] else None
                names = [x[1] for x in find(arg, "path")] if arg is not None else []
                heads = {produced.get(n) for n in names if n in produced}
                empty_possible = heads & {"many0", "opt", "separated_list0", "many_till"}
                rep.check(not empty_possible, "C09-R4", "%s:merge-tokens-unwrap" % it["name"],
                          "%s unwraps Token::merge_tokens(%s) although the token list comes from %s and may be empty: the parser panics on such input" % (it["name"], render(arg)[:40], sorted(empty_possible)),
                          "expanded line %d" % it["line"], sample={"fn": it["name"], "list_from": sorted(h for h in heads if h)})
    rep.floor("C09-R4", "merge_tokens().unwrap() sites", n_mt, 20)
    # explicit todo!/unimplemented! in code reachable from parse()
    reach_names = {f.split("::")[-1] for f in reach if f.startswith("mech_syntax::")} | {f.split("::")[-2] for f in reach if f.startswith("mech_syntax::") and "{closure" in f.split("::")[-1]}
    todos = defaultdict(int)
    for it in items:
        if it["k"] != "fn" or it["name"] not in reach_names:
            continue
        for c in find(it["body"], "call"):
            pc = path_of(c[1]) or ""
            if pc.endswith("panicking::panic") and c[2] and c[2][0][0] == "str" and re.search(r"not yet implemented|not implemented", c[2][0][1]):
                todos[it["name"]] += 1
    for fn, k in sorted(todos.items()):
        rep.bad("C09-R4", "%s:todo:x%d" % (fn, k), "%s contains %d todo!()/unimplemented!() reachable from parser::parse: some text makes the parser panic instead of returning an error report" % (fn, k), "mech_syntax::%s" % fn)
    rep.ok("C09-R4", "todo-scan")

    # ---- R5 loops
    N = Nullability(items)
    dn = N.definitely_nullable_set()
    fns = [n for n, it in N.fns.items() if re.search(r"ParseResult", (it["sig"]["ret"] or ""))]
    rep.analysed = {"parser_functions": len(fns), "proven_consuming": len([f for f in fns if f in N.cons]), "provably_nullable": sorted(dn)}
    rep.floor("C09-R5", "parser functions proven consuming", len([f for f in fns if f in N.cons]), 380)
    n_loops = 0
    for it in items:
        if it["k"] not in ("fn", "method"):
            continue
        for kind in ("loop", "while"):
            for n in find(it["body"], kind):
                if it["k"] == "method" and X.type_head(it["self"]) in ("ParseString", "TextFormatter", "ParserErrorReport") or "ParseError" in (it.get("self") or ""):
                    continue
                n_loops += 1
                N.last_rebinds = None
                ev = N.loop_progress(n)
                key = "%s:%s" % (it["name"], kind)
                if ev:
                    rep.ok("C09-R5", key, sample={"fn": it["name"], "loop": kind, "evidence": ev})
                    continue
                rb = N.last_rebinds or []
                definite = [r for r, c in rb if r.split("(")[0] in dn]
                if definite:
                    rep.bad("C09-R5", "%s:no-progress:%s" % (key, ",".join(definite)),
                            "%s: the hand-written %s rebinds its input from %s, which can succeed without consuming anything, and never compares the new position with the old one: on such input the loop spins forever (and grows its output without bound)" % (it["name"], kind, definite),
                            "expanded line %d" % it["line"])
                else:
                    rep.note("unproven_loops", {"fn": it["name"], "loop": kind, "rebinds": rb})
                    rep.ok("C09-R5", key + ":unproven")
    rep.floor("C09-R5", "hand-written loops in the parser", n_loops, 10)
    run_r7(F, rep)
    run_r8(F, rep)
    run_r9(F, rep)
    run_r10(F, rep)
    run_r11(F, rep)


def run_r7(F, rep):
    """C09-R7: `_ => unreachable!()/panic!()` arms on the result of a sub-parser must be unreachable: every node variant the sub-parser can
    return has its own arm.  VAR(P) is computed over the parser call graph (variants constructed in P plus those of the parsers it forwards)."""
    from lib.facts import find, walk, is_node, path_of, render, render_pat, last_seg
    rep.rule("C09-R7", "a catch-all arm that panics, on the result of a sub-parser, is dead: the sub-parser can return no variant outside the arms' patterns (variant sets over the parser call graph)")
    items = [it for it in F.syn("mech_syntax.lib") if it["k"] == "fn" and "formatter" not in it["mod"] and it.get("body")]
    fns = {}
    for it in items:
        fns.setdefault(it["name"], it)
    ret_enum = {}
    for n, it in fns.items():
        m = re.match(r"ParseResult<(\w+)>$", (it["sig"].get("ret") or "").replace(" ", ""))
        if m:
            ret_enum[n] = m.group(1)
    # variants constructed / parsers referenced
    cons, refs = {}, {}
    for n, it in fns.items():
        e = ret_enum.get(n)
        if not e:
            continue
        cv = set()
        pat_nodes = set()
        for mm in find(it["body"], "match"):
            for a in mm[2]:
                for x in walk(a[0]):
                    pat_nodes.add(id(x))
        for x in walk(it["body"]):
            if x[0] == "path" and id(x) not in pat_nodes:
                m = re.match(r"^%s::(\w+)$" % e, x[1])
                if m:
                    cv.add(m.group(1))
        cons[n] = cv
        refs[n] = {x[1] for x in walk(it["body"]) if x[0] == "path" and x[1] in ret_enum and ret_enum[x[1]] == e and x[1] != n}
    var = {n: set(v) for n, v in cons.items()}
    changed = True
    while changed:
        changed = False
        for n in var:
            for r in refs[n]:
                if not var.get(r, set()) <= var[n]:
                    var[n] |= var.get(r, set())
                    changed = True
    n_sites = 0
    for n, it in sorted(fns.items()):
        per = {}
        for mm in find(it["body"], "match"):
            arms = mm[2]
            wild = [a for a in arms if render_pat(a[0]) == "_" and a[1] is None]
            if not wild:
                continue
            wtxt = render(wild[0][2])
            if not re.search(r"panicking::|unreachable|todo!|unimplemented!|panic!", wtxt):
                continue
            callee = [x[1] for x in walk(mm[1]) if x[0] == "path" and x[1] in ret_enum]
            if not callee:
                rep.note("panicking_wildcards_not_on_a_parser_result", "%s: match %s" % (n, render(mm[1])[:50]))
                continue
            q = callee[-1]
            e = ret_enum[q]
            handled = set()
            covers_all = False
            for a in arms:
                ptxt = render_pat(a[0])
                for m2 in re.finditer(r"\b%s::(\w+)" % e, ptxt):
                    handled.add(m2.group(1))
                if a[1] is None and ptxt != "_" and not re.search(r"\b%s::" % e, ptxt) and not ptxt.startswith("Err"):
                    covers_all = True          # e.g. `Ok(x) => x`: binds whatever the sub-parser returned
            if covers_all:
                rep.ok("C09-R7", "%s:match-%s:binds-all" % (n, q))
                n_sites += 1
                continue
            n_sites += 1
            per[q] = per.get(q, 0) + 1
            key = "%s:match-%s%s" % (n, q, ("#%d" % per[q]) if per[q] > 1 else "")
            missing = sorted(var.get(q, set()) - handled)
            rep.check(not missing, "C09-R7", key if not missing else key + ":" + ",".join(missing),
                      "%s(): `match %s` handles %s::{%s} and panics (`%s`) otherwise, but %s() can return %s::%s: that input panics the parser instead of producing an error report" % (
                          n, render(mm[1])[:40], e, ",".join(sorted(handled)), wtxt[:40], q, e, "/".join(missing)),
                      "%s (mech_syntax.lib, expanded line %s)" % (n, wild[0][3]), sample={"fn": n, "sub_parser": q, "can_return": sorted(var.get(q, ())), "handled": sorted(handled)})
    rep.floor("C09-R7", "panicking catch-all arms on sub-parser results", n_sites, 4)


def run_r8(F, rep):
    """C09-R8: every error the parser builds is located in the input"""
    from lib.facts import find, walk, is_node, path_of, render
    rep.rule("C09-R8", "error ranges: every ParseError the parser constructs takes its cause_range from the input position (ParseError::new / an input-derived range), never "
                       "SourceRange::default() (0:0, which lies outside every input and breaks the report renderer)")
    n = 0
    for it in F.syn("mech_syntax.lib"):
        if it["k"] not in ("fn", "method") or not it.get("body") or "formatter" in (it.get("mod") or ""):
            continue
        per = 0
        for s in find(it["body"], "struct"):
            if s[1].split("::")[-1] != "ParseError":
                continue
            n += 1
            for fname, fval in s[2]:
                if fname == "cause_range":
                    txt = render(fval).replace(" ", "")
                    per += 1
                    bad = "SourceRange::default()" in txt or "Default::default()" in txt
                    rep.check(not bad, "C09-R8", "%s:cause_range#%d" % (it["name"], per),
                              "%s() builds a ParseError with cause_range = %s: if it reaches the report, the reported range 0:0 lies outside the input" % (it["name"], txt[:40]),
                              "%s (mech_syntax.lib, expanded line %s)" % (it["name"], it.get("line")), sample={"fn": it["name"], "cause_range": txt[:60]})
        located = sum(1 for c in find(it["body"], "call") if (path_of(c[1]) or "").endswith("ParseError::new"))
        if located:
            n += located
            rep.ok("C09-R8", "%s:ParseError::new" % it["name"], sample={"fn": it["name"], "located_constructions": located})
    rep.floor("C09-R8", "ParseError constructions examined (struct literals and ParseError::new calls)", n, 20)


def run_r9(F, rep):
    """C09-R9: the report renderer counts shown and remaining errors on the same list"""
    from lib.facts import find, walk, is_node, path_of, render
    rep.rule("C09-R9", "format_error: the number of errors not shown is `LIST.len() - n` where n = min(LIST.len(), K) over the SAME list (a count taken from another field, e.g. the source "
                       "text, underflows and panics for short inputs with several errors)")
    its = [it for it in F.syn("mech_syntax.lib") if it["k"] == "method" and it["name"] == "format_error"]
    if not rep.check(len(its) == 1, "C09-R9", "anchor:format_error", "TextFormatter::format_error not found"):
        return
    body = its[0]["body"]
    shown = {}
    for st in find(body, "let"):
        if len(st) == 4 and st[2] is not None and st[1][0] == "pident":
            for c in find(st[2], "call"):
                if (path_of(c[1]) or "").endswith("min") and c[2]:
                    lens = [render(m[1]) for a in c[2] for m in find(a, "mcall") if m[2] == "len"]
                    if lens:
                        shown[st[1][1]] = lens[0]
    rep.floor("C09-R9", "shown-count definitions (n = min(list.len(), K))", len(shown), 1)
    n = 0
    for b in find(body, "bin"):
        if b[1] == "-" and is_node(b[3]) and b[3][0] == "path" and b[3][1] in shown:
            n += 1
            lhs = [render(m[1]) for m in find(b[2], "mcall") if m[2] == "len"]
            ok = bool(lhs) and lhs[0].replace(" ", "") == shown[b[3][1]].replace(" ", "")
            rep.check(ok, "C09-R9", "format_error:remaining-count",
                      "format_error computes the number of errors not shown as `%s`, but %s counts `%s`: the two lengths belong to different fields, so the subtraction underflows (panic) or reports a bogus count" % (
                          render(b)[:50], b[3][1], shown[b[3][1]]), "TextFormatter::format_error (mech_syntax.lib)", sample={"minuend": lhs, "shown_list": shown[b[3][1]]})
    rep.floor("C09-R9", "remaining-count subtractions", n, 1)


def run_r10(F, rep):
    """C09-R10: panicking element reads of the parser are behind a length guard"""
    from lib.facts import find, walk, is_node, path_of, render
    from lib import guards as G
    rep.rule("C09-R10", "element reads in the parser cannot be out of bounds: (a) every read of the grapheme under the cursor `V.graphemes[V.cursor]` happens only after "
                        "`V.is_empty()` was tested false on that path; (b) every constant-index read `X[k]` happens only where a guard on that path implies X.len() > k "
                        "(early-return `if X.len() != n`, enclosing `if X.len() >= n`, `match X.len()`, `!X.is_empty()`); reads with a computed index are listed, not decided")
    n_cur = n_const = n_other = 0
    for it in F.syn("mech_syntax.lib"):
        if it["k"] not in ("fn", "method") or not it.get("body") or "formatter" in (it.get("mod") or ""):
            continue
        for ix, facts in G.sites(it["body"], "index"):
            base, idx = ix[1], ix[2]
            where = "%s::%s (mech_syntax.lib)" % (it.get("mod") or it.get("self") or "", it["name"])
            k = G._int(idx)
            if is_node(idx) and idx[0] == "range":
                n_other += 1
                continue
            if is_node(base) and base[0] == "field" and base[2] == "graphemes" and is_node(idx) and idx[0] == "field" and idx[2] == "cursor" and render(base[1]) == render(idx[1]):
                n_cur += 1
                ok = G.nonempty_fact(facts, base[1])
                rep.check(ok, "C09-R10", "cursor-read:%s" % it["name"] if ok else "cursor-read-unguarded:%s" % it["name"],
                          "%s reads %s with no `%s.is_empty()` test on the path: at end of input the parser panics with an index out of bounds instead of reporting an error" % (
                              it["name"], render(ix), render(base[1])), where)
                continue
            if k is not None:
                n_const += 1
                lb = G.len_lower_bound(facts, base)
                ok = lb > k
                rep.check(ok, "C09-R10", "const-index:%s:%s[%d]" % (it["name"], re.sub(r"[\s&()*]", "", render(base))[:30], k) + ("" if ok else ":len>=%d" % lb),
                          "%s reads %s where the guards on the path only imply %s.len() >= %d: an input that leaves the list shorter panics the parser (index out of bounds) instead of producing an error report" % (
                              it["name"], render(ix), render(base), lb), where, sample={"fn": it["name"], "read": render(ix), "len_lower_bound": lb})
                continue
            n_other += 1
    # (c) Option unwraps with a syntactic witness: `X.is_none() || .. X.unwrap()`, `if V.len() == 1 { V.pop().unwrap() }`
    n_unw = n_unw_other = 0
    for it in F.syn("mech_syntax.lib"):
        if it["k"] not in ("fn", "method") or not it.get("body") or "formatter" in (it.get("mod") or ""):
            continue
        for mc, facts in G.sites(it["body"], "mcall"):
            if mc[2] not in ("unwrap", "expect"):
                continue
            recv = mc[1]
            while is_node(recv) and recv[0] == "mcall" and recv[2] in ("as_ref", "as_mut", "clone"):
                recv = recv[1]
            where = "%s::%s (mech_syntax.lib)" % (it.get("mod") or it.get("self") or "", it["name"])
            if is_node(recv) and recv[0] == "mcall" and recv[2] in ("pop", "last", "first", "last_mut", "first_mut") and not recv[4]:
                # belief rule: decided only where the function itself tests the length / emptiness of that list somewhere
                vtxt = re.sub(r"[\s&()*]", "", render(recv[1]))
                tested = any(x[0] == "mcall" and x[2] in ("len", "is_empty") and re.sub(r"[\s&()*]", "", render(x[1])) == vtxt for x in walk(it["body"]))
                if not tested:
                    n_unw_other += 1
                    continue
                n_unw += 1
                lb = G.len_lower_bound(facts, recv[1])
                rep.check(lb >= 1, "C09-R10", "unwrap:%s:%s" % (it["name"], re.sub(r"\s", "", render(recv))[:40]) + ("" if lb >= 1 else ":unguarded"),
                          "%s unwraps %s with no guard implying %s is non-empty on that path: the parser panics instead of reporting an error" % (it["name"], render(recv), render(recv[1])), where)
            elif is_node(recv) and recv[0] == "path" and any(
                    c[0] == "mcall" and c[2] in ("is_none", "is_some") and render(c[1]) == render(recv) for c, _ in G.atoms(facts)) or (
                    is_node(recv) and recv[0] == "path" and any(isinstance(x, list) and x and x[0] == "mcall" and x[2] in ("is_none", "is_some") and render(x[1]) == render(recv)
                                                               for x in walk(it["body"]))):
                n_unw += 1
                ok = any(c[0] == "mcall" and render(c[1]) == render(recv) and ((c[2] == "is_none" and not pol) or (c[2] == "is_some" and pol)) for c, pol in G.atoms(facts))
                rep.check(ok, "C09-R10", "unwrap:%s:%s" % (it["name"], render(recv)[:30]) + ("" if ok else ":unguarded"),
                          "%s unwraps %s on a path where neither `%s.is_none()` was tested false nor `%s.is_some()` true, although the function tests it elsewhere: a None here panics the parser" % (
                              it["name"], render(recv), render(recv), render(recv)), where)
            else:
                n_unw_other += 1
    rep.note("C09-R10-unwraps", {"decided": n_unw, "not_decided (merge_tokens: C09-R4; grapheme.chars().next(); parse() result; report renderer tables)": n_unw_other})
    rep.note("C09-R10-not-decided", "%d element reads / slices with a computed index (cursor arithmetic, line tables) are not decided by this rule" % n_other)
    rep.floor("C09-R10", "cursor reads examined", n_cur, 100)
    rep.note("C09-R10-constant-index-reads", n_const)


def run_r11(F, rep):
    """C09-R11: the report renderer's line length counts columns the way the lexer does"""
    from lib.facts import find, walk, is_node, path_of, render
    from lib.minieval import ev, NoEval
    rep.rule("C09-R11", "column arithmetic of the error report agrees with the lexer's: the length the renderer assigns to an EMPTY line (its width accumulator at the initial value) equals "
                        "what it returns for a line beyond the text and equals the column the lexer gives the first grapheme of a line (SourceLocation col of ParseString::new) - the "
                        "renderer subtracts the current column from that length, so a length one short underflows (panics) on every report that touches an empty line")
    items = F.syn("mech_syntax.lib")
    tl = [it for it in items if it["k"] == "method" and it["name"] == "get_textlen_by_linenum" and it.get("body")]
    if not rep.check(len(tl) == 1, "C09-R11", "anchor:get_textlen_by_linenum", "TextFormatter::get_textlen_by_linenum not found (%d)" % len(tl)):
        return
    body = tl[0]["body"]
    early = [r_[1] for r_ in find(body, "ret") if r_[1] is not None]
    accs = {}
    for st in body:
        if st[0] == "let" and st[1][0] == "pident" and st[1][3] and st[2] is not None:
            try:
                accs[st[1][1]] = ev(st[2], {})
            except NoEval:
                pass
    tail = body[-1][1] if body and body[-1][0] == "expr" else None
    ok_shape = len(early) == 1 and tail is not None and bool(accs)
    if not rep.check(ok_shape, "C09-R11", "anchor:two-exits", "get_textlen_by_linenum no longer has the (missing line => constant, line => accumulated width) shape"):
        return
    try:
        k_missing = ev(early[0], {})
        k_empty = ev(tail, dict(accs))
    except NoEval as e:
        rep.bad("C09-R11", "undecided:get_textlen_by_linenum", "exit values not evaluable (%s)" % e, "get_textlen_by_linenum (mech_syntax.lib)")
        return
    init_col = None
    for it in items:
        if it["k"] == "method" and it["name"] == "new" and "ParseString" in (it.get("self") or "") and it.get("body"):
            for s_ in find(it["body"], "struct"):
                if s_[1].split("::")[-1] == "SourceLocation":
                    for f in s_[2]:
                        if f[0] == "col":
                            try:
                                init_col = ev(f[1], {})
                            except NoEval:
                                pass
    ok = k_missing == k_empty and (init_col is None or k_empty == init_col)
    rep.check(ok, "C09-R11", "textlen:empty-line=missing-line=first-column" if ok else "textlen:empty-line-%s:missing-line-%s:first-column-%s" % (k_empty, k_missing, init_col),
              "get_textlen_by_linenum gives an empty line the length %s, a missing line %s, and the lexer's first column is %s: they must agree (the length is the column just past the "
              "line's text); err_context computes `line_len - curr_col + 1` with curr_col starting at that first column" % (k_empty, k_missing, init_col),
              "TextFormatter::get_textlen_by_linenum (mech_syntax.lib)", sample={"empty_line": k_empty, "missing_line": k_missing, "first_column": init_col})
    rep.floor("C09-R11", "lexer start column found", 1 if init_col is not None else 0, 1)
