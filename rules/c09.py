"""C09 — parser totality: effect purity of parse(), whole-input accounting, cursor / location bookkeeping, panic idioms,
progress of every hand-written parser loop (nullability analysis)."""
import re
from collections import defaultdict
from lib.facts import CallGraph, find, walk, is_node, path_of, render, render_stmt, render_pat, last_seg
from lib.mirq import Slice, calls_matching, result_exits, edge_dominates, Inlined, EmptinessObservers, follow_emptiness
from lib.nullable import Nullability
from lib import fxn as X
from lib.locals import local_inits as _local_inits, through_locals as _through_locals

TECHNIQUE = ("call-graph purity from parser::parse (with a positive control), MIR dominance of the remaining-input and error-log tests over the Ok exit, "
             "who-may-write for ParseString.cursor plus a sibling rule on the column/row bookkeeping, possibly-empty merge_tokens().unwrap() detection, and a "
             "nullability fixpoint over the nom combinators deciding progress of every hand-written parser loop (per back path: lib/parseloop.py); R13: enumeration of every MIR Assert terminator and panicking-API call on "
             "the parse path with guard discharge by dominating conditional edges over symbolic operand trees (lib/mirguard.py)")
from rules.c09_loops import EXPLANATION as _R5_PER_PATH   # manifest sentence of the per-path clause of R5
EXPLANATION = (
    "Decides structural clauses of C09: (R1) nothing reachable from parser::parse touches files, environment, network, process, clock or randomness (same "
    "text, same outcome; a positive control on the file loader proves the detector fires); (R2) the Ok(tree) exit of parse() is dominated by a test of the "
    "remaining input's length (len()/is_empty() in any spelling, also inside a private helper) and taken only when the error log is empty; (R3) ParseString.cursor is written only by ParseString's own consume methods, "
    "each advancing by the number of graphemes matched, and every column update adds a grapheme display width (never a byte length); (R4) no "
    "`Token::merge_tokens(..).unwrap()` on a token list that may be empty (many0 / opt); (R5) every hand-written loop in the parser has progress evidence: a "
    "consuming parser on its spine, consuming rebinds only, an explicit cursor comparison, or a counter; a loop that rebinds its input from a parser that is "
    "provably able to succeed without consuming, with no progress test, is reported (it can spin forever); loops with neither proof are listed as unproven. "
    "Not decided: that reported ranges lie inside the input (values), super-linear time."
    + _R5_PER_PATH +
    " (R6) nothing on the parse path iterates a std HashMap/HashSet (per-instance random order); (R7) a catch-all arm that panics on the result of a sub-parser is dead: the sub-parser can return no variant outside the arms' patterns (variant sets over the parser call graph)."
    ' (R8) no ParseError is built with SourceRange::default(); (R9) format_error counts shown and remaining errors on the same list.'
    ' (R10) panicking element reads of the parser are guarded: the grapheme under the cursor is read only after is_empty() was tested false on that path; a constant-index read X[k] only where guards imply X.len() > k; Option/Vec unwraps the function itself tests elsewhere only where the test holds. Reads with a computed index are listed, not decided.'
    " (R11) column arithmetic of the report renderer agrees with the lexer: the length given to an empty line = the value for a missing line = the lexer's first column."
    " (R12) the lexer's row counter advances only under a condition that is false exactly at the last grapheme (the sentinel new-line): decided over a finite table of (grapheme count, index) with single-expression ParseString predicates inlined."
    " (R13) every potential panic site of the armed kinds (Option/Result unwrap/expect, explicit panic!/unreachable!/todo!, Index on Vec/slice/str incl. ranges, BoundsCheck, usize subtraction, "
    "division/remainder, Vec::remove/insert/split_at.., RefCell borrows) in a mech_syntax body reachable from parse() or from the report renderer is dominated on the MIR CFG by a guard of a closed "
    "idiom list (with a no-intervening-mutation check) or is individually reviewed in reviewed_safe.json under a name-free provenance key; a new site has a new key and is reported. Not decided: "
    "Add/Mul overflow (needs > 2^64 graphemes), assert!/debug_assert! failures, panics inside std/nom bodies, stack depth, and whether a reviewed reason still holds after the code around it changes."
    ' (R14) error ranges are measured in the coordinates of the input: in every parser function that re-enters the parser on a nested ParseString (a substring whose cursor restarts at 1:1) no location derived from the nested string flows into a SourceRange literal or a ParseError (provenance of the positions, not their values).'
)
IMPURE = re.compile(r"^std::fs::|^std::env::|^std::net::|^std::process::|^std::time::|^rand::|^getrandom::|^std::thread::|^std::io::stdin|^std::os::|^tokio::|^reqwest::")


def run(F, rep, tier):
    rep.rule("C09-R1", "effect purity of parse()")
    rep.rule("C09-R2", "Ok(tree) requires remaining.len()==0 and an empty error log")
    rep.rule("C09-R3", "cursor written only by ParseString consume methods; column/row bookkeeping uses grapheme widths")
    rep.rule("C09-R4", "no unwrap of merge_tokens on a possibly empty token list")
    rep.rule("C09-R5", "progress of hand-written parser loops (nullability analysis)")
    crates = ["mech_syntax.lib", "mech_core.lib"]
    cg = CallGraph(F, crates)
    root = "mech_syntax::parser::parse"
    if not rep.check(root in cg.bodies, "C09-R1", "anchor:parse", "parser::parse not found"):
        return
    reach = cg.reach([root])
    rep.floor("C09-R1", "bodies reachable from parse()", len([f for f in reach if f in cg.bodies]), 400)
    bad = sorted(f for f in reach if IMPURE.search(f))
    path = cg.path([root], lambda f: bool(IMPURE.search(f))) if bad else None
    rep.check(not bad, "C09-R1", "parse-is-pure" if not bad else "parse-reaches:%s" % ",".join(b.split("::<")[0] for b in bad[:4]),
              "parser::parse can reach %s (path: %s): the outcome of parsing depends on more than the text" % (bad[:4], " -> ".join(path or [])), cg.bodies[root].where(),
              sample={"reachable_bodies": len(reach)})
    nothing_interp = [f for f in reach if f.startswith("mech_interpreter::")]
    rep.check(not nothing_interp, "C09-R1", "no-interpreter-state", "parse() reaches interpreter code: %s" % nothing_interp[:3])
    # positive control: the same detector on the file loader
    cgm = CallGraph(F, ["mech.lib"])
    ctl = [f for f in cgm.bodies if f.endswith("mechfs::read_mech_source_file")]
    if rep.check(len(ctl) == 1, "C09-R1", "control:anchor", "positive control read_mech_source_file not found"):
        r2 = cgm.reach(ctl)
        rep.check(any(IMPURE.search(f) for f in r2), "C09-R1", "control:detector-fires", "the purity detector does not report the file loader as impure: the rule is broken")
    # ---- R6 determinism: no iteration-order-dependent use of a std hash collection on the parse path (RandomState differs per instance)
    rep.rule("C09-R6", "determinism: nothing reachable from parse() iterates a std HashMap/HashSet (per-instance random order would order the report or tree differently for the same text)")
    HASH_ITER = re.compile(r"collections::hash::(set|map)::.*(::|>::)(into_iter|iter|iter_mut|drain|keys|values|values_mut|into_keys|into_values|retain|difference|union|intersection|symmetric_difference|extract_if)$")

    def hash_iters(b):
        return [(t.get("l"), (t.get("f") or t.get("tf"))) for _, t in b.calls() if HASH_ITER.search((t.get("f") or "")) or HASH_ITER.search((t.get("tf") or ""))]
    sites = []
    for f in sorted(reach):
        b = cg.bodies.get(f)
        # the parser crate itself and the node/error helpers of mech_core it calls; trait-method fallbacks of the call graph reach unrelated
        # mech_core impls (e.g. PartialEq of runtime tables), which the parser never touches
        if b is None or not re.search(r"^<?(mech_syntax::|mech_core::(nodes|error|errors)::)", f):
            continue
        for l, callee in hash_iters(b):
            sites.append((f, l, callee))
    for f, l, callee in sites:
        rep.bad("C09-R6", "hash-iteration:%s:%s" % (f.split("::<")[0], callee.split("::")[-1]),
                "%s (reachable from parse()) iterates a std hash collection (`%s`, line %s): its order depends on a per-instance random seed, so the same text can yield differently ordered results" % (f, callee[-90:], l),
                cg.bodies[f].where())
    if not sites:
        rep.ok("C09-R6", "no-hash-iteration-on-parse-path", sample={"bodies_scanned": len(reach)})
    ctl6 = [b for b in F.bodies("mech_core.lib") if hash_iters(b)]
    rep.check(len(ctl6) >= 1, "C09-R6", "control:detector-fires", "the hash-iteration detector finds no HashMap iteration anywhere in mech_core (there are several, e.g. MechTable::eq): the rule is broken",
              sample={"control_sites": len(ctl6)})
    # ---- R2 (MIR; refactoring-robust: the tests may be spelt len()/is_empty()/comparisons in either polarity, sit behind guard clauses,
    # and the tail of parse() may live in private helpers - see lib/mirq.py Inlined / EmptinessObservers)
    pb = cg.bodies[root]
    run_r2(cg, pb, rep)

    # ---- R3
    syn_items = F.syn("mech_syntax.lib")
    run_r3(syn_items, rep)

    # ---- R4 merge_tokens(..).unwrap() on possibly empty lists
    n_mt = 0
    items = [it for it in syn_items if "formatter" not in it.get("mod", "")]

    def mt_direct(it):
        """argument nodes of `Token::merge_tokens(ARG).unwrap()/expect()` in the function"""
        for mc in find(it["body"], "mcall"):
            if mc[2] in ("unwrap", "expect") and is_node(mc[1]) and mc[1][0] == "call" and (path_of(mc[1][1]) or "").endswith("merge_tokens"):
                yield mc[1][2][0] if mc[1][2] else None
    # a helper that unwraps merge_tokens of one of its own parameters (an extracted `fn merged(tokens) -> Token`): a call of it is a site too,
    # with the argument bound to that parameter
    wrappers = {}
    for it in items:
        if it["k"] != "fn":
            continue
        params = [q[1] for inp in (it["sig"].get("inputs") or []) if isinstance(inp, list) and len(inp) == 2 and is_node(inp[0]) for q in find(inp[0], "pident")][:8]
        for arg in mt_direct(it):
            names = [x[1] for x in find(arg, "path")] if arg is not None else []
            hit = [params.index(nm) for nm in names if nm in params]
            if hit:
                wrappers[it["name"]] = hit[0]
    for it in items:
        if it["k"] != "fn":
            continue
        # local -> producing combinator head
        produced = {}
        for st in find(it["body"], "let"):
            if len(st) != 4 or st[2] is None:
                continue
            names = [p[1] for p in find(st[1], "pident")]
            head = None
            if is_node(st[2]) and st[2][0] == "try" and is_node(st[2][1]) and st[2][1][0] == "call" and is_node(st[2][1][1]) and st[2][1][1][0] == "call":
                head = (path_of(st[2][1][1][1]) or "").split("::")[-1]
            for nm in names:
                if head:
                    produced.setdefault(nm, head)
        sites4 = list(mt_direct(it))
        for c in find(it["body"], "call"):
            w = (path_of(c[1]) or "").split("::")[-1]
            if w in wrappers and w != it["name"] and len(c[2]) > wrappers[w]:
                sites4.append(c[2][wrappers[w]])
        for arg in sites4:
            n_mt += 1
            names = [x[1] for x in find(arg, "path")] if arg is not None else []
            heads = {produced.get(n) for n in names if n in produced}
            empty_possible = heads & {"many0", "opt", "separated_list0", "many_till"}
            rep.check(not empty_possible, "C09-R4", "%s:merge-tokens-unwrap" % it["name"],
                      "%s unwraps Token::merge_tokens(%s) although the token list comes from %s and may be empty: the parser panics on such input" % (it["name"], render(arg)[:40], sorted(empty_possible)),
                      "expanded line %d" % it["line"], sample={"fn": it["name"], "list_from": sorted(h for h in heads if h)})
    rep.floor("C09-R4", "merge_tokens().unwrap() sites", n_mt, 20)
    # explicit todo!/unimplemented! in code reachable from parse()
    reach_names = {f.split("::")[-1] for f in reach if f.startswith("mech_syntax::")} | {f.split("::")[-2] for f in reach if f.startswith("mech_syntax::") and "{closure" in f.split("::")[-1]}
    todos = defaultdict(int)
    for it in items:
        if it["k"] != "fn" or it["name"] not in reach_names:
            continue
        for c in find(it["body"], "call"):
            pc = path_of(c[1]) or ""
            if pc.endswith("panicking::panic") and c[2] and c[2][0][0] == "str" and re.search(r"not yet implemented|not implemented", c[2][0][1]):
                todos[it["name"]] += 1
    for fn, k in sorted(todos.items()):
        rep.bad("C09-R4", "%s:todo:x%d" % (fn, k), "%s contains %d todo!()/unimplemented!() reachable from parser::parse: some text makes the parser panic instead of returning an error report" % (fn, k), "mech_syntax::%s" % fn)
    rep.ok("C09-R4", "todo-scan")

    # ---- R5 loops
    N = Nullability(items)
    dn = N.definitely_nullable_set()
    fns = [n for n, it in N.fns.items() if re.search(r"ParseResult", (it["sig"]["ret"] or ""))]
    rep.analysed = {"parser_functions": len(fns), "proven_consuming": len([f for f in fns if f in N.cons]), "provably_nullable": sorted(dn)}
    rep.floor("C09-R5", "parser functions proven consuming", len([f for f in fns if f in N.cons]), 380)
    n_loops = 0
    from rules.c09_loops import LoopProgress
    per_path = LoopProgress(rep, N, dn)   # the must-argument: every back path of the loop advances the loop-carried input (rules/c09_loops.py)
    for it in items:
        if it["k"] not in ("fn", "method"):
            continue
        for kind in ("loop", "while"):
            for n in find(it["body"], kind):
                if it["k"] == "method" and X.type_head(it["self"]) in ("ParseString", "TextFormatter", "ParserErrorReport") or "ParseError" in (it.get("self") or ""):
                    continue
                n_loops += 1
                N.last_rebinds = None
                N.fn_inits = _local_inits(it["body"])
                ev = N.loop_progress(n)
                per_path.check(it, n, ev)
                key = "%s:%s" % (it["name"], kind)
                if ev:
                    rep.ok("C09-R5", key, sample={"fn": it["name"], "loop": kind, "evidence": ev})
                    continue
                rb = N.last_rebinds or []
                definite = [r for r, c in rb if r.split("(")[0] in dn]
                if definite:
                    rep.bad("C09-R5", "%s:no-progress:%s" % (key, ",".join(definite)),
                            "%s: the hand-written %s rebinds its input from %s, which can succeed without consuming anything, and never compares the new position with the old one: on such input the loop spins forever (and grows its output without bound)" % (it["name"], kind, definite),
                            "expanded line %d" % it["line"])
                else:
                    rep.note("unproven_loops", {"fn": it["name"], "loop": kind, "rebinds": rb})
                    rep.ok("C09-R5", key + ":unproven")
    rep.floor("C09-R5", "hand-written loops in the parser", n_loops, 10)
    per_path.finish()
    run_r7(F, rep)
    run_r8(F, rep)
    run_r9(F, rep)
    run_r10(F, rep)
    run_r11(F, rep)
    from rules.c09_rows import run_r12
    run_r12(F, rep, tier)
    from rules.c09_panics import run_r13; run_r13(F, rep, tier)
    from rules import c09_nested; c09_nested.run(F, rep)   # R14: locations of a nested ParseString never reach an error range


def run_r3(syn_items, rep):
    """C09-R3.  Roles by field and type, not by the spelling of locals: a cursor write is an assignment to a field `cursor`; the amount is 1
    or the `.len()` of a grapheme list (a value made by a `graphemes::*` function or the `graphemes` field), also when it goes through a
    named local; a column/row update is an assignment to a field `col` / `row` of anything (self.location, a local copy of it, a range
    end).  A private ParseString method that moves the cursor is accepted when only ParseString's own methods call it (an extracted
    helper); the floor counts the sanctioned entry points that move the cursor directly or through such a helper."""
    writers = defaultdict(list)
    col_updates = []
    methods = {}
    for it in syn_items:
        if it["k"] not in ("fn", "method") or "formatter" in it.get("mod", ""):
            continue
        name = ("%s::%s" % (X.type_head(it["self"]), it["name"])) if it["k"] == "method" else it["name"]
        methods[name] = it
        inits = _local_inits(it["body"])
        for n in walk(it["body"]):
            tgt = None
            if n[0] == "assign":
                tgt, val, op = render(n[1]), n[2], "="
            elif n[0] == "bin" and n[1].endswith("=") and n[1] not in ("==", "!=", "<=", ">="):
                tgt, val, op = render(n[2]), n[3], n[1]
            if tgt is None:
                continue
            if re.search(r"(^|\.)cursor$", tgt):
                writers[name].append((op, _through_locals(val, inits), inits))
            if re.search(r"\.col$|\.row$", tgt):
                col_updates.append((name, tgt, op, _through_locals(val, inits)))

    def sanctioned(w):
        return w.startswith("ParseString::") and (w.split("::")[1].startswith("consume_") or w.split("::")[1] in ("new", "advance", "reset"))

    def callers_of(w):
        m = w.split("::")[1]
        out = set()
        for nm, it in methods.items():
            if nm == w:
                continue
            for c in walk(it["body"]):
                if (c[0] == "mcall" and c[2] == m) or (c[0] == "call" and (path_of(c[1]) or "").split("::")[-1] == m and "::" in (path_of(c[1]) or "")):
                    out.add(nm)
        return out

    def grapheme_count(v, inits):
        if not (is_node(v) and v[0] == "mcall" and v[2] == "len" and not v[4]):
            return False
        r = _through_locals(v[1], inits)
        while is_node(r) and r[0] in ("ref", "paren", "index", "mcall", "try") and not (r[0] == "mcall" and r[2] in ("len",)):
            if r[0] == "ref":
                r = _through_locals(r[2], inits)
            elif r[0] == "mcall" and r[2] in ("clone", "as_slice", "iter", "to_vec", "as_ref", "unwrap"):
                r = _through_locals(r[1], inits)
            elif r[0] in ("paren", "index", "try"):
                r = _through_locals(r[1], inits)
            else:
                break
        if is_node(r) and r[0] == "field" and r[2] == "graphemes":
            return True
        return is_node(r) and r[0] == "call" and re.search(r"(^|::)graphemes::\w+$", path_of(r[1]) or "") is not None

    entry_points = set()
    for w, ups in sorted(writers.items()):
        ok = sanctioned(w)
        if ok:
            entry_points.add(w)
        elif w.startswith("ParseString::") and methods[w].get("vis", "") == "":
            cs = callers_of(w)
            ok = bool(cs) and all(c.startswith("ParseString::") for c in cs)
            for c in sorted(cs):
                if sanctioned(c) and c not in writers and c not in entry_points:
                    # the entry point still moves the cursor, through the helper: same obligation as when it wrote the field itself
                    rep.ok("C09-R3", "cursor-writer:%s" % c, sample={"writer": c, "through": w})
            entry_points |= {c for c in cs if sanctioned(c)}
        rep.check(ok, "C09-R3", "cursor-writer:%s" % w, "%s writes ParseString.cursor (%s): only ParseString's consume methods may move the cursor" % (w, [(o, render(v)) for o, v, _ in ups[:2]]),
                  sample={"writer": w, "updates": [(o, render(v)) for o, v, _ in ups]})
        per = defaultdict(int)
        for op, val, inits in ups:
            one = is_node(val) and val[0] == "int" and re.fullmatch(r"1(usize)?", str(val[1])) is not None
            cnt = grapheme_count(val, inits)
            good = op == "+=" and (one or cnt)
            form = "+=1" if (op == "+=" and one) else ("+=len(graphemes)" if (op == "+=" and cnt) else "other")
            per[form] += 1
            rep.check(good, "C09-R3", "cursor-advance:%s:%s%s" % (w, form, "#%d" % per[form] if per[form] > 1 else ""),
                      "%s moves the cursor by `%s %s`: the cursor may only advance by the number of graphemes matched" % (w, op, render(val)))
    rep.floor("C09-R3", "writers of ParseString.cursor", len(entry_points), 2)   # mechanisms, not copies: consume_alpha / _digit / _emoji may share one helper
    rep.floor("C09-R3", "column/row updates", len(col_updates), 5)
    for name, tgt, op, val in col_updates:
        v = render(val)
        if tgt.endswith(".col"):
            ok = (op == "+=" and re.search(r"graphemes::width\(", v) is not None) or (op == "=" and v in ("1",)) or (op == "+=" and v == "1")
            rep.check(ok, "C09-R3", "column-update:%s" % name if ok else "column-update:%s:%s%s" % (name, op, "len()" if re.search(r"\.len\(\)", v) else ("const" if re.fullmatch(r"\d+\w*", v) else "other")),
                      "%s updates the source column with `%s %s`: columns advance by grapheme display width (graphemes::width), a byte or char length makes reported ranges drift outside the input for non-ASCII text" % (name, op, v),
                      sample={"fn": name, "update": "%s %s %s" % (tgt, op, v)})
        else:
            ok = (op == "+=" and v == "1") or op == "="
            rep.check(ok, "C09-R3", "row-update:%s" % name, "%s updates the source row with `%s %s`" % (name, op, v))


def _is_parser_ret(ty):
    """return type of a grammar parser: nom's IResult over ParseString (ParseResult<T>)"""
    return "nom::internal::Err<" in (ty or "") and "ParseString" in (ty or "")


def run_r2(cg, pb, rep):
    """C09-R2 on MIR.  Roles are found by type and provenance, never by name:
      * the rest of the input = a ParseString that comes out of a grammar parser (a callee returning ParseResult), directly or through a
        helper; a *test* of it is a call of an emptiness observer on it (ParseString::len, or any crate function that returns an
        emptiness observation of its argument, e.g. ParseString::is_empty);
      * the error log = the collection whose emptiness decides the Ok exit; the push that records the unparsed rest goes to the same
        collection (same provenance roots);
      * call sites and exits are followed into non-parser helpers of the crate (two levels), parameters bound to arguments."""
    def follow(b):
        return b.crate == "mech_syntax" and "{closure" not in b.fn and not _is_parser_ret(b.locals[0] if b.locals else "")
    inl = Inlined(cg, follow, depth=2)
    obs_rest = EmptinessObservers(cg, [(r"(^|::)ParseString(::<'a>)?::len$", "len")])
    obs_coll = EmptinessObservers(cg, [(r"Vec::<T, A>::is_empty$|VecDeque::<T, A>::is_empty$|\[T\]::is_empty$", ("bool", True)),
                                       (r"Vec::<T, A>::len$|VecDeque::<T, A>::len$|\[T\]::len$", "len")])

    def yields_parser_result(callee, depth=2):
        b = cg.bodies.get(callee)
        if b is None:
            return False
        if _is_parser_ret(b.locals[0] if b.locals else ""):
            return True
        if depth <= 0 or not follow(b) or "ParseString" not in " ".join(b.locals[:1]):
            return False
        return any(yields_parser_result(t.get("f") or t["tf"], depth - 1) for _, t in b.calls())

    ok_exits, err_exits = inl.result_exits(pb)
    rep.floor("C09-R2", "Ok exits of parse()", len(ok_exits), 1)
    sites = list(inl.calls(pb))
    # tests of the remaining input
    rest_tests = []
    for ch in sites:
        o = obs_rest.observes(ch[-1][2])
        if o is None:
            continue
        roots = inl.roots(ch, o[0])
        if any(r[1] == "call" and yields_parser_result(r[2]) for r in roots):
            rest_tests.append(ch)
    rep.check(bool(rest_tests) and all(any(inl.before(a, oe) for a in rest_tests) for oe in ok_exits), "C09-R2", "remaining-length-test-dominates-ok",
              "parse() can return Ok without testing that the whole input was consumed", pb.where(), sample={"len_calls": [ch[-1][2]["l"] for ch in rest_tests]})
    # the Ok exit lies on the "collection is empty" edge of a test of the error log
    good = None
    undecided = []
    for ch in sites:
        body, blk, t = ch[-1]
        o = obs_coll.observes(t)
        if o is None:
            continue
        fe = follow_emptiness(body, blk, t, o[1])
        if not fe or fe[0] != "switch":
            continue
        verdicts = [inl.edge_before(ch, fe[1], fe[2], oe) for oe in ok_exits]
        if ok_exits and all(v is True for v in verdicts):
            good = (ch, o[0])
            break
        if any(v is None for v in verdicts) and not any(v is False for v in verdicts):
            undecided.append(t["l"])
    if good is None and undecided:
        # the emptiness test exists but sits in a helper whose outcome reaches the Ok exit through its return value: not analysable here
        rep.note("undecided", {"rule": "C09-R2", "what": "the error-log emptiness test lies in a helper (lines %s) whose result is propagated by value; edge dominance over the Ok exit not decided" % undecided})
    else:
        rep.check(good is not None, "C09-R2", "ok-only-when-error-log-empty", "parse() can return Ok while the error log is not empty", pb.where())
    # after a non-zero remaining length an error is pushed (to that log)
    log_roots = {r[1:] for r in inl.roots(good[0], good[1]) if r[0] == 0 and r[1] in ("call", "arg", "agg")} if good else None
    pushes = []
    for ch in sites:
        t = ch[-1][2]
        if not re.search(r"(Vec|VecDeque)::<T, A>::(push|push_back)$", t.get("f") or t["tf"]) or not t["args"]:
            continue
        if log_roots:
            pr = {r[1:] for r in inl.roots(ch, t["args"][0]) if r[0] == 0}
            if not (pr & log_roots):
                continue
        pushes.append(ch)
    rep.check(any(inl.before(a, p) for a in rest_tests for p in pushes), "C09-R2", "unparsed-rest-is-logged", "a non-empty rest of the input is not recorded as an error", pb.where())


def run_r7(F, rep):
    """C09-R7: `_ => unreachable!()/panic!()` arms on the result of a sub-parser must be unreachable: every node variant the sub-parser can
    return has its own arm.  VAR(P) is computed over the parser call graph (variants constructed in P plus those of the parsers it forwards)."""
    from lib.facts import find, walk, is_node, path_of, render, render_pat, last_seg
    rep.rule("C09-R7", "a catch-all arm that panics, on the result of a sub-parser, is dead: the sub-parser can return no variant outside the arms' patterns (variant sets over the parser call graph)")
    items = [it for it in F.syn("mech_syntax.lib") if it["k"] == "fn" and "formatter" not in it["mod"] and it.get("body")]
    fns = {}
    for it in items:
        fns.setdefault(it["name"], it)
    ret_enum = {}
    for n, it in fns.items():
        m = re.match(r"ParseResult<(\w+)>$", (it["sig"].get("ret") or "").replace(" ", ""))
        if m:
            ret_enum[n] = m.group(1)
    # variants constructed / parsers referenced
    cons, refs = {}, {}
    for n, it in fns.items():
        e = ret_enum.get(n)
        if not e:
            continue
        cv = set()
        pat_nodes = set()
        for mm in find(it["body"], "match"):
            for a in mm[2]:
                for x in walk(a[0]):
                    pat_nodes.add(id(x))
        for x in walk(it["body"]):
            if x[0] == "path" and id(x) not in pat_nodes:
                m = re.match(r"^%s::(\w+)$" % e, x[1])
                if m:
                    cv.add(m.group(1))
        cons[n] = cv
        refs[n] = {x[1] for x in walk(it["body"]) if x[0] == "path" and x[1] in ret_enum and ret_enum[x[1]] == e and x[1] != n}
    var = {n: set(v) for n, v in cons.items()}
    changed = True
    while changed:
        changed = False
        for n in var:
            for r in refs[n]:
                if not var.get(r, set()) <= var[n]:
                    var[n] |= var.get(r, set())
                    changed = True
    n_sites = 0
    for n, it in sorted(fns.items()):
        per = {}
        inits7 = _local_inits(it["body"])
        for mm in find(it["body"], "match"):
            arms = mm[2]
            wild = [a for a in arms if render_pat(a[0]) == "_" and a[1] is None]
            if not wild:
                continue
            wtxt = render(wild[0][2])
            if not re.search(r"panicking::|unreachable|todo!|unimplemented!|panic!", wtxt):
                continue
            scrut = _through_locals(mm[1], inits7)
            callee = [x[1] for x in walk(scrut) if x[0] == "path" and x[1] in ret_enum]
            if not callee:
                rep.note("panicking_wildcards_not_on_a_parser_result", "%s: match %s" % (n, render(mm[1])[:50]))
                continue
            q = callee[-1]
            e = ret_enum[q]
            handled = set()
            covers_all = False
            for a in arms:
                ptxt = render_pat(a[0])
                for m2 in re.finditer(r"\b%s::(\w+)" % e, ptxt):
                    handled.add(m2.group(1))
                if a[1] is None and ptxt != "_" and not re.search(r"\b%s::" % e, ptxt) and not ptxt.startswith("Err"):
                    covers_all = True          # e.g. `Ok(x) => x`: binds whatever the sub-parser returned
            if covers_all:
                rep.ok("C09-R7", "%s:match-%s:binds-all" % (n, q))
                n_sites += 1
                continue
            n_sites += 1
            per[q] = per.get(q, 0) + 1
            key = "%s:match-%s%s" % (n, q, ("#%d" % per[q]) if per[q] > 1 else "")
            missing = sorted(var.get(q, set()) - handled)
            rep.check(not missing, "C09-R7", key if not missing else key + ":" + ",".join(missing),
                      "%s(): `match %s` handles %s::{%s} and panics (`%s`) otherwise, but %s() can return %s::%s: that input panics the parser instead of producing an error report" % (
                          n, render(mm[1])[:40], e, ",".join(sorted(handled)), wtxt[:40], q, e, "/".join(missing)),
                      "%s (mech_syntax.lib, expanded line %s)" % (n, wild[0][3]), sample={"fn": n, "sub_parser": q, "can_return": sorted(var.get(q, ())), "handled": sorted(handled)})
    rep.floor("C09-R7", "panicking catch-all arms on sub-parser results", n_sites, 4)


def run_r8(F, rep):
    """C09-R8: every error the parser builds is located in the input"""
    from lib.facts import find, walk, is_node, path_of, render
    rep.rule("C09-R8", "error ranges: every ParseError the parser constructs takes its cause_range from the input position (ParseError::new / an input-derived range), never "
                       "SourceRange::default() (0:0, which lies outside every input and breaks the report renderer)")
    n = 0
    for it in F.syn("mech_syntax.lib"):
        if it["k"] not in ("fn", "method") or not it.get("body") or "formatter" in (it.get("mod") or ""):
            continue
        per = 0
        inits8 = _local_inits(it["body"])
        for s in find(it["body"], "struct"):
            if s[1].split("::")[-1] != "ParseError":
                continue
            n += 1
            for fname, fval in s[2]:
                if fname == "cause_range":
                    txt = render(_through_locals(fval, inits8)).replace(" ", "")
                    per += 1
                    bad = "SourceRange::default()" in txt or "Default::default()" in txt
                    rep.check(not bad, "C09-R8", "%s:cause_range#%d" % (it["name"], per),
                              "%s() builds a ParseError with cause_range = %s: if it reaches the report, the reported range 0:0 lies outside the input" % (it["name"], txt[:40]),
                              "%s (mech_syntax.lib, expanded line %s)" % (it["name"], it.get("line")), sample={"fn": it["name"], "cause_range": txt[:60]})
        located = sum(1 for c in find(it["body"], "call") if (path_of(c[1]) or "").endswith("ParseError::new"))
        if located:
            n += located
            rep.ok("C09-R8", "%s:ParseError::new" % it["name"], sample={"fn": it["name"], "located_constructions": located})
    rep.floor("C09-R8", "ParseError constructions examined (struct literals and ParseError::new calls)", n, 20)


def run_r9(F, rep):
    """C09-R9: the report renderer counts shown and remaining errors on the same list"""
    from lib.facts import find, walk, is_node, path_of, render
    rep.rule("C09-R9", "format_error: the number of errors not shown is `LIST.len() - n` where n = min(LIST.len(), K) over the SAME list (a count taken from another field, e.g. the source "
                       "text, underflows and panics for short inputs with several errors)")
    its = [it for it in F.syn("mech_syntax.lib") if it["k"] == "method" and it["name"] == "format_error"]
    if not rep.check(len(its) == 1, "C09-R9", "anchor:format_error", "TextFormatter::format_error not found"):
        return
    body = its[0]["body"]
    inits = _local_inits(body)

    def counted_list(e):
        """text of LIST in `LIST.len()` (seen through named locals) or None"""
        e = _through_locals(e, inits)
        if is_node(e) and e[0] == "mcall" and e[2] == "len" and not e[4]:
            return render(e[1]).replace(" ", "").lstrip("&")
        return None
    shown = {}
    for st in find(body, "let"):
        if len(st) == 4 and st[2] is not None and st[1][0] in ("pident", "ptype"):
            nm = st[1][1] if st[1][0] == "pident" else (st[1][1][1] if is_node(st[1][1]) and st[1][1][0] == "pident" else None)
            if nm is None:
                continue
            cands = []
            for c in find(st[2], "call"):          # usize::min(a, b) / cmp::min(a, b)
                if (path_of(c[1]) or "").split("::")[-1] == "min" and c[2]:
                    cands.append(list(c[2]))
            for c in find(st[2], "mcall"):         # a.min(b)
                if c[2] == "min" and len(c[4]) == 1:
                    cands.append([c[1], c[4][0]])
            for args in cands:
                lens = [x for x in (counted_list(a) for a in args) if x]
                if lens:
                    shown[nm] = lens[0]
    rep.floor("C09-R9", "shown-count definitions (n = min(list.len(), K))", len(shown), 1)
    n = 0
    subs = [(b, b[2], b[3]) for b in find(body, "bin") if b[1] == "-"]
    subs += [(m, m[1], m[4][0]) for m in find(body, "mcall") if m[2] in ("saturating_sub", "checked_sub", "wrapping_sub") and len(m[4]) == 1]
    for b, lhs_e, rhs_e in subs:
        rhs_e = rhs_e[1] if is_node(rhs_e) and rhs_e[0] == "paren" else rhs_e
        if is_node(rhs_e) and rhs_e[0] == "path" and rhs_e[1] in shown:
            n += 1
            lhs = counted_list(lhs_e)
            ok = lhs is not None and lhs == shown[rhs_e[1]]
            rep.check(ok, "C09-R9", "format_error:remaining-count",
                      "format_error computes the number of errors not shown as `%s`, but %s counts `%s`: the two lengths belong to different fields, so the subtraction underflows (panic) or reports a bogus count" % (
                          render(b)[:50], rhs_e[1], shown[rhs_e[1]]), "TextFormatter::format_error (mech_syntax.lib)", sample={"minuend": lhs, "shown_list": shown[rhs_e[1]]})
    rep.floor("C09-R9", "remaining-count subtractions", n, 1)


def run_r10(F, rep):
    """C09-R10: panicking element reads of the parser are behind a length guard"""
    from lib.facts import find, walk, is_node, path_of, render
    from lib import guards as G
    rep.rule("C09-R10", "element reads in the parser cannot be out of bounds: (a) every read of the grapheme under the cursor `V.graphemes[V.cursor]` happens only after "
                        "`V.is_empty()` was tested false on that path; (b) every constant-index read `X[k]` happens only where a guard on that path implies X.len() > k "
                        "(early-return `if X.len() != n`, enclosing `if X.len() >= n`, `match X.len()`, `!X.is_empty()`); reads with a computed index are listed, not decided")
    n_cur = n_const = n_other = 0
    for it in F.syn("mech_syntax.lib"):
        if it["k"] not in ("fn", "method") or not it.get("body") or "formatter" in (it.get("mod") or ""):
            continue
        n_key = defaultdict(int)
        inits10 = _local_inits(it["body"])
        # panics=True: `assert!(..)` / `if c { panic!() }` in expanded form (a call of core::panicking::*) ends a path like `return` does
        for ix, facts in G.sites(it["body"], "index", panics=True):
            base, idx = ix[1], ix[2]
            where = "%s::%s (mech_syntax.lib)" % (it.get("mod") or it.get("self") or "", it["name"])
            k = G._int(idx)
            if is_node(idx) and idx[0] == "range":
                n_other += 1
                continue
            idx = _through_locals(idx, inits10)       # `let at = s.cursor; s.graphemes[at]`
            if is_node(base) and base[0] == "field" and base[2] == "graphemes" and is_node(idx) and idx[0] == "field" and idx[2] == "cursor" and render(base[1]) == render(idx[1]):
                n_cur += 1
                ok = G.nonempty_ext(facts, base[1], inits10)
                rep.check(ok, "C09-R10", "cursor-read:%s" % it["name"] if ok else "cursor-read-unguarded:%s" % it["name"],
                          "%s reads %s with no `%s.is_empty()` test on the path: at end of input the parser panics with an index out of bounds instead of reporting an error" % (
                              it["name"], render(ix), render(base[1])), where)
                continue
            if k is not None:
                n_const += 1
                lb = G.len_lower_bound_ext(facts, base, inits10)
                ok = lb > k
                # key: function + index (+ occurrence), no local names
                n_key[k] += 1
                rep.check(ok, "C09-R10", "const-index:%s:[%d]%s" % (it["name"], k, "#%d" % n_key[k] if n_key[k] > 1 else "") + ("" if ok else ":len>=%d" % lb),
                          "%s reads %s where the guards on the path only imply %s.len() >= %d: an input that leaves the list shorter panics the parser (index out of bounds) instead of producing an error report" % (
                              it["name"], render(ix), render(base), lb), where, sample={"fn": it["name"], "read": render(ix), "len_lower_bound": lb})
                continue
            n_other += 1
    # (c) Option unwraps with a syntactic witness: `X.is_none() || .. X.unwrap()`, `if V.len() == 1 { V.pop().unwrap() }`
    n_unw = n_unw_other = 0
    for it in F.syn("mech_syntax.lib"):
        if it["k"] not in ("fn", "method") or not it.get("body") or "formatter" in (it.get("mod") or ""):
            continue
        n_key = defaultdict(int)
        # belief rule: what the author asserts (assert!, debug_assert!) counts as tested, and `A || B` with `!B` gives `A`
        for mc, facts in G.sites(it["body"], "mcall", panics=True, debug_asserts=True):
            if mc[2] not in ("unwrap", "expect"):
                continue
            recv = mc[1]
            while is_node(recv) and recv[0] == "mcall" and recv[2] in ("as_ref", "as_mut", "clone"):
                recv = recv[1]
            where = "%s::%s (mech_syntax.lib)" % (it.get("mod") or it.get("self") or "", it["name"])
            if is_node(recv) and recv[0] == "mcall" and recv[2] in ("pop", "last", "first", "last_mut", "first_mut") and not recv[4]:
                # belief rule: decided only where the function itself tests the length / emptiness of that list somewhere
                vtxt = re.sub(r"[\s&()*]", "", render(recv[1]))
                tested = any(x[0] == "mcall" and x[2] in ("len", "is_empty") and re.sub(r"[\s&()*]", "", render(x[1])) == vtxt for x in walk(it["body"]))
                if not tested:
                    n_unw_other += 1
                    continue
                n_unw += 1
                lb = G.len_lower_bound_ext(facts, recv[1], _local_inits(it["body"]))
                n_key[recv[2]] += 1
                rep.check(lb >= 1, "C09-R10", "unwrap:%s:%s()%s" % (it["name"], recv[2], "#%d" % n_key[recv[2]] if n_key[recv[2]] > 1 else "") + ("" if lb >= 1 else ":unguarded"),
                          "%s unwraps %s with no guard implying %s is non-empty on that path: the parser panics instead of reporting an error" % (it["name"], render(recv), render(recv[1])), where)
            elif is_node(recv) and recv[0] == "path" and any(
                    c[0] == "mcall" and c[2] in ("is_none", "is_some") and render(c[1]) == render(recv) for c, _ in G.atoms_closed(facts)) or (
                    is_node(recv) and recv[0] == "path" and any(isinstance(x, list) and x and x[0] == "mcall" and x[2] in ("is_none", "is_some") and render(x[1]) == render(recv)
                                                               for x in walk(it["body"]))):
                n_unw += 1
                ok = any(c[0] == "mcall" and render(c[1]) == render(recv) and ((c[2] == "is_none" and not pol) or (c[2] == "is_some" and pol)) for c, pol in G.atoms_closed(facts))
                n_key["option"] += 1
                rep.check(ok, "C09-R10", "unwrap:%s:option%s" % (it["name"], "#%d" % n_key["option"] if n_key["option"] > 1 else "") + ("" if ok else ":unguarded"),
                          "%s unwraps %s on a path where neither `%s.is_none()` was tested false nor `%s.is_some()` true, although the function tests it elsewhere: a None here panics the parser" % (
                              it["name"], render(recv), render(recv), render(recv)), where)
            else:
                n_unw_other += 1
    rep.note("C09-R10-unwraps", {"decided": n_unw, "not_decided (merge_tokens: C09-R4; grapheme.chars().next(); parse() result; report renderer tables)": n_unw_other})
    rep.note("C09-R10-not-decided", "%d element reads / slices with a computed index (cursor arithmetic, line tables) are not decided by this rule" % n_other)
    rep.floor("C09-R10", "cursor reads examined", n_cur, 100)
    rep.note("C09-R10-constant-index-reads", n_const)


def _empty_sum(e):
    """the value of an accumulation over the graphemes of an EMPTY line: `ITER.sum()` / `.count()` -> 0, `ITER.fold(init, ..)` -> init"""
    from lib.minieval import ev, NoEval
    if is_node(e) and e[0] == "mcall":
        if e[2] in ("sum", "count") and not e[4]:
            return 0
        if e[2] == "fold" and len(e[4]) == 2:
            return ev(e[4][0], {})
    raise NoEval("not an accumulation")


def _textlen_exits(stmts, env):
    """evaluate a `-> usize` body that looks a line up (Option) and adds up widths: returns ([values returned when the line is missing],
    value returned for a line without graphemes or None).  Raises NoEval for anything it cannot evaluate."""
    from lib.minieval import ev, NoEval
    env = dict(env)
    missing = []

    def none_arm(arms):
        for a in arms:
            pt = render_pat(a[0])
            if pt in ("None", "_") or pt.endswith("::None"):
                return a
        return None

    def value(e):
        """-> value of expression e for an empty line; appends to `missing`"""
        while is_node(e) and e[0] in ("paren",):
            e = e[1]
        if is_node(e) and e[0] in ("block", "unsafe"):
            m2, v = _textlen_exits(e[1], env)
            missing.extend(m2)
            return v
        if is_node(e) and e[0] == "match":
            na = none_arm(e[2])
            if na is not None and len(e[2]) == 2:
                other = [a for a in e[2] if a is not na][0]
                nb = na[2]
                if is_node(nb) and nb[0] == "ret":
                    missing.append(ev(nb[1], {}))
                else:
                    missing.append(value(nb))
                return value(other[2])
            raise NoEval("match")
        if is_node(e) and e[0] == "if" and is_node(e[1]) and e[1][0] == "letc" and e[3] is not None:
            missing.append(value(e[3]))
            return value(["block", e[2]])
        if is_node(e) and e[0] == "mcall" and e[2] == "map_or" and len(e[4]) == 2 and is_node(e[4][1]) and e[4][1][0] == "closure":
            missing.append(ev(e[4][0], {}))
            return value(e[4][1][2])
        if is_node(e) and e[0] == "mcall" and e[2] == "unwrap_or" and len(e[4]) == 1 and is_node(e[1]) and e[1][0] == "mcall" and e[1][2] == "map" and e[1][4] and e[1][4][0][0] == "closure":
            missing.append(ev(e[4][0], {}))
            return value(e[1][4][0][2])
        try:
            return ev(e, env)
        except NoEval:
            # `ITER.sum::<usize>() + 1` and the like
            if is_node(e) and e[0] == "bin" and e[1] in ("+", "-", "*"):
                a, b = value(e[2]), value(e[3])
                return {"+": a + b, "-": a - b, "*": a * b}[e[1]]
            return _empty_sum(e)

    result = None
    for i, st in enumerate(stmts):
        last = i == len(stmts) - 1
        if st[0] == "let":
            p = st[1]
            if is_node(p) and p[0] == "ptype":
                p = p[1]
            init = st[2]
            if len(st) > 3 and st[3] is not None:
                # let-else: the else block is what happens when the line is missing
                els = st[3]
                blk = els[1] if is_node(els) and els[0] in ("block", "unsafe") else [["expr", els, False]]
                rets = [r_ for r_ in find(blk, "ret") if r_[1] is not None]
                if len(rets) != 1:
                    raise NoEval("let-else")
                missing.append(ev(rets[0][1], {}))
                continue
            if is_node(init) and init[0] == "match" and none_arm(init[2]) is not None:
                nb = none_arm(init[2])[2]
                while is_node(nb) and nb[0] in ("block", "unsafe") and len(nb[1]) == 1 and nb[1][0][0] == "expr":
                    nb = nb[1][0][1]
                if is_node(nb) and nb[0] == "ret" and nb[1] is not None:
                    missing.append(ev(nb[1], {}))
                    continue
                raise NoEval("match-let")
            if is_node(p) and p[0] == "pident" and init is not None:
                try:
                    env[p[1]] = value(init)
                except NoEval:
                    pass
            continue
        if st[0] == "expr":
            e = st[1]
            if last and not (len(st) > 2 and st[2]):
                result = value(e)
            elif is_node(e) and e[0] == "ret" and e[1] is not None and last:
                result = value(e[1])
            elif is_node(e) and e[0] == "if" and e[3] is None:
                # `if <line missing> { return K }`
                rets = [r_ for r_ in find(e[2], "ret") if r_[1] is not None]
                if rets and is_node(e[1]) and any(True for m in find(e[1], "mcall") if m[2] in ("is_none", "is_some")) or (rets and is_node(e[1]) and e[1][0] == "letc"):
                    for r_ in rets:
                        missing.append(ev(r_[1], {}))
            # `for` loops over the (empty) grapheme range do not run; other statements are ignored
    return missing, result


def run_r11(F, rep):
    """C09-R11: the report renderer's line length counts columns the way the lexer does"""
    from lib.facts import find, walk, is_node, path_of, render
    from lib.minieval import ev, NoEval
    rep.rule("C09-R11", "column arithmetic of the error report agrees with the lexer's: the length the renderer assigns to an EMPTY line (its width accumulator at the initial value) equals "
                        "what it returns for a line beyond the text and equals the column the lexer gives the first grapheme of a line (SourceLocation col of ParseString::new) - the "
                        "renderer subtracts the current column from that length, so a length one short underflows (panics) on every report that touches an empty line")
    items = F.syn("mech_syntax.lib")
    tl = [it for it in items if it["k"] == "method" and it["name"] == "get_textlen_by_linenum" and it.get("body")]
    if not rep.check(len(tl) == 1, "C09-R11", "anchor:get_textlen_by_linenum", "TextFormatter::get_textlen_by_linenum not found (%d)" % len(tl)):
        return
    body = tl[0]["body"]
    # the function in any of its equivalent shapes (statement form with an early `return K`, let-else, a tail `match`/`if let` on the
    # line range, `map_or(K, |..| ..)`, the width sum as a `for` accumulator or as an iterator `.sum()`): see _textlen_exits
    try:
        missing, empty = _textlen_exits(body, {})
    except NoEval as e:
        rep.bad("C09-R11", "undecided:get_textlen_by_linenum", "exit values not evaluable (%s)" % e, "get_textlen_by_linenum (mech_syntax.lib)")
        return
    ok_shape = len(missing) >= 1 and len(set(missing)) == 1 and empty is not None
    if not rep.check(ok_shape, "C09-R11", "anchor:two-exits", "get_textlen_by_linenum no longer has the (missing line => constant, line => accumulated width) shape"):
        return
    k_missing, k_empty = missing[0], empty
    init_col = None
    for it in items:
        if it["k"] == "method" and it["name"] == "new" and "ParseString" in (it.get("self") or "") and it.get("body"):
            for s_ in find(it["body"], "struct"):
                if s_[1].split("::")[-1] == "SourceLocation":
                    for f in s_[2]:
                        if f[0] == "col":
                            try:
                                init_col = ev(f[1], {})
                            except NoEval:
                                pass
    ok = k_missing == k_empty and (init_col is None or k_empty == init_col)
    rep.check(ok, "C09-R11", "textlen:empty-line=missing-line=first-column" if ok else "textlen:empty-line-%s:missing-line-%s:first-column-%s" % (k_empty, k_missing, init_col),
              "get_textlen_by_linenum gives an empty line the length %s, a missing line %s, and the lexer's first column is %s: they must agree (the length is the column just past the "
              "line's text); err_context computes `line_len - curr_col + 1` with curr_col starting at that first column" % (k_empty, k_missing, init_col),
              "TextFormatter::get_textlen_by_linenum (mech_syntax.lib)", sample={"empty_line": k_empty, "missing_line": k_missing, "first_column": init_col})
    rep.floor("C09-R11", "lexer start column found", 1 if init_col is not None else 0, 1)
