"""C10 — literate documents: prose arms are inert, disabled fences never run, named fences run in their own fresh interpreter
with error isolation, document order, and a code fence is closed only by the sigil that opened it."""
import re
from collections import defaultdict
from lib.facts import CallGraph, find, walk, is_node, path_of, render, render_stmt, render_pat, fns_in_type, strip_refs
from lib.mirq import Slice

TECHNIQUE = ("per-arm call classification of section_element()/paragraph_element() against a partition of the SectionElement variants (executing / inline "
             "carrier / inert) read from the expanded syntax; statement-order rules for the disabled test and the namespace branch; provenance of the "
             "interpreter handed to the fence evaluator; error-isolation shape of eval_fenced_code_block; MIR provenance of the closing-fence parser in code_block")
EXPLANATION = (
    "Decides structural clauses of C10: (R1) in section_element() the arms of prose variants only hash their node (no evaluator, no symbol access); inline "
    "carriers (paragraph, comment, table, figure table) reach only paragraph_element(), which evaluates only inline-eval code; a new SectionElement variant "
    "must be classified; (R2) in the fenced-code arm the `disabled` test is the first statement and returns before any evaluation; (R3) namespace 0 runs in "
    "the parent with isolation off, any other namespace runs in the sub-interpreter stored under that id, created by Interpreter::new with only the function "
    "table copied, with isolation on; (R4) in eval_fenced_code_block every Err return is preceded by the isolate_errors return; (R5) sections and elements "
    "are visited in forward order; (R6) in the parser a code fence is terminated by the same sigil parser that opened it (the terminator and the body "
    "look-ahead derive from the opening parse), and the sigil selector maps each token kind to the parser that produces that kind. "
    "Not decided: the parser's classification of arbitrary paragraph shapes as prose or code."
    ' (R7) the namespace id of a fence is hash_str of the whole fence name, only the fixed prefix stripped (no splitting, truncation or folding).'
    " (R8) every path from FunctionScope::enter to a return restores the caller's scope (an error inside a user function called from a named fence or an inline expression must not leave the interpreter on the function's local tables)."
    ' (R9) a comment extends exactly to the end of its line: the consumer comment() applies after the sigil stops at new_line and at nothing else.'
)

EXEC = {"MechCode", "FencedMechCode", "Mika", "Float"}
INLINE = {"Comment", "Paragraph", "Table", "FigureTable"}
INERT = {"Prompt", "InfoBlock", "QuestionBlock", "WarningBlock", "ErrorBlock", "IdeaBlock", "Image", "Citation", "Equation", "Abstract", "Diagram", "Subtitle",
         "CodeBlock", "Footnote", "Grammar", "QuoteBlock", "ThematicBreak", "List", "SuccessBlock", "Error"}
EVAL_FNS = re.compile(r"^(mech_code|section_element|eval_fenced_code_block|comment|paragraph_element|section|statement|expression|program|body|interpret|function_define|variable_define|subscript|formula)$")


def called(node):
    out = set()
    for c in find(node, "call"):
        p = path_of(c[1])
        if p:
            out.add(p.split("::")[-1])
    for m in find(node, "mcall"):
        out.add("." + m[2])
    return out


# ---- roles are recognised by signature position/type, pattern bindings and provenance - never by the spelling of a local
def params_of_type(it, type_name):
    """names of the parameters of fn item `it` whose declared type is `type_name` behind any number of `&` / `&mut` / lifetimes (a role by TYPE, not by spelling)"""
    out = []
    for pat, ty in it.get("sig", {}).get("inputs", []):
        core = re.sub(r"&|'\w+\s|\bmut\s|\s", "", str(ty) + " ").strip()
        if core == type_name and is_node(pat) and pat[0] == "pident":
            out.append(pat[1])
    return out


def var_of(e):
    """the variable an expression denotes after stripping references, dereferences and parentheses; None if it is not a plain variable"""
    e = strip_refs(e)
    while is_node(e) and e[0] == "paren":
        e = strip_refs(e[1])
    return path_of(e)


def let_defs(stmts, deep=True):
    """local name -> initialiser AST for every `let` binding below `stmts` (tuple patterns bind each of their names to the whole initialiser)"""
    out = {}
    for st in (find(stmts, "let") if deep else [s for s in stmts if s[0] == "let"]):
        if len(st) == 4 and st[2] is not None:
            for pi in find(st[1], "pident"):
                out[pi[1]] = st[2]
    return out


TRANSPARENT = {"borrow_mut", "borrow", "as_mut", "as_ref", "clone", "lock", "unwrap", "deref", "deref_mut"}


def field_origin(e, defs, depth=0):
    """provenance of a value: follow local aliases (`let a = <e>`), references, parentheses and access-only method calls (borrow_mut, as_mut, ..) down to a
    field chain; returns (root variable, [field names]) - e.g. `let m = p.sub_interpreters.borrow_mut(); m` -> ("p", ["sub_interpreters"]) - or None"""
    fields = []
    while depth < 16 and is_node(e):
        depth += 1
        e = strip_refs(e)
        if not is_node(e):
            return None
        if e[0] == "paren":
            e = e[1]
        elif e[0] == "mcall" and e[2] in TRANSPARENT and not e[4]:
            e = e[1]
        elif e[0] == "try":
            e = e[1]
        elif e[0] == "field":
            fields.insert(0, e[2])
            e = e[1]
        elif e[0] == "path":
            if e[1] in defs and not fields and "::" not in e[1]:
                e = defs[e[1]]
            elif e[1] in defs and "::" not in e[1]:
                sub = field_origin(defs[e[1]], defs, depth)
                return (sub[0], sub[1] + fields) if sub else (e[1], fields)
            else:
                return (e[1], fields)
        else:
            return None
    return None


def applied_ops(e, defs, body, depth=0, seen=None):
    """names of the methods, functions and macros applied while computing `e`, following the locals it mentions to their initialisers and to the method calls
    made on them anywhere in `body` (so `let v = ..; v.sort(); for s in v` is seen as sorted whatever `v` is called)"""
    seen = set() if seen is None else seen
    ops = [mc[2] for mc in find(e, "mcall")] + [path_of(c[1]).split("::")[-1] for c in find(e, "call") if path_of(c[1])] + [m_[1] for m_ in find(e, "macro")]
    if depth > 6:
        return ops
    for n in find(e, "path"):
        v = n[1]
        if v in defs and v not in seen and "::" not in v:
            seen.add(v)
            ops += applied_ops(defs[v], defs, body, depth + 1, seen)
            ops += [mc[2] for mc in find(body, "mcall") if var_of(mc[1]) == v]
    return ops


def run(F, rep, tier):
    crate = "mech_interpreter.lib"
    items = F.syn(crate)
    rep.rule("C10-R1", "prose arms inert; inline carriers reach only paragraph_element; variants classified")
    rep.rule("C10-R2", "disabled test first in the fenced-code arm")
    rep.rule("C10-R3", "namespace 0 -> parent, isolation off; other -> sub-interpreter of that id (fresh, functions only), isolation on")
    rep.rule("C10-R4", "eval_fenced_code_block: every Err return is behind the isolate_errors return")
    rep.rule("C10-R5", "forward document order")
    rep.rule("C10-R6", "a code fence is closed by the sigil that opened it")
    se = [it for it in items if it["k"] == "fn" and it["name"] == "section_element" and it["mod"].endswith("mechdown")]
    if not rep.check(len(se) == 1, "C10-R1", "anchor:section_element", "section_element not found"):
        return
    se = se[0]
    # the element is the parameter of type &SectionElement, the parent interpreter the parameter of type &Interpreter - whatever they are called
    elem_params = params_of_type(se, "SectionElement")
    parent = set(params_of_type(se, "Interpreter"))
    m = [x for x in find(se["body"], "match") if var_of(x[1]) in elem_params and any(a[0][0] in ("pts", "ppath") and a[0][1].startswith("SectionElement::") for a in x[2])]
    if not rep.check(len(m) >= 1, "C10-R1", "anchor:match-element", "section_element has no match on the element"):
        return
    arms = {}
    for arm in m[0][2]:
        p = arm[0]
        if p[0] in ("pts", "ppath") and p[1].startswith("SectionElement::"):
            arms.setdefault(p[1].split("::")[-1], []).append(arm)
    # variants of the enum
    variants = []
    for a in F.adts("mech_core.lib"):
        if a["name"].endswith("nodes::SectionElement") and a["enum"]:
            variants = [v["name"] for v in a["variants"]]
    rep.floor("C10-R1", "SectionElement variants", len(variants), 25)
    for v in variants:
        rep.check(v in EXEC or v in INLINE or v in INERT, "C10-R1", "classified:%s" % v, "SectionElement::%s is not classified as executing / inline carrier / inert in rules/c10.py" % v)
    for v, al in sorted(arms.items()):
        for arm in al:
            cs = called(arm[2])
            ev = sorted(c for c in cs if EVAL_FNS.match(c))
            if v in INERT:
                rep.check(not ev and not any(c in (".insert", ".borrow_mut", ".symbols", ".save_symbol") for c in cs), "C10-R1", "inert:%s" % v,
                          "the arm for SectionElement::%s (prose) calls %s: prose would change interpreter state" % (v, ev or sorted(cs)), "src/interpreter/src/mechdown.rs (expanded line %d)" % arm[3],
                          sample={"variant": v, "calls": sorted(cs)})
            elif v in INLINE:
                rep.check(set(ev) <= {"paragraph_element"}, "C10-R1", "inline-carrier:%s" % v,
                          "the arm for SectionElement::%s evaluates through %s; inline carriers may only reach paragraph_element" % (v, ev), "expanded line %d" % arm[3])
    for v in INERT | INLINE:
        if v in variants and v not in arms:
            rep.note("variant_without_arm", v)
    pe = [it for it in items if it["k"] == "fn" and it["name"] == "paragraph_element" and it["mod"].endswith("mechdown")]
    if rep.check(len(pe) == 1, "C10-R1", "anchor:paragraph_element", "paragraph_element not found"):
        pelem = params_of_type(pe[0], "ParagraphElement")
        n_pm = 0
        for mm in find(pe[0]["body"], "match"):
            if var_of(mm[1]) not in pelem:
                continue
            n_pm += 1
            for arm in mm[2]:
                p = arm[0]
                if p[0] in ("pts", "ppath") and p[1].startswith("ParagraphElement::"):
                    v = p[1].split("::")[-1]
                    ev = sorted(c for c in called(arm[2]) if EVAL_FNS.match(c))
                    if "Eval" not in v:
                        rep.check(not ev, "C10-R1", "paragraph:%s" % v, "ParagraphElement::%s (prose) evaluates through %s" % (v, ev), "expanded line %d" % arm[3])
        rep.floor("C10-R1", "paragraph_element matches on its ParagraphElement parameter", n_pm, 1)
    # R2/R3 fenced arm
    fa = arms.get("FencedMechCode", [])
    if rep.check(len(fa) == 1, "C10-R2", "anchor:fenced-arm", "FencedMechCode arm not found"):
        body = fa[0][2][1] if fa[0][2][0] == "block" else []
        first = body[0] if body else None
        # the fence is whatever the arm's pattern binds; its fields (config.disabled, config.namespace, code) are struct fields and keep their names
        fence = {pi[1] for pi in find(fa[0][0], "pident")}
        body_defs = let_defs(body, deep=False)

        def reads_fence_field(e, field):
            """some sub-expression of e is `<fence>...<field>` (the field chain is rooted at the arm's binding, directly or through a local alias)"""
            for n in walk(e):
                if n[0] in ("field", "path"):
                    o = field_origin(n, body_defs)
                    if o and o[0] in fence and o[1] and o[1][-1] == field:
                        return True
            return False
        ok = first is not None and first[0] == "expr" and is_node(first[1]) and first[1][0] == "if" and reads_fence_field(first[1][1], "disabled") and \
            not re.search(r"^!|==false|!=true", render(first[1][1]).replace(" ", "")) and \
            any(r[0] == "ret" for r in find(first[1][2], "ret")) and not any(EVAL_FNS.match(c) for c in called(first[1][2]))
        rep.check(bool(ok), "C10-R2", "disabled-test-first", "the fenced-code arm does not start with `if <fence>.config.disabled { return .. }`: a disabled fence can run", sample={"first_statement": render_stmt(first)[:100] if first else None})
        # namespace branch
        ifs = [st[1] for st in body if st[0] == "expr" and is_node(st[1]) and st[1][0] == "if" and re.search(r"==0|== 0", render(st[1][1]))]
        if rep.check(len(ifs) == 1 and ifs[0][3] is not None, "C10-R3", "namespace-branch", "no `if namespace == 0 {..} else {..}` branch in the fenced-code arm"):
            nz = ifs[0]
            cond = nz[1]
            while is_node(cond) and cond[0] == "paren":
                cond = cond[1]
            cond_e = None
            if is_node(cond) and cond[0] == "bin" and cond[1] == "==":
                zero = [x for x in (cond[2], cond[3]) if is_node(x) and x[0] == "int" and re.match(r"0(_?[ui]\d+|usize|isize)?$", str(x[1]))]
                if len(zero) == 1:
                    cond_e = cond[3] if zero[0] is cond[2] else cond[2]
            cond_var = render(cond_e).strip("() ") if cond_e is not None else re.sub(r"\s*==\s*0", "", render(nz[1])).strip("() ")
            # the id derives from <fence>.config.namespace: by provenance (alias map of the arm's lets), not by the spelling of the local that holds it
            org = field_origin(cond_e, body_defs) if cond_e is not None else None
            rep.check(org is not None and org[0] in fence and org[1][-1:] == ["namespace"], "C10-R3", "namespace-id-source", "the fence id tested (%s) is not the block's namespace" % cond_var)
            zero_calls = [c for c in find(nz[2], "call") if path_of(c[1]) == "eval_fenced_code_block"]
            other = nz[3][1] if nz[3][0] == "block" else []
            other_calls = [c for c in find(other, "call") if path_of(c[1]) == "eval_fenced_code_block"]
            # "the parent" is the &Interpreter parameter of section_element (by type), whatever it is called
            ok0 = len(zero_calls) == 1 and len(zero_calls[0][2]) == 3 and var_of(zero_calls[0][2][1]) in parent and render(zero_calls[0][2][2]) == "false"
            rep.check(ok0, "C10-R3", "unnamed-runs-in-parent", "an unnamed fence is not evaluated in the parent interpreter with isolation off: %s" % [render(c)[:80] for c in zero_calls])
            ok1 = len(other_calls) == 1 and len(other_calls[0][2]) == 3 and render(other_calls[0][2][2]) == "true" and var_of(other_calls[0][2][1]) is not None and var_of(other_calls[0][2][1]) not in parent
            rep.check(ok1, "C10-R3", "named-runs-isolated", "a named fence is not evaluated with error isolation in an interpreter other than the parent: %s" % [render(c)[:80] for c in other_calls])
            if other_calls:
                ivar = var_of(other_calls[0][2][1]) or render(other_calls[0][2][1])
                odefs = let_defs(other)
                src = render(odefs.get(ivar)) if ivar in odefs else ""
                # the map that is indexed: the receiver of `.entry(<id>)` must be, by provenance, the field `sub_interpreters` of the parent interpreter
                entries = [mc for mc in find(odefs.get(ivar), "mcall") if mc[2] == "entry" and len(mc[4]) == 1 and re.sub(r"\s", "", render(mc[4][0])) == re.sub(r"\s", "", cond_var)]
                maps = [field_origin(mc[1], odefs) for mc in entries]
                rep.check(len(entries) >= 1 and all(o is not None and o[0] in parent and o[1] == ["sub_interpreters"] for o in maps), "C10-R3", "named-interpreter-keyed-by-namespace",
                          "the interpreter for a named fence (`%s`) is not the sub_interpreters entry of that namespace id: %s" % (ivar, src[:120]), sample={"interpreter": src[:100]})
                # the inserted default: Interpreter::new(id) with only set_functions applied
                m_ins = re.search(r"or_insert\(Box::new\((\w+)\)\)", src)
                if rep.check(m_ins is not None, "C10-R3", "named-interpreter-default", "cannot find the default sub-interpreter"):
                    nv = m_ins.group(1)
                    init = render(odefs.get(nv)) if nv in odefs else ""
                    rep.check(re.match(r"Interpreter::new\(%s\)" % re.escape(cond_var), init) is not None, "C10-R3", "named-interpreter-fresh", "the sub-interpreter is not created with Interpreter::new(<namespace>): %s" % init[:80])
                    muts = [mc for mc in find(other, "mcall") if path_of(mc[1]) == nv]
                    rep.check({mc[2] for mc in muts} <= {"set_functions"}, "C10-R3", "named-interpreter-shares-functions-only",
                              "the fresh sub-interpreter is given more than the function table: %s" % sorted({mc[2] for mc in muts}))
    # R4
    ef = [it for it in items if it["k"] == "fn" and it["name"] == "eval_fenced_code_block"]
    if rep.check(len(ef) == 1, "C10-R4", "anchor:eval_fenced_code_block", "eval_fenced_code_block not found"):
        n_err = 0
        # the isolation switch is the bool parameter of eval_fenced_code_block (by type), whatever it is called
        iso = set(params_of_type(ef[0], "bool"))
        rep.check(len(iso) == 1, "C10-R4", "anchor:isolation-flag", "eval_fenced_code_block does not take exactly one bool (the isolate-errors switch): %s" % sorted(iso))
        for blk in [n for n in walk(ef[0]["body"]) if n[0] in ("block",)] + [["block", ef[0]["body"]]]:
            stmts = blk[1]
            for i, st in enumerate(stmts):
                if st[0] == "expr" and is_node(st[1]) and st[1][0] == "ret" and "Err(" in render(st[1]):
                    n_err += 1
                    prev = stmts[:i]
                    ok = any(p_[0] == "expr" and is_node(p_[1]) and p_[1][0] == "if" and path_of(p_[1][1]) in iso and any(True for _ in find(p_[1][2], "ret")) for p_ in prev)
                    rep.check(ok, "C10-R4", "err-return-behind-isolation", "eval_fenced_code_block returns an Err that is not preceded by `if <the bool isolation parameter> { return Ok(..) }`: an error in a named fence stops the document")
        rep.floor("C10-R4", "Err returns in eval_fenced_code_block", n_err, 2)
        rep.check(not any("?" == render(t)[-1:] for t in find(ef[0]["body"], "try")), "C10-R4", "no-question-mark", "eval_fenced_code_block propagates an error with `?` (bypasses isolation)")
    # R5 order
    for fn in ("section", "body", "program"):
        it = [x for x in items if x["k"] == "fn" and x["name"] == fn and x["mod"].endswith("mechdown")]
        for x in it:
            for f in find(x["body"], "for"):
                # reordering is recognised by the METHODS / FUNCTIONS / MACROS applied to the iterated collection (rev, sort*, sorted..), not by a substring of the
                # rendered text (a parameter or local that happens to be called `sorted_sections` or `prev` reorders nothing)
                ops = applied_ops(f[2], let_defs(x["body"]), x["body"])
                rep.check(not any(o in ("rev", "reverse") or "sort" in o or "shuffle" in o for o in ops), "C10-R5", "%s:forward" % fn, "%s visits its children as `%s`" % (fn, render(f[2])))
    # R6 parser side
    sb = {b.fn.split("::")[-1]: b for b in F.bodies("mech_syntax.lib") if "::mechdown::" in b.fn and b.fn.split("::")[-1] in ("code_block", "codeblock_sigil", "grave_codeblock_sigil", "tilde_codeblock_sigil")}
    if rep.check("code_block" in sb and "codeblock_sigil" in sb, "C10-R6", "anchor:code_block", "code_block / codeblock_sigil not found in mech_syntax"):
        b = sb["code_block"]
        sl = Slice(b)
        opening = [i for i, t in b.calls() if any("codeblock_sigil" in f for g in t.get("ga", []) for f in fns_in_type(g)) and (t.get("f") or t["tf"]).endswith("{closure#0}")]
        sig_mentions = 0
        for i, t in b.calls():
            for g in t.get("ga", []):
                sig_mentions += sum(1 for f in fns_in_type(g) if re.search(r"codeblock_sigil$", f))
            for a in t["args"]:
                if isinstance(a, dict) and "fn" in a:
                    sig_mentions += sum(1 for f in fns_in_type(a["fn"]) if re.search(r"codeblock_sigil$", f))
            if re.search(r"codeblock_sigil$", t.get("f") or t["tf"]):
                sig_mentions += 10
        if rep.check(len(opening) >= 1, "C10-R6", "opening-sigil-parse", "code_block does not parse an opening sigil", b.where()):
            o = opening[0]
            term = [(i, t) for i, t in b.calls() if t["tf"] == "<fnptr>"]
            ok_t = any({r for r in sl.roots(t["fp"]) if r[0] == "call"} == {("call", (b.blocks[o]["t"].get("f") or b.blocks[o]["t"]["tf"]), o)} for i, t in term)
            rep.check(ok_t, "C10-R6", "terminator-is-opening-sigil", "the parser that ends a code fence does not derive from the sigil that opened it: a ``` fence can be closed by ~~~ (and vice versa), so fenced text can escape and run as code", b.where(),
                      sample={"opening_call_block": o, "fnptr_calls": [t["l"] for i, t in term]})
            isn = [(i, t) for i, t in b.calls() if (t.get("f") or t["tf"]).endswith("parser::is_not")]
            good = [t for i, t in isn if any(r == ("call", (b.blocks[o]["t"].get("f") or b.blocks[o]["t"]["tf"]), o) for a in t["args"] for r in sl.roots(a))]
            rep.check(len(good) >= 1, "C10-R6", "body-lookahead-is-opening-sigil", "the body scan of a code fence does not stop at the opening sigil only", b.where())
        s2 = sb["codeblock_sigil"]
        # selector: token kind -> parser producing that kind (syn)
        syn_items = F.syn("mech_syntax.lib")
        sel = [it for it in syn_items if it["k"] == "fn" and it["name"] == "codeblock_sigil"]
        if sel:
            pairs = []
            for mm in find(sel[0]["body"], "match"):
                for arm in mm[2]:
                    if arm[0][0] == "ppath" and arm[0][1].startswith("TokenKind::") and path_of(arm[2]):
                        pairs.append((arm[0][1].split("::")[-1], path_of(arm[2])))
            rep.floor("C10-R6", "sigil selector arms", len(pairs), 2)
            for kind, fn in pairs:
                fb = [x for x in F.bodies("mech_syntax.lib") if x.fn.endswith("::" + fn)]
                produced = set()
                for x in fb:
                    for i, s in x.aggs():
                        if s["adt"].endswith("TokenKind"):
                            produced.add(s["var"])
                    for i, st in x.stmts():
                        for o_ in st.get("src", []):
                            if isinstance(o_, dict) and "TokenKind::" in str(o_.get("c", "")):
                                produced.add(str(o_["c"]).split("::")[-1])
                if produced:
                    rep.check(kind in produced, "C10-R6", "selector:%s" % kind, "codeblock_sigil maps TokenKind::%s to %s, which produces %s" % (kind, fn, sorted(produced)))
    # ---- R7: the namespace id is the hash of the WHOLE fence name
    rep.rule("C10-R7", "code_block: the namespace id is hash_str of the fence name with only the fixed `mech`/`mec`/robot prefix and `:` stripped - no splitting, truncation or case folding (two different names would share a namespace)")
    INJECTIVE = {"trim_start_matches", "to_string", "as_str", "clone", "to_owned", "as_ref", "borrow"}
    cb = [it for it in F.syn("mech_syntax.lib") if it["k"] == "fn" and it["name"] == "code_block"]
    if rep.check(len(cb) == 1, "C10-R7", "anchor:code_block-syn", "code_block not found in the syntax tree dump"):
        body = cb[0]["body"]
        configs = [s for s in find(body, "struct") if s[1].split("::")[-1] == "BlockConfig"]
        ns = []
        for s in configs:
            for fname, fval in s[2]:
                if fname == "namespace" and any(path_of(c[1]) and path_of(c[1]).split("::")[-1] == "hash_str" for c in find(fval, "call")):
                    for c in find(fval, "call"):
                        if path_of(c[1]) and path_of(c[1]).split("::")[-1] == "hash_str" and c[2]:
                            ns.append(c[2][0])
        rep.floor("C10-R7", "BlockConfig constructions hashing a name", len(ns), 1)
        lets = {}
        for st in find(body, "let"):
            if len(st) == 4 and st[2] is not None and st[1][0] == "pident":
                lets.setdefault(st[1][1], []).append(st[2])
        for arg in ns:
            base = arg
            while is_node(base) and base[0] in ("ref", "paren"):
                base = base[2] if base[0] == "ref" else base[1]
            name = path_of(base)
            chain_bad = []
            seen_defs = 0

            def chain(e, depth=0):
                nonlocal seen_defs
                if depth > 12 or not is_node(e):
                    return
                if e[0] == "mcall":
                    if e[2] not in INJECTIVE:
                        chain_bad.append(e[2])
                    elif e[2] in ("trim_start_matches", "strip_prefix", "trim_start_matches") and not (e[4] and is_node(e[4][0]) and e[4][0][0] == "str"):
                        # only a fixed prefix STRING may be stripped: a character set / slice / closure pattern keeps eating into the name (`c1`, `h1`, `m1` all become `1`)
                        chain_bad.append("%s(%s)" % (e[2], "char-set" if e[4] else ""))
                    chain(e[1], depth + 1)
                elif e[0] in ("ref", "paren", "try"):
                    chain(e[2] if e[0] == "ref" else e[1], depth + 1)
                elif e[0] == "path":
                    for d in lets.get(e[1], []):
                        seen_defs += 1
                        chain(d, depth + 1)
                elif e[0] in ("call", "index", "field", "if", "match", "block", "macro"):
                    # label without local spellings (it becomes part of the violation key): the construct kind plus the callee / field / macro name
                    lab = e[0]
                    if e[0] == "call" and path_of(e[1]):
                        lab = "call:" + path_of(e[1]).split("::")[-1]
                    elif e[0] == "field":
                        lab = "field:" + str(e[2])
                    elif e[0] == "macro":
                        lab = "macro:" + str(e[1])
                    chain_bad.append(lab)
            chain(arg)
            rep.check(not chain_bad and seen_defs >= 1, "C10-R7", "namespace-is-hash-of-whole-name" if not chain_bad else "namespace-derivation:%s" % ",".join(sorted(set(chain_bad)))[:60],
                      "code_block computes the namespace id from `%s`, which is derived from the fence tag through %s: names that differ only in the discarded part share one namespace" % (render(arg)[:30], sorted(set(chain_bad))),
                      "code_block (mech_syntax.lib)", sample={"hashed": render(arg), "definitions_followed": seen_defs})
    from rules.loopshape import scope_restored_on_every_exit
    scope_restored_on_every_exit(F, rep, "C10-R8")
    run_r9(F, rep)


def _stop_set(it):
    """names of the parsers a `many0((is_not(S), any_token))` consumer stops at; None if the function is not of that shape"""
    stops = []
    for c in find(it["body"], "call"):
        f = path_of(c[1])
        if f and f.split("::")[-1] == "is_not" and c[2]:
            arg = c[2][0]
            names = set()
            for n in walk(arg):
                if n[0] == "path" and n[1].split("::")[-1] not in ("alt",):
                    names.add(n[1].split("::")[-1])
                elif n[0] == "call" and path_of(n[1]) and path_of(n[1]).split("::")[-1] == "tag" and n[2] and n[2][0][0] == "str":
                    names.add(repr(n[2][0][1]))
            stops.append(names)
    return stops


def run_r9(F, rep):
    rep.rule("C10-R9", "a comment extends to the end of its line and no further: the consumer comment() applies right after comment_sigil skips tokens until new_line and "
                      "stops at nothing else (a `;` or any other earlier stop hands the rest of the comment to the code parser, which runs it; a later stop swallows the next line)")
    from lib.grammar import Grammar
    G = Grammar(F.syn("mech_syntax.lib"))
    sk = G.skeleton("comment")
    if not rep.check(sk is not None and len(sk.steps) >= 2, "C10-R9", "anchor:comment-skeleton", "parser comment() not found or not a step sequence"):
        return
    names = [t[1] if t[0] == "nt" else None for _, t, _ in sk.steps]
    sig = [i for i, (vs, t, _) in enumerate(sk.steps) if t == ("nt", "comment_sigil")]
    if not rep.check(len(sig) == 1 and sig[0] + 1 < len(sk.steps), "C10-R9", "anchor:comment-sigil-step", "comment() does not apply comment_sigil followed by a body consumer: %s" % names):
        return
    body_t = sk.steps[sig[0] + 1][1]
    rep.check(len(sk.steps) == sig[0] + 2 and sk.straight, "C10-R9", "comment:single-body-consumer",
              "comment() applies further consuming parsers to the program text after its body consumer (%s): the comment no longer ends where its line ends" % names, "comment (mech_syntax.lib)")
    if not rep.check(body_t[0] == "nt" and body_t[1] in G.fns, "C10-R9", "anchor:comment-body-consumer", "the body consumer of comment() is not a named parser: %s" % (body_t,)):
        return
    it = G.fns[body_t[1]]
    stops = _stop_set(it)
    ok = len(stops) == 1 and stops[0] == {"new_line"}
    rep.check(ok, "C10-R9", "comment-body-stops-at:%s" % ("new_line" if ok else "+".join(sorted(set().union(*stops))) if stops else "nothing"),
              "comment() reads its text with %s, which stops at %s instead of exactly new_line: text after the first other stop token inside a comment is parsed (and evaluated) as code, or the comment runs past its line" % (
                  body_t[1], [sorted(s) for s in stops]), "comment (mech_syntax.lib)", sample={"consumer": body_t[1], "stops": [sorted(s) for s in stops]})
    # the consumer is a pure token skipper: one many0 over (is_not(stop), any_token)
    sk2 = G.skeleton(body_t[1])
    rep.check(sk2 is not None and len(sk2.steps) == 1 and sk2.steps[0][1][0] == "star", "C10-R9", "comment-body-consumer-shape",
              "%s is not a single many0((is_not(stop), any_token)) loop: %s" % (body_t[1], [s[1] for s in (sk2.steps if sk2 else [])]), "%s (mech_syntax.lib)" % body_t[1])
    rep.floor("C10-R9", "comment body consumers analysed", 1 if stops else 0, 1)
