"""C10 — literate documents: prose arms are inert, disabled fences never run, named fences run in their own fresh interpreter
with error isolation, document order, and a code fence is closed only by the sigil that opened it."""
import re
from collections import defaultdict
from lib.facts import CallGraph, find, walk, is_node, path_of, render, render_stmt, render_pat, fns_in_type, strip_refs
from lib.mirq import Slice
from lib.synflow import Inliner, GuardWalk, DEAD, origin, resolve_value, value_closure, const_table, int_value, bool_value, called, let_defs, binders, is_inlined, tail_of, discriminations
from lib.synflow import narrow as narrow_

TECHNIQUE = ("per-arm call classification of section_element()/paragraph_element() against a partition of the SectionElement variants (executing / inline "
             "carrier / inert) read from the expanded syntax, on the INLINED view of each function (calls to private helpers of the crate replaced by their bodies, "
             "lib/synflow.Inliner); guard tracking (lib/synflow.GuardWalk: what is known about one predicate - fence disabled / namespace is 0 / isolation flag - at every "
             "evaluator call, fence evaluation and Err exit, whatever the spelling of the test); provenance of the interpreter handed to the fence evaluator; "
             "MIR provenance of the closing-fence parser in code_block; line grammar of the document parser (lib/linegram.py: recognisers as item sequences classified by the "
             "literal sets of the leaf token parsers, FIRST literals of the code parser, pre-emption sets by source order of parser applications; lead paths of operator parsers - the blank "
             "parsers consumed before the first token, alternatives and helpers looked through - against the literal alphabet of those blanks and the sigils of the prose recognisers)")
EXPLANATION = (
    "Decides structural clauses of C10: (R1) in section_element() the arms of prose variants only hash their node (no evaluator, no symbol access); inline "
    "carriers (paragraph, comment, table, figure table) reach only paragraph_element(), which evaluates only inline-eval code; a new SectionElement variant "
    "must be classified; (R2) in the fenced-code arm every evaluator call sits where `disabled` is known to be false (the test returns before any evaluation); (R3) namespace 0 runs in "
    "the parent with isolation off, any other namespace runs in the sub-interpreter stored under that id, created by Interpreter::new with only the function "
    "table copied, with isolation on; (R4) in eval_fenced_code_block (and the helpers its exits go through) every Err exit sits where isolate_errors is known to be false; (R5) sections and elements "
    "are visited in forward order; (R6) in the parser a code fence is terminated by the same sigil parser that opened it (the terminator and the body "
    "look-ahead derive from the opening parse), and the sigil selector maps each token kind to the parser that produces that kind. "
    "Not decided: the parser's classification of arbitrary paragraph shapes as prose or code."
    ' (R7) the namespace id of a fence is hash_str of the whole fence name, only the fixed prefix stripped (no splitting, truncation or folding).'
    " (R8) every path from FunctionScope::enter to a return restores the caller's scope (an error inside a user function called from a named fence or an inline expression must not leave the interpreter on the function's local tables)."
    ' (R9) a comment extends exactly to the end of its line: the consumer comment() applies after the sigil stops at new_line and at nothing else.'
    " (R10) every SectionElement variant compiled in is named by an arm of the dispatcher that does not reject it (the catch-all is an Err): a prose element without an accepting arm aborts the document."
    " (R11) line discipline of the document grammar, read off the parser functions as item sequences (line end / in-line blanks / optional line end / marker run / sigil / content, classified from the "
    "literal sets of the leaf token parsers): every underlined-heading recogniser (title, numbered section heading - found by shape) has a mandatory marker run, and when some literal with which code can "
    "begin (FIRST literals of the code parser's alternatives, as far as derivable) starts with its marker, the run is followed by a mandatory line end, i.e. the underline is a whole line; every recogniser "
    "consulted before a code parser at the same position (section(), program(), mech_code()) carries a leading sigil no derivable code start begins with or is such a heading; the code parser is tried "
    "before the generic prose parser; the statement terminator has a mandatory line-end alternative; the text loop of these recognisers stops at a line end. Which documents parse to which tree is not decided."
    " (R12) a statement does not continue into the prose line below it: for every leaf operator of every precedence level of the formula grammar (levels found by shape `NEXT, *(OP, NEXT)` forming a "
    "chain, operators = leaves of OP through alternatives and helper parsers) every blank parser applied between the left operand and the operator token - in the level function, the operator class, "
    "the operator, helpers like ws0e / ws1e / space_tab - has a literal alphabet without a line end, and no blank step of a level function accepts one; for every statement-level infix operator "
    "(`OPERAND .. padded token OPERAND` in a straight-line parser reachable from the code parser) whose leading blanks do accept a line end, the token cannot begin a sigil-led prose element (sigils and what "
    "may follow them computed from the alternatives of the generic prose parser: bullets, quote / call-out sigils, table bars, breaks, fences). Only this structural fact about the whitespace parsers is decided, "
    "not which documents parse to which tree nor what a statement evaluates to."
)

EXEC = {"MechCode", "FencedMechCode", "Mika", "Float"}
INLINE = {"Comment", "Paragraph", "Table", "FigureTable"}
INERT = {"Prompt", "InfoBlock", "QuestionBlock", "WarningBlock", "ErrorBlock", "IdeaBlock", "Image", "Citation", "Equation", "Abstract", "Diagram", "Subtitle",
         "CodeBlock", "Footnote", "Grammar", "QuoteBlock", "ThematicBreak", "List", "SuccessBlock", "Error"}
EVAL_FNS = re.compile(r"^(mech_code|section_element|eval_fenced_code_block|comment|paragraph_element|section|statement|expression|program|body|interpret|function_define|variable_define|subscript|formula)$")


# ---- roles are recognised by signature position/type, pattern bindings and provenance - never by the spelling of a local, and never by WHICH function a
# ---- piece of the mechanism lives in: the rules below look at the inlined view of a function (lib/synflow.Inliner: calls to private helpers of the crate are
# ---- replaced by their bodies) and track guards with lib/synflow.GuardWalk (nested if / guard clause / match / negation / named local are all the same)
def params_of_type(it, type_name):
    """names of the parameters of fn item `it` whose declared type is `type_name` behind any number of `&` / `&mut` / lifetimes (a role by TYPE, not by spelling)"""
    out = []
    for pat, ty in it.get("sig", {}).get("inputs", []):
        core = re.sub(r"&|'\w+\s|\bmut\s|\s", "", str(ty) + " ").strip()
        if core == type_name and is_node(pat) and pat[0] == "pident":
            out.append(pat[1])
    return out


def var_of(e):
    """the variable an expression denotes after stripping references and dereferences; None if it is not a plain variable"""
    return path_of(strip_refs(e))


def is_eval(name):
    return bool(EVAL_FNS.match(name))


def all_defs(deep, W):
    """the initialisers visible at the walker's current point: every `let` of the (inlined) function, overridden by the lexical scope the walker is in
    (a pattern-bound name is None = opaque there)"""
    d = dict(deep)
    d.update(W.defs)
    return d


def unbox(v, defs, depth=0):
    """the constructor expression behind a default value handed to a map (`Box::new(x)`, `|| Box::new(x)`, `{ let x = ..; Box::new(x) }`, a named local) and the
    names of the locals it went through: ([names], constructor expression)"""
    names = []
    while depth < 16 and is_node(v):
        depth += 1
        v = strip_refs(v)
        if not is_node(v):
            break
        if v[0] == "closure":
            v = v[2]
        elif v[0] in ("block", "unsafe") and tail_of(v[1]) is not None:
            defs = dict(defs)
            defs.update(let_defs(v[1], deep=False))
            v = tail_of(v[1])
        elif v[0] == "call" and (path_of(v[1]) or "").split("::")[-2:] in (["Box", "new"], ["Rc", "new"], ["Arc", "new"]) and len(v[2]) == 1:
            v = v[2][0]
        elif v[0] == "path" and "::" not in v[1] and defs.get(v[1]) is not None:
            names.append(v[1])
            v = defs[v[1]]
        else:
            break
    return names, v


def is_alias_of(e, names, defs, depth=0):
    """`e` denotes one of the locals `names` itself: directly, by reference, through access-only calls or through further named locals"""
    while depth < 16 and is_node(e):
        depth += 1
        e = strip_refs(e)
        if is_node(e) and e[0] == "mcall" and e[2] in ("borrow_mut", "borrow", "as_mut", "as_ref", "deref", "deref_mut") and not e[4]:
            e = e[1]
        elif is_node(e) and e[0] == "path":
            if e[1] in names:
                return True
            if "::" in e[1] or defs.get(e[1]) is None:
                return False
            e = defs[e[1]]
        else:
            return False
    return False


def applied_ops(e, defs, body, depth=0, seen=None):
    """names of the methods, functions and macros applied while computing `e`, following the locals it mentions to their initialisers and to the method calls
    made on them anywhere in `body` (so `let v = ..; v.sort(); for s in v` is seen as sorted whatever `v` is called)"""
    seen = set() if seen is None else seen
    ops = [mc[2] for mc in find(e, "mcall")] + [path_of(c[1]).split("::")[-1] for c in find(e, "call") if path_of(c[1])] + [m_[1] for m_ in find(e, "macro")]
    if depth > 6:
        return ops
    for n in find(e, "path"):
        v = n[1]
        if defs.get(v) is not None and v not in seen and "::" not in v:
            seen.add(v)
            ops += applied_ops(defs[v], defs, body, depth + 1, seen)
            ops += [mc[2] for mc in find(body, "mcall") if var_of(mc[1]) == v]
    return ops


def run(F, rep, tier):
    _run(F, rep, tier)
    from rules.c10_cover import run_r10
    run_r10(F, rep)
    from rules.c10_lines import run_r11
    run_r11(F, rep)
    from rules.c10_opws import run_r12
    run_r12(F, rep)


def _run(F, rep, tier):
    crate = "mech_interpreter.lib"
    items = F.syn(crate)
    rep.rule("C10-R1", "prose arms inert; inline carriers reach only paragraph_element; variants classified")
    rep.rule("C10-R2", "disabled test first in the fenced-code arm")
    rep.rule("C10-R3", "namespace 0 -> parent, isolation off; other -> sub-interpreter of that id (fresh, functions only), isolation on")
    rep.rule("C10-R4", "eval_fenced_code_block: every Err return is behind the isolate_errors return")
    rep.rule("C10-R5", "forward document order")
    rep.rule("C10-R6", "a code fence is closed by the sigil that opened it")
    se = [it for it in items if it["k"] == "fn" and it["name"] == "section_element" and it["mod"].endswith("mechdown")]
    if not rep.check(len(se) == 1, "C10-R1", "anchor:section_element", "section_element not found"):
        return
    se = se[0]
    # every rule below reads the INLINED view of its function: a call to a private helper of the crate (free fn or inherent method on a typed receiver) is
    # replaced by the helper's body with the parameters bound to the arguments, up to 3 levels; the evaluator functions themselves (EVAL_FNS) stay calls -
    # they are what the rules look for. Extracting a block into a helper, or inlining one, therefore does not change what a rule sees.
    inl = Inliner(items, stop=is_eval)
    consts = const_table(items, se["mod"])
    se_body = inl.view(se)
    se_defs = let_defs(se_body)
    # the element is the parameter of type &SectionElement, the parent interpreter the parameter of type &Interpreter - whatever they are called
    elem_params = params_of_type(se, "SectionElement")
    parent = set(params_of_type(se, "Interpreter"))

    def is_param(e, names, defs):
        """`e` is, by provenance (aliases, references, helper parameters), one of the parameters `names` itself"""
        o = origin(e, defs)
        return o is not None and o[0] in names and not o[1]
    m = [x for x in find(se_body, "match") if is_param(x[1], elem_params, se_defs) and any(a[0][0] in ("pts", "ppath") and a[0][1].startswith("SectionElement::") for a in x[2])]
    if not rep.check(len(m) >= 1, "C10-R1", "anchor:match-element", "section_element has no match on the element"):
        return
    arms = {}
    for arm in m[0][2]:
        p = arm[0]
        if p[0] in ("pts", "ppath") and p[1].startswith("SectionElement::"):
            arms.setdefault(p[1].split("::")[-1], []).append(arm)
    # variants of the enum
    variants = []
    for a in F.adts("mech_core.lib"):
        if a["name"].endswith("nodes::SectionElement") and a["enum"]:
            variants = [v["name"] for v in a["variants"]]
    rep.floor("C10-R1", "SectionElement variants", len(variants), 25)
    for v in variants:
        rep.check(v in EXEC or v in INLINE or v in INERT, "C10-R1", "classified:%s" % v, "SectionElement::%s is not classified as executing / inline carrier / inert in rules/c10.py" % v)
    for v, al in sorted(arms.items()):
        for arm in al:
            # everything the arm calls, directly or through private helpers (inlined view)
            cs = called(arm[2]) | (called(arm[1]) if arm[1] is not None else set())
            ev = sorted(c for c in cs if EVAL_FNS.match(c))
            if v in INERT:
                rep.check(not ev and not any(c in (".insert", ".borrow_mut", ".symbols", ".save_symbol") for c in cs), "C10-R1", "inert:%s" % v,
                          "the arm for SectionElement::%s (prose) calls %s: prose would change interpreter state" % (v, ev or sorted(cs)), "src/interpreter/src/mechdown.rs (expanded line %d)" % arm[3],
                          sample={"variant": v, "calls": sorted(cs)})
            elif v in INLINE:
                rep.check(set(ev) <= {"paragraph_element"}, "C10-R1", "inline-carrier:%s" % v,
                          "the arm for SectionElement::%s evaluates through %s; inline carriers may only reach paragraph_element" % (v, ev), "expanded line %d" % arm[3])
    for v in INERT | INLINE:
        if v in variants and v not in arms:
            rep.note("variant_without_arm", v)
    pe = [it for it in items if it["k"] == "fn" and it["name"] == "paragraph_element" and it["mod"].endswith("mechdown")]
    if rep.check(len(pe) == 1, "C10-R1", "anchor:paragraph_element", "paragraph_element not found"):
        pelem = params_of_type(pe[0], "ParagraphElement")
        pe_body = inl.view(pe[0])
        pe_defs = let_defs(pe_body)
        n_pm = 0
        # a case distinction on the element: `match el {..}`, `let Eval(x) = el else { .. };`, `if let Eval(x) = el {..} else {..}` are the same thing
        for scrut, arms_ in discriminations(pe_body):
            if not is_param(scrut, pelem, pe_defs):
                continue
            n_pm += 1
            for arm in arms_:
                p = arm[0]
                if p[0] in ("pts", "ppath") and p[1].startswith("ParagraphElement::"):
                    v = p[1].split("::")[-1]
                    ev = sorted(c for c in called(arm[2]) if EVAL_FNS.match(c))
                    if "Eval" not in v:
                        rep.check(not ev, "C10-R1", "paragraph:%s" % v, "ParagraphElement::%s (prose) evaluates through %s" % (v, ev), "expanded line %d" % arm[3])
                elif p[0] in ("pwild", "pident"):
                    # the catch-all for every element that is not an inline eval (`_ => ..`, the `else` of a `let .. else`)
                    ev = sorted(c for c in called(arm[2]) if EVAL_FNS.match(c))
                    rep.check(not ev, "C10-R1", "paragraph:other", "the catch-all of paragraph_element (prose elements) evaluates through %s" % ev)
        rep.floor("C10-R1", "paragraph_element matches on its ParagraphElement parameter", n_pm, 1)
    # R2/R3 fenced arm. Arms with a match guard (`FencedMechCode(b) if b.config.disabled => ..`) are walked in order, each one under what the failed guards of
    # the earlier ones say; arms after the first guard-less one are unreachable.
    fa = []
    for arm in arms.get("FencedMechCode", []):
        fa.append(arm)
        if arm[1] is None:
            break
    if rep.check(len(fa) >= 1 and fa[-1][1] is None, "C10-R2", "anchor:fenced-arm", "FencedMechCode arm not found"):
        deep = let_defs([a[2] for a in fa])

        def walk_fence_arms(atom, on, match_hook=None):
            """walk the fenced-code arm(s) tracking the predicate described by `atom` (the fence is whatever the arm's pattern binds; its fields config.disabled,
            config.namespace, code are struct fields and keep their names)"""
            q0 = None
            for arm in fa:
                fence = set(binders(arm[0]))
                W = GuardWalk(atom=lambda e, w: atom(e, w, fence), on=lambda k, n, q, w: on(k, n, q, w, fence), match_hook=(lambda s, a, w: match_hook(s, a, w, fence)) if match_hook else None, consts=consts)
                qa = q0
                if arm[1] is not None:
                    W.cond(arm[1], q0)
                    qa = narrow_(q0, W.implied(arm[1], True))
                    q0 = narrow_(q0, W.implied(arm[1], False))
                W.expr(arm[2], qa)

        def fence_field(e, w, fence, field):
            """`e` is, by provenance, `<fence>. .. .<field>` (directly, through a named local, through a helper's parameter)"""
            if not (is_node(e) and e[0] in ("field", "path", "ref", "un", "mcall", "cast", "block")):
                return False
            o = origin(e, all_defs(deep, w))
            return bool(o and o[0] in fence and o[1] and o[1][-1] == field)

        # ---- R2: Q = "the fence is disabled"; every evaluator call of the arm must sit where Q is known to be false
        evals = []

        def on_r2(kind, node, q, w, fence):
            if kind == "call" and path_of(node[1]) and is_eval(path_of(node[1]).split("::")[-1]):
                evals.append((path_of(node[1]).split("::")[-1], q))
        walk_fence_arms(lambda e, w, fence: "Q" if fence_field(e, w, fence, "disabled") else None, on_r2)
        unguarded = sorted({n for n, q in evals if q is not False and q is not DEAD})
        rep.check(any(q is False for _, q in evals) and not unguarded, "C10-R2", "disabled-test-first",
                  "the fenced-code arm reaches %s without having established that `<fence>.config.disabled` is false (no `if <fence>.config.disabled { return .. }` "
                  "before it): a disabled fence can run" % (unguarded or "no evaluator"), sample={"evaluator_calls": sorted({n for n, _ in evals}), "all_behind_disabled_test": not unguarded})

        # ---- R3: Q = "the namespace id of the fence is 0"
        FLIP = {"==": "==", "!=": "!=", "<": ">", ">": "<", "<=": ">=", ">=": "<="}
        ns_tests, foreign_tests = [], []

        def zero_test(e, w):
            """(tested expression, verdict when it IS zero-tested: 'Q' = "is 0" / 'NQ' = "is not 0") for comparisons against the constant 0 (literal, const item,
            named local) in either operand order; None otherwise"""
            if not (is_node(e) and e[0] == "bin" and e[1] in FLIP):
                return None
            d = all_defs(deep, w)
            for x, z, op in ((e[2], e[3], e[1]), (e[3], e[2], FLIP[e[1]])):
                iv = int_value(z, d, consts)
                if iv == 0 and op in ("==", "<="):
                    return x, "Q"
                if iv == 0 and op in ("!=", ">"):
                    return x, "NQ"
                if iv == 1 and op == "<":
                    return x, "Q"
                if iv == 1 and op == ">=":
                    return x, "NQ"
            return None

        def ns_atom(e, w, fence):
            zt = zero_test(e, w)
            if zt is None:
                return None
            if fence_field(zt[0], w, fence, "namespace"):
                ns_tests.append(zt[0])
                return zt[1]
            return None

        def foreign_atom(e, w, fence):
            zt = zero_test(e, w)
            if zt is None or fence_field(zt[0], w, fence, "namespace"):
                return None
            return zt[1]

        def ns_match(scrut, arms_, w, fence):
            """`match <namespace> { 0 => A, _ => B }`"""
            if not fence_field(scrut, w, fence, "namespace"):
                return None
            d = all_defs(deep, w)
            out, zero_covered = [], False
            for arm in arms_:
                vals, rest = set(), False
                for alt in (arm[0][1] if arm[0][0] == "por" else [arm[0]]):
                    iv = int_value(alt[1], d, consts) if alt[0] == "plit" else int_value(["path", alt[1]], d, consts) if alt[0] in ("ppath", "pident") and alt[1][:1].isupper() else None
                    if iv is not None:
                        vals.add(iv)
                    else:
                        rest = True
                if vals == {0} and not rest:
                    out.append({True})
                    ns_tests.append(scrut)
                    zero_covered = zero_covered or arm[1] is None
                elif (vals and 0 not in vals and not rest) or (rest and zero_covered):
                    out.append({False})
                else:
                    out.append(set())
            return out
        fence_calls = []

        def on_r3(kind, node, q, w, fence):
            if kind == "call" and path_of(node[1]) and path_of(node[1]).split("::")[-1] == "eval_fenced_code_block":
                fence_calls.append((node, q, all_defs(deep, w), fence))
        walk_fence_arms(ns_atom, on_r3, ns_match)
        zero_calls = [c for c in fence_calls if c[1] is True]
        other_calls = [c for c in fence_calls if c[1] is False]
        undistinguished = [c for c in fence_calls if c[1] is None]
        if rep.check(len(ns_tests) >= 1 and len(zero_calls) >= 1 and len(other_calls) >= 1 and not undistinguished, "C10-R3", "namespace-branch",
                     "the fenced-code arm does not evaluate the fence once where `<fence>.config.namespace` is known to be 0 and once where it is known not to be "
                     "(no `if namespace == 0 {..} else {..}` distinction around the evaluator): %d / %d / %d undistinguished" % (len(zero_calls), len(other_calls), len(undistinguished))):
            # the distinction must not ALSO hang on an id that is not the block's namespace
            foreign_calls = []
            walk_fence_arms(foreign_atom, lambda k, n, q, w, f: foreign_calls.append(q) if k == "call" and path_of(n[1]) and path_of(n[1]).split("::")[-1] == "eval_fenced_code_block" else None)
            rep.check(all(q is None for q in foreign_calls), "C10-R3", "namespace-id-source", "the evaluation of a fence depends on a comparison with 0 of something that is not the block's namespace")

            def is_parent(e, d):
                # "the parent" is the &Interpreter parameter of section_element (by type and provenance), whatever it is called and whichever helper it went through
                return is_param(e, parent, d)
            ok0 = all(len(c[2]) == 3 and is_parent(c[2][1], d) and bool_value(c[2][2], d, consts) is False for c, _, d, _ in zero_calls)
            rep.check(ok0, "C10-R3", "unnamed-runs-in-parent", "an unnamed fence is not evaluated in the parent interpreter with isolation off: %s" % [render(c[0])[:80] for c in zero_calls])
            ok1 = all(len(c[2]) == 3 and bool_value(c[2][2], d, consts) is True and not is_parent(c[2][1], d) for c, _, d, _ in other_calls)
            rep.check(ok1, "C10-R3", "named-runs-isolated", "a named fence is not evaluated with error isolation in an interpreter other than the parent: %s" % [render(c[0])[:80] for c in other_calls])
            keyed_ok, default_found, fresh_ok, shares_ok, srcs, mut_names = True, True, True, True, [], set()
            for c, _, d, fence in other_calls:
                def same_ns(x):
                    o = origin(x, d)
                    return bool(o and o[0] in fence and o[1][-1:] == ["namespace"])

                def is_submap(x):
                    # the map that is indexed must be, by provenance, the field `sub_interpreters` of the parent interpreter
                    o = origin(x, d)
                    return bool(o and o[0] in parent and o[1] == ["sub_interpreters"])
                val = resolve_value(c[2][1], d) if len(c[2]) == 3 else None
                cl = value_closure(val, d) if val is not None else []
                srcs.append(render(val)[:120])
                mcs = [mc for x in cl for mc in find(x, "mcall")]
                lookups = [mc for mc in mcs if mc[2] in ("entry", "get_mut", "get") and len(mc[4]) == 1 and same_ns(mc[4][0])]
                keyed_ok = keyed_ok and len(lookups) >= 1 and all(is_submap(mc[1]) for mc in lookups)
                # the inserted default: Interpreter::new(<namespace>) with only set_functions applied
                dflt = [mc[4][0] for mc in mcs if mc[2] in ("or_insert", "or_insert_with") and len(mc[4]) == 1]
                if not dflt:
                    dflt = [mc[4][1] for a in fa for mc in find(a[2], "mcall") if mc[2] == "insert" and len(mc[4]) == 2 and is_submap(mc[1]) and same_ns(mc[4][0])]
                if not dflt:
                    default_found = False
                    continue
                for v in dflt:
                    names, ctor = unbox(v, d)
                    fresh_ok = fresh_ok and is_node(ctor) and ctor[0] == "call" and (path_of(ctor[1]) or "").split("::")[-2:] == ["Interpreter", "new"] and len(ctor[2]) == 1 and same_ns(ctor[2][0])
                    for a in fa:
                        for mc in find(a[2], "mcall"):
                            if mc[2] != "clone" and is_alias_of(mc[1], names, d):
                                mut_names.add(mc[2])
            rep.check(keyed_ok, "C10-R3", "named-interpreter-keyed-by-namespace", "the interpreter for a named fence is not the sub_interpreters entry of that namespace id: %s" % srcs, sample={"interpreter": (srcs or [""])[0][:100]})
            if rep.check(default_found, "C10-R3", "named-interpreter-default", "cannot find the default sub-interpreter"):
                rep.check(fresh_ok, "C10-R3", "named-interpreter-fresh", "the sub-interpreter is not created with Interpreter::new(<namespace>)")
                rep.check(mut_names <= {"set_functions"}, "C10-R3", "named-interpreter-shares-functions-only", "the fresh sub-interpreter is given more than the function table: %s" % sorted(mut_names))
    # R4: Q = "isolate_errors is true"; every way an Err can leave eval_fenced_code_block (return Err / tail Err / `?` / a Result handed through, directly or in a
    # helper the exit goes through) must sit where Q is known to be false
    ef = [it for it in items if it["k"] == "fn" and it["name"] == "eval_fenced_code_block"]
    if rep.check(len(ef) == 1, "C10-R4", "anchor:eval_fenced_code_block", "eval_fenced_code_block not found"):
        # the isolation switch is the bool parameter of eval_fenced_code_block (by type), whatever it is called
        iso = set(params_of_type(ef[0], "bool"))
        rep.check(len(iso) == 1, "C10-R4", "anchor:isolation-flag", "eval_fenced_code_block does not take exactly one bool (the isolate-errors switch): %s" % sorted(iso))
        ef_body = inl.view(ef[0])
        st4 = {"err": 0, "try": [], "sources": set()}
        MSG4 = "eval_fenced_code_block returns an Err at a point where the bool isolation parameter is not known to be false (no `if <flag> { return Ok(..) }` before it / not inside `if !<flag>`): an error in a named fence stops the document"

        def classify(node, q, w, depth=0):
            e = strip_refs(node)
            if not is_node(e):
                return
            seg = path_of(e[1]).split("::")[-1] if e[0] == "call" and path_of(e[1]) else None
            if seg == "Ok" or e[0] == "try":
                return          # the Err side of `x?` is the `try` event
            if seg == "Err":
                st4["err"] += 1
                rep.check(q is False or q is DEAD, "C10-R4", "err-return-behind-isolation", MSG4)
                return
            if e[0] == "path" and "::" not in e[1] and depth < 4 and (w.defs.get(e[1]) is not None or e[1] in exit_vars):
                # a named local: its initialiser is the value (what is assigned to it later is seen at the assignment). Only its Err case matters, and the
                # walker knows under which state of the flag the local can still hold an Err here (`match r { Err(e) if flag => .., other => other }`,
                # `if let Err(e) = &r { if flag { return Ok(..) } }  r`)
                if w.defs.get(e[1]) is not None:
                    classify_all(w.exits(w.defs[e[1]], narrow_(q, w.errq.get(e[1], set()))), w, depth + 1)
                return
            if e[0] == "mcall" and e[2] in RESULT_COMBINATORS and depth < 4:
                # `r.or_else(|e| ..)` consumes the Err of r: the closure's value is what leaves; map / map_err / and_then / inspect.. keep the Err of r
                if e[2] != "or_else":
                    classify_all(w.exits(e[1], q), w, depth + 1)
                if e[2] in ("or_else", "and_then") and e[4] and is_node(e[4][0]) and e[4][0][0] == "closure":
                    classify_all(w.exits(e[4][0][2], q), w, depth + 1)
                    return
                if e[2] not in ("or_else", "and_then"):
                    return
            if q is False or q is DEAD or e[0] == "macro":
                return          # isolation is off here: whatever Result this is may leave
            # a Result of unknown content leaves the function while isolation may be on
            st4["err"] += 1
            args = e[2] if e[0] == "call" else e[4] if e[0] == "mcall" else []
            if any(w.cond_value(a) in ("Q", "NQ") for a in args):
                # the isolation switch is handed to something that cannot be summarised (not a private helper of the crate): the mechanism is there, undecidable here
                rep.note("undecided", {"rule": "C10-R4", "exit": render(e)[:100]})
            else:
                rep.check(False, "C10-R4", "err-return-behind-isolation", MSG4 + " (returns `%s`)" % render(e)[:60])

        RESULT_COMBINATORS = {"or_else", "and_then", "map", "map_err", "inspect", "inspect_err"}

        def classify_all(exits, w, depth=0):
            for kind, leaf, q2 in exits:
                if kind == "try":
                    # a `?` whose Err becomes the value that leaves (inside a closure / helper whose result is returned or matched and handed on)
                    st4["err"] += 1
                    rep.check(q2 is False or q2 is DEAD, "C10-R4", "err-return-behind-isolation", MSG4 + " (`%s`)" % render(leaf)[:60] if not (q2 is False or q2 is DEAD) else MSG4)
                else:
                    classify(leaf, q2, w, depth)

        # a returned accumulator (`let mut result = Ok(..); .. result = helper(err, flag); break; .. result`): every value assigned to it is an exit value
        exit_vars = set()
        GuardWalk(env={n: "Q" for n in iso}, consts=consts, on=lambda k, n, q, w: exit_vars.add(var_of(n)) if k == "exit" and var_of(n) and "::" not in var_of(n) else None).walk_fn(ef_body)

        def on_r4(kind, node, q, w):
            if kind == "exit":
                classify(node, q, w)
            elif kind == "assign" and var_of(node[1]) in exit_vars:
                classify_all(w.exits(node[2], q), w)
            elif kind == "try" and w.at_exit and q is not False and q is not DEAD:
                st4["try"].append(render(node)[:60])
            elif kind == "call" and path_of(node[1]) and is_eval(path_of(node[1]).split("::")[-1]):
                st4["sources"].add(id(node))
        GuardWalk(env={n: "Q" for n in iso}, on=on_r4, consts=consts).walk_fn(ef_body)
        # counted per error source: each fallible evaluator call of the loop needs its way out (on this tree: mech_code and the trailing comment -> 2)
        n_err = max(st4["err"], len(st4["sources"])) if st4["err"] else 0
        rep.floor("C10-R4", "Err returns in eval_fenced_code_block", n_err, 2)
        rep.check(not st4["try"], "C10-R4", "no-question-mark", "eval_fenced_code_block propagates an error with `?` (bypasses isolation): %s" % st4["try"][:3])
    # R5 order
    ITER = {"for_each", "try_for_each", "map", "fold", "try_fold", "filter_map", "flat_map", "find_map", "all", "any"}
    for fn in ("section", "body", "program"):
        it = [x for x in items if x["k"] == "fn" and x["name"] == fn and x["mod"].endswith("mechdown")]
        for x in it:
            xb = inl.view(x)
            xd = let_defs(xb)
            # iteration sites: `for` loops and iterator pipelines (`xs.iter().try_for_each(..)`); reordering is recognised by the METHODS / FUNCTIONS / MACROS applied
            # to the iterated collection (rev, sort*, sorted..), not by a substring of the rendered text (a local that happens to be called `sorted_sections` reorders nothing)
            sites = [f[2] for f in find(xb, "for")] + [mc[1] for mc in find(xb, "mcall") if mc[2] in ITER and any(is_eval(c) for c in called(mc[4]))]
            for coll in sites:
                ops = applied_ops(coll, xd, xb)
                rep.check(not any(o in ("rev", "reverse", "rposition", "rfold", "try_rfold", "next_back", "pop") or "sort" in o or "shuffle" in o for o in ops), "C10-R5", "%s:forward" % fn, "%s visits its children as `%s`" % (fn, render(coll)))
    # R6 parser side
    sb = {b.fn.split("::")[-1]: b for b in F.bodies("mech_syntax.lib") if "::mechdown::" in b.fn and b.fn.split("::")[-1] in ("code_block", "codeblock_sigil", "grave_codeblock_sigil", "tilde_codeblock_sigil")}
    if rep.check("code_block" in sb and "codeblock_sigil" in sb, "C10-R6", "anchor:code_block", "code_block / codeblock_sigil not found in mech_syntax"):
        b = sb["code_block"]
        sl = Slice(b)
        opening = [i for i, t in b.calls() if any("codeblock_sigil" in f for g in t.get("ga", []) for f in fns_in_type(g)) and (t.get("f") or t["tf"]).endswith("{closure#0}")]
        sig_mentions = 0
        for i, t in b.calls():
            for g in t.get("ga", []):
                sig_mentions += sum(1 for f in fns_in_type(g) if re.search(r"codeblock_sigil$", f))
            for a in t["args"]:
                if isinstance(a, dict) and "fn" in a:
                    sig_mentions += sum(1 for f in fns_in_type(a["fn"]) if re.search(r"codeblock_sigil$", f))
            if re.search(r"codeblock_sigil$", t.get("f") or t["tf"]):
                sig_mentions += 10
        if rep.check(len(opening) >= 1, "C10-R6", "opening-sigil-parse", "code_block does not parse an opening sigil", b.where()):
            o = opening[0]
            term = [(i, t) for i, t in b.calls() if t["tf"] == "<fnptr>"]
            ok_t = any({r for r in sl.roots(t["fp"]) if r[0] == "call"} == {("call", (b.blocks[o]["t"].get("f") or b.blocks[o]["t"]["tf"]), o)} for i, t in term)
            rep.check(ok_t, "C10-R6", "terminator-is-opening-sigil", "the parser that ends a code fence does not derive from the sigil that opened it: a ``` fence can be closed by ~~~ (and vice versa), so fenced text can escape and run as code", b.where(),
                      sample={"opening_call_block": o, "fnptr_calls": [t["l"] for i, t in term]})
            isn = [(i, t) for i, t in b.calls() if (t.get("f") or t["tf"]).endswith("parser::is_not")]
            good = [t for i, t in isn if any(r == ("call", (b.blocks[o]["t"].get("f") or b.blocks[o]["t"]["tf"]), o) for a in t["args"] for r in sl.roots(a))]
            rep.check(len(good) >= 1, "C10-R6", "body-lookahead-is-opening-sigil", "the body scan of a code fence does not stop at the opening sigil only", b.where())
        s2 = sb["codeblock_sigil"]
        # selector: token kind -> parser producing that kind (syn)
        syn_items = F.syn("mech_syntax.lib")
        sel = [it for it in syn_items if it["k"] == "fn" and it["name"] == "codeblock_sigil"]
        if sel:
            pairs = []
            for mm in find(sel[0]["body"], "match"):
                for arm in mm[2]:
                    if arm[0][0] == "ppath" and arm[0][1].startswith("TokenKind::") and path_of(arm[2]):
                        pairs.append((arm[0][1].split("::")[-1], path_of(arm[2])))
            rep.floor("C10-R6", "sigil selector arms", len(pairs), 2)
            for kind, fn in pairs:
                fb = [x for x in F.bodies("mech_syntax.lib") if x.fn.endswith("::" + fn)]
                produced = set()
                for x in fb:
                    for i, s in x.aggs():
                        if s["adt"].endswith("TokenKind"):
                            produced.add(s["var"])
                    for i, st in x.stmts():
                        for o_ in st.get("src", []):
                            if isinstance(o_, dict) and "TokenKind::" in str(o_.get("c", "")):
                                produced.add(str(o_["c"]).split("::")[-1])
                if produced:
                    rep.check(kind in produced, "C10-R6", "selector:%s" % kind, "codeblock_sigil maps TokenKind::%s to %s, which produces %s" % (kind, fn, sorted(produced)))
    # ---- R7: the namespace id is the hash of the WHOLE fence name
    rep.rule("C10-R7", "code_block: the namespace id is hash_str of the fence name with only the fixed `mech`/`mec`/robot prefix and `:` stripped - no splitting, truncation or case folding (two different names would share a namespace)")
    INJECTIVE = {"trim_start_matches", "to_string", "as_str", "clone", "to_owned", "as_ref", "borrow"}
    cb = [it for it in F.syn("mech_syntax.lib") if it["k"] == "fn" and it["name"] == "code_block"]
    if rep.check(len(cb) == 1, "C10-R7", "anchor:code_block-syn", "code_block not found in the syntax tree dump"):
        # inlined view: the BlockConfig construction / the name normalisation may live in a private helper of the parser module
        body = Inliner(F.syn("mech_syntax.lib")).view(cb[0])
        configs = [s for s in find(body, "struct") if s[1].split("::")[-1] == "BlockConfig"]
        ns = []
        for s in configs:
            for fname, fval in s[2]:
                if fname == "namespace" and any(path_of(c[1]) and path_of(c[1]).split("::")[-1] == "hash_str" for c in find(fval, "call")):
                    for c in find(fval, "call"):
                        if path_of(c[1]) and path_of(c[1]).split("::")[-1] == "hash_str" and c[2]:
                            ns.append(c[2][0])
        rep.floor("C10-R7", "BlockConfig constructions hashing a name", len(ns), 1)
        lets = {}
        for st in find(body, "let"):
            if len(st) == 4 and st[2] is not None and st[1][0] == "pident":
                lets.setdefault(st[1][1], []).append(st[2])
        for arg in ns:
            base = arg
            while is_node(base) and base[0] in ("ref", "paren"):
                base = base[2] if base[0] == "ref" else base[1]
            name = path_of(base)
            chain_bad = []
            seen_defs = 0

            def chain(e, depth=0):
                nonlocal seen_defs
                if depth > 12 or not is_node(e):
                    return
                if e[0] == "mcall":
                    if e[2] not in INJECTIVE:
                        chain_bad.append(e[2])
                    elif e[2] in ("trim_start_matches", "strip_prefix", "trim_start_matches") and not (e[4] and is_node(e[4][0]) and e[4][0][0] == "str"):
                        # only a fixed prefix STRING may be stripped: a character set / slice / closure pattern keeps eating into the name (`c1`, `h1`, `m1` all become `1`)
                        chain_bad.append("%s(%s)" % (e[2], "char-set" if e[4] else ""))
                    chain(e[1], depth + 1)
                elif e[0] in ("ref", "paren", "try"):
                    chain(e[2] if e[0] == "ref" else e[1], depth + 1)
                elif e[0] == "block" and tail_of(e[1]) is not None:
                    # `{ let t = ..; t }` / an inlined helper: the value is the tail (its lets are in `lets`)
                    chain(tail_of(e[1]), depth + 1)
                elif e[0] == "path":
                    for d in lets.get(e[1], []):
                        seen_defs += 1
                        chain(d, depth + 1)
                elif e[0] in ("call", "index", "field", "if", "match", "block", "macro"):
                    # label without local spellings (it becomes part of the violation key): the construct kind plus the callee / field / macro name
                    lab = e[0]
                    if e[0] == "call" and path_of(e[1]):
                        lab = "call:" + path_of(e[1]).split("::")[-1]
                    elif e[0] == "field":
                        lab = "field:" + str(e[2])
                    elif e[0] == "macro":
                        lab = "macro:" + str(e[1])
                    chain_bad.append(lab)
            chain(arg)
            rep.check(not chain_bad and seen_defs >= 1, "C10-R7", "namespace-is-hash-of-whole-name" if not chain_bad else "namespace-derivation:%s" % ",".join(sorted(set(chain_bad)))[:60],
                      "code_block computes the namespace id from `%s`, which is derived from the fence tag through %s: names that differ only in the discarded part share one namespace" % (render(arg)[:30], sorted(set(chain_bad))),
                      "code_block (mech_syntax.lib)", sample={"hashed": render(arg), "definitions_followed": seen_defs})
    from rules.loopshape import scope_restored_on_every_exit
    scope_restored_on_every_exit(F, rep, "C10-R8")
    run_r9(F, rep)


def _stop_set(it):
    """names of the parsers a `many0((is_not(S), any_token))` consumer stops at; None if the function is not of that shape"""
    stops = []
    for c in find(it["body"], "call"):
        f = path_of(c[1])
        if f and f.split("::")[-1] == "is_not" and c[2]:
            arg = c[2][0]
            names = set()
            for n in walk(arg):
                if n[0] == "path" and n[1].split("::")[-1] not in ("alt",):
                    names.add(n[1].split("::")[-1])
                elif n[0] == "call" and path_of(n[1]) and path_of(n[1]).split("::")[-1] == "tag" and n[2] and n[2][0][0] == "str":
                    names.add(repr(n[2][0][1]))
            stops.append(names)
    return stops


def run_r9(F, rep):
    rep.rule("C10-R9", "a comment extends to the end of its line and no further: the consumer comment() applies right after comment_sigil skips tokens until new_line and "
                      "stops at nothing else (a `;` or any other earlier stop hands the rest of the comment to the code parser, which runs it; a later stop swallows the next line)")
    from lib.grammar import Grammar
    G = Grammar(F.syn("mech_syntax.lib"))
    sk = G.skeleton("comment")
    if not rep.check(sk is not None and len(sk.steps) >= 2, "C10-R9", "anchor:comment-skeleton", "parser comment() not found or not a step sequence"):
        return
    names = [t[1] if t[0] == "nt" else None for _, t, _ in sk.steps]
    sig = [i for i, (vs, t, _) in enumerate(sk.steps) if t == ("nt", "comment_sigil")]
    if not rep.check(len(sig) == 1 and sig[0] + 1 < len(sk.steps), "C10-R9", "anchor:comment-sigil-step", "comment() does not apply comment_sigil followed by a body consumer: %s" % names):
        return
    body_t = sk.steps[sig[0] + 1][1]
    rep.check(len(sk.steps) == sig[0] + 2 and sk.straight, "C10-R9", "comment:single-body-consumer",
              "comment() applies further consuming parsers to the program text after its body consumer (%s): the comment no longer ends where its line ends" % names, "comment (mech_syntax.lib)")
    if not rep.check(body_t[0] == "nt" and body_t[1] in G.fns, "C10-R9", "anchor:comment-body-consumer", "the body consumer of comment() is not a named parser: %s" % (body_t,)):
        return
    it = G.fns[body_t[1]]
    stops = _stop_set(it)
    ok = len(stops) == 1 and stops[0] == {"new_line"}
    rep.check(ok, "C10-R9", "comment-body-stops-at:%s" % ("new_line" if ok else "+".join(sorted(set().union(*stops))) if stops else "nothing"),
              "comment() reads its text with %s, which stops at %s instead of exactly new_line: text after the first other stop token inside a comment is parsed (and evaluated) as code, or the comment runs past its line" % (
                  body_t[1], [sorted(s) for s in stops]), "comment (mech_syntax.lib)", sample={"consumer": body_t[1], "stops": [sorted(s) for s in stops]})
    # the consumer is a pure token skipper: one many0 over (is_not(stop), any_token)
    sk2 = G.skeleton(body_t[1])
    rep.check(sk2 is not None and len(sk2.steps) == 1 and sk2.steps[0][1][0] == "star", "C10-R9", "comment-body-consumer-shape",
              "%s is not a single many0((is_not(stop), any_token)) loop: %s" % (body_t[1], [s[1] for s in (sk2.steps if sk2 else [])]), "%s (mech_syntax.lib)" % body_t[1])
    rep.floor("C10-R9", "comment body consumers analysed", 1 if stops else 0, 1)
