"""C08 — formatter (narrow): every constructible node variant has an emitter arm, emitters read every semantic field of their node,
operator literals are accepted by (only) the parser leaf of the same variant AND reachable there (rules/c08_reach.py), text mode is forced and unconditional terminators stay unconditional."""
import re
from collections import defaultdict
from lib.facts import find, walk, is_node, path_of, render, render_stmt, render_pat, last_seg
from lib import fxn as X

TECHNIQUE = ("exhaustiveness of the formatter's variant matches against the variants the parser constructs (MIR aggregates); field-use completeness (K6) of "
             "every emitter against the node struct definitions; table agreement between the literals the formatter emits for operator variants and the "
             "literals the parser leaf of that variant accepts (injectivity); structural rule that no emitter chooses a non-blank literal by inspecting the "
             "rendered text of a child; a concrete simulation of the parser's combinator expressions (ordered choice, cut, look-ahead; lib/pegsim.py) on the finite set of texts "
             "the operator emitters can write around opaque operands (variant-specialised emitter templates, lib/emitspec.py), with the precedence-level chain taken from the MIR (rules/c02.py)")
EXPLANATION = (
    "Decides necessary structure of C08 only: (R1) every variant of a syntax-node enum that the parser constructs has an emitter arm in the formatter method "
    "that matches on that enum (no wildcard swallowing it); (R2) every emitter reads every semantic field of the node struct it is given (source ranges "
    "excluded); (R3) for each operator variant the literal emitted in text mode is one the parser leaf producing that variant accepts, and no leaf of a "
    "different variant accepts it; (R4) format() forces text mode; (R5) no emitter replaces a non-blank literal (terminator, separator, keyword) depending on "
    "the rendered text of a child node. The round trip itself (whitespace, layout, nesting) is a property of string values and is NOT decided."
    " (R6) no text-mode emitter filters/skips/takes elements of the lists it is given; (R7) struct emitters write the node's fields in the order the node's parser reads them; (R8) the literal text an emitter writes before/between/after the fields is text the parser's delimiter parsers accept at that place, whitespace aside (parser skeletons and token languages vs. a symbolic evaluation of the emitter's string building; existential over the productions of one node shape; delimiters supplied by calling or position-aware child emitters are followed); (R9) list fields are walked in element order on the text path."
    ' (R10) based-literal prefixes written by the formatter are tags of the parser leaf of that variant; (R11) no HTML entity or tag on the text path of a node emitter.'
    " (R8, empty nodes) a node whose list field is empty is written with text one of the parser's empty productions accepts; (R12) separators the emitters put between list elements are accepted by the list parser's separator language in that context (a tight comma where the parser needs `, ` or whitespace where it forbids it is reported)."
    " (R13) tight productions: an emitter writes white space between two fields only where a parser step between them (or the neighbouring field's own parser) can consume white space; and the emitter of a node all of whose parsers are white-space free (a token: number, complex literal, grammar identifier) writes no blank, neither literally nor through a helper emitter called with a constant argument."
    " (R15) distinct variants of a node enum are never rendered by identical code (one or-pattern arm, or arm bodies equal up to binder names): identical rendering makes them indistinguishable in the formatted text."
    " (R16) reachable spelling: for every variant->literal table of the formatter over a field-less node enum (the 8 formula-operator classes, the op-assign operators, both range-operator positions) and every prefix/postfix/circumfix variant of the formula operand type, the text the enclosing node emitter writes (literal plus the separators of the wrapper emitters, operands as one identifier-like sentinel) is evaluated on the combinator source of the parser functions that build the node - ordered `alt`, `cut`, `is_not`, white-space leaves, the whole precedence descent - and must be consumed completely, without hard failure, building exactly the given variants (a listed tag shadowed by an earlier alternative or by an operator of a tighter level, a token glued to an identifier operand, a missing blank are reported); this decides a structural fact about (emitter text, grammar) for sentinel operands, not the behaviour of the parser on real programs."
    " (R17) sibling renderers: a node variant with a payload of several components that is rendered with the same literal template by a mech_core to_string() (to which the formatter's text path delegates for nested elements) and by a formatter emitter fills every hole with the same component, identified by position in the variant's pattern."
)
OP_ENUMS = ["AddSubOp", "MulDivOp", "PowerOp", "VecOp", "ComparisonOp", "LogicOp", "TableOp", "SetOp", "OpAssignOp", "RangeOp"]


def run(F, rep, tier):
    _run(F, rep, tier)
    from rules.c08_distinct import run_r15
    run_r15(F, rep)


def _run(F, rep, tier):
    rep.rule("C08-R1", "constructible variants have emitter arms")
    rep.rule("C08-R2", "emitters read every semantic field of their node")
    rep.rule("C08-R3", "operator literal <-> parser leaf agreement and injectivity")
    rep.rule("C08-R4", "format() forces text mode")
    rep.rule("C08-R5", "no non-blank literal chosen by inspecting rendered child text")
    items = F.syn("mech_syntax.lib")
    fm = [it for it in items if it["k"] == "method" and X.type_head(it["self"]) == "Formatter" and not it["trait"]]
    rep.floor("C08-R1", "formatter methods", len(fm), 120)
    adts = F.adts("mech_core.lib")
    enums = {a["name"].split("::")[-1]: a for a in adts if a["enum"] and "::nodes::" in a["name"]}
    structs = {a["name"].split("::")[-1]: a for a in adts if not a["enum"] and "::nodes::" in a["name"]}
    built = defaultdict(set)
    for b in F.bodies("mech_syntax.lib"):
        if "::formatter::" in b.fn:
            continue
        for i, s in b.aggs():
            if "::nodes::" in s["adt"]:
                built[s["adt"].split("::")[-1]].add(s["var"])
    # R4
    fmt = [it for it in fm if it["name"] == "format"]
    if rep.check(len(fmt) == 1, "C08-R4", "anchor:format", "Formatter::format not found"):
        ok = any(a[0] == "assign" and render(a[1]) == "self.html" and render(a[2]) == "false" for a in find(fmt[0]["body"], "assign"))
        rep.check(ok, "C08-R4", "format:forces-text-mode", "Formatter::format does not set self.html = false")
    # emitters reachable from format() through self.<method>() calls (the text path)
    by_name = {it["name"]: it for it in fm}
    reach = set()
    st_ = ["format"]
    while st_:
        x = st_.pop()
        if x in reach or x not in by_name:
            continue
        reach.add(x)
        for mc in find(by_name[x]["body"], "mcall"):
            if path_of(mc[1]) == "self":
                st_.append(mc[2])
        for c in find(by_name[x]["body"], "call"):
            pc = path_of(c[1]) or ""
            if pc.startswith("Self::") or pc.startswith("Formatter::"):
                st_.append(pc.split("::")[-1])
        # calls written inside the arguments of format!(..) are token text in the expanded tree
        for mc in find(by_name[x]["body"], "macro"):
            for raw in mc[2:4]:
                if isinstance(raw, str):
                    st_.extend(re.findall(r"\bself\s*\.\s*(\w+)\s*\(", raw))
    rep.floor("C08-R2", "emitters reachable from format()", len(reach), 100)
    # R1 / R2
    n1 = n2 = 0
    for it in fm:
        if it["name"] not in reach:
            continue
        # parameter type
        params = [(p[0][1], p[1]) for p in it["sig"]["inputs"] if is_node(p[0]) and p[0][0] == "pident"]
        for pname, pty in params:
            ty = re.sub(r"^&(mut )?", "", pty).strip()
            ty = re.sub(r"^Box<(.*)>$", r"\1", ty)
            if ty in enums:
                en = enums[ty]
                for m in find(it["body"], "match"):
                    if render(m[1]).lstrip("&*") != pname:
                        continue
                    have = set()
                    wild = None
                    for arm in m[2]:
                        alts = arm[0][1] if arm[0][0] == "por" else [arm[0]]
                        for alt in alts:
                            if alt[0] in ("pts", "ppath", "pstruct") and alt[1].startswith(ty + "::"):
                                have.add(alt[1].split("::")[-1])
                            elif alt[0] in ("pwild", "pident"):
                                wild = arm
                    n1 += 1
                    missing = sorted(v for v in built.get(ty, ()) if v not in have)
                    if wild is None:
                        rep.ok("C08-R1", "%s:%s" % (it["name"], ty))
                        continue
                    wtxt = render(wild[2])
                    bad = re.search(r"todo!|unimplemented!|unreachable!|panic|\"\"|String::new\(\)", wtxt) is not None
                    if missing and bad:
                        rep.bad("C08-R1", "%s:%s:swallows:%s" % (it["name"], ty, ",".join(missing)),
                                "Formatter::%s matches %s with a wildcard arm (`%s`) that swallows the parser-constructible variant(s) %s: such a node is dropped or panics when formatted" % (it["name"], ty, wtxt[:40], missing),
                                "src/syntax/src/formatter.rs (expanded line %d)" % wild[3])
                    else:
                        rep.ok("C08-R1", "%s:%s" % (it["name"], ty), sample={"method": it["name"], "enum": ty, "arms": sorted(have)})
            elif ty in structs:
                st = structs[ty]
                fields = [f for f in st["variants"][0]["fields"] if not re.search(r"SourceRange|SourceLocation", f[1]) and f[0] not in ("tokens", "src_range", "id")]
                if len(fields) < 2 or fields[0][0].isdigit():
                    continue
                used = set()
                for fa in find(it["body"], "field"):
                    base = fa[1]
                    while is_node(base) and base[0] in ("un", "ref", "paren"):
                        base = base[2]
                    if path_of(base) == pname:
                        used.add(fa[2])
                # whole-node hand-off (e.g. format!("{:?}", node) or node.clone() to a helper) counts as reading it
                def is_param(a):
                    while is_node(a) and a[0] in ("ref", "un", "paren"):
                        a = a[2]
                    return path_of(a) == pname
                whole = any(is_param(a) for c in find(it["body"], "call") for a in c[2]) or \
                    any(is_param(a) for c in find(it["body"], "mcall") for a in c[4]) or \
                    any(is_param(c[1]) for c in find(it["body"], "mcall")) or \
                    any(re.search(r"\b%s\b" % re.escape(pname), mm[2]) for mm in find(it["body"], "macro"))
                n2 += 1
                miss = [f[0] for f in fields if f[0] not in used]
                if miss and not whole:
                    rep.bad("C08-R2", "%s:%s:unread:%s" % (it["name"], ty, ",".join(miss)),
                            "Formatter::%s(%s: &%s) never reads field(s) %s: that part of the node is not reproduced in the formatted text" % (it["name"], pname, ty, miss), "src/syntax/src/formatter.rs (expanded line %d)" % it["line"])
                else:
                    rep.ok("C08-R2", "%s:%s" % (it["name"], ty), sample={"method": it["name"], "struct": ty, "fields": [f[0] for f in fields]})
    rep.floor("C08-R1", "enum matches in emitters", n1, 20)
    rep.floor("C08-R2", "struct emitters", n2, 25)
    # R3 operator literals
    accepted = defaultdict(set)     # (Enum, Variant) -> literals the leaf accepts
    for it in items:
        if it["k"] != "fn" or "formatter" in it["mod"]:
            continue
        vars_ = set()
        for p in find(it["body"], "path"):
            m = re.match(r"^(\w+Op)::(\w+)$", p[1])
            if m and m.group(1) in OP_ENUMS:
                vars_.add((m.group(1), m.group(2)))
        if len(vars_) != 1:
            continue
        lits = set()
        for c in find(it["body"], "call"):
            if path_of(c[1]) == "tag" and c[2] and c[2][0][0] == "str":
                lits.add(c[2][0][1])
        if lits:
            accepted[next(iter(vars_))] |= lits
    rep.floor("C08-R3", "operator variants with a parser leaf", len(accepted), 30)
    str_consts = {}
    for it in items:
        if it["k"] in ("const", "static", "iconst") and is_node(it.get("val")):
            v = it["val"]
            while is_node(v) and v[0] in ("ref", "paren"):
                v = v[2] if v[0] == "ref" else v[1]
            if is_node(v) and v[0] == "str":
                str_consts.setdefault(it["name"], v[1])
    n3 = 0
    for it in fm:
        for m in find(it["body"], "match"):
            for arm in m[2]:
                p = arm[0]
                if p[0] == "ppath":
                    mm = re.match(r"^(\w+Op)::(\w+)$", p[1])
                    if not mm or mm.group(1) not in OP_ENUMS:
                        continue
                    key = (mm.group(1), mm.group(2))
                    lits = [s[1] for s in find(arm[2], "str")]
                    if not lits:
                        # a named string constant (`LogicOp::Xor => Self::XOR_SYMBOL.to_string()`) is its text
                        lits = [str_consts[last_seg(x[1])] for x in find(arm[2], "path") if last_seg(x[1]) in str_consts]
                    if len(lits) != 1 or key not in accepted:
                        continue
                    lit = lits[0]
                    n3 += 1
                    ok = lit in accepted[key]
                    clash = sorted("%s::%s" % k for k, v in accepted.items() if k != key and lit in v)
                    rep.check(ok and not clash, "C08-R3", "%s::%s" % key if ok and not clash else "%s::%s:%s" % (key[0], key[1], lit),
                              "the formatter prints %s::%s as `%s`; the parser leaf of that variant accepts %s%s: the formatted text re-parses to a different operator or not at all" % (
                                  key[0], key[1], lit, sorted(accepted[key]), (" and `%s` is also accepted for %s" % (lit, clash)) if clash else ""),
                              "src/syntax/src/formatter.rs (expanded line %d)" % arm[3], sample={"variant": "%s::%s" % key, "literal": lit, "leaf_accepts": sorted(accepted[key])})
    rep.floor("C08-R3", "operator literals compared", n3, 30)
    # R5
    n5 = 0
    for it in fm:
        rendered = set()
        for st in find(it["body"], "let"):
            if len(st) == 4 and st[2] is not None and st[1][0] == "pident":
                if any(is_node(mc[1]) and path_of(mc[1]) == "self" for mc in find(st[2], "mcall")):
                    rendered.add(st[1][1])
        for node in list(find(it["body"], "if")):
            cond = node[1]
            insp = [mc for mc in find(cond, "mcall") if mc[2] in ("ends_with", "starts_with", "contains", "find", "rfind", "matches")]
            hit = [mc for mc in insp if any(x[1] in rendered for x in find(mc[1], "path"))]
            if not hit:
                continue
            n5 += 1
            lits = [s[1] for s in find(node[2], "str")] + ([s[1] for s in find(node[3], "str")] if node[3] is not None else [])
            paths = [render(x) for x in ([node[2][-1][1]] if node[2] and node[2][-1][0] == "expr" else [])]
            changes_literal = any(l.strip() == "" for l in lits) or any(l.strip() for l in lits)
            rep.check(not changes_literal, "C08-R5", "%s:literal-chosen-by-child-text" % it["name"],
                      "Formatter::%s chooses what to emit (`%s`) by inspecting the rendered text of a child (`%s`): a terminator/separator that the grammar relies on is emitted for some children and dropped for others" % (
                          it["name"], lits[:3], render(cond)[:70]), "src/syntax/src/formatter.rs (expanded line %d)" % it["line"])
    rep.ok("C08-R5", "scanned")
    # ---- R6: no emitter drops elements of a list it is given (text path)
    rep.rule("C08-R6", "text-mode emitters emit every element of the lists they are given: no filter/skip/take/first/last/continue on the text path (a dropped element is a dropped piece of the program)")
    DROPPERS = {"filter", "filter_map", "skip", "take", "step_by", "skip_while", "take_while", "dedup", "truncate", "retain", "pop", "remove", "split_first", "split_last", "first", "last", "nth", "find", "find_map", "position"}
    # reviewed exceptions: (method, construct) -> reason
    R6_OK = {("function_define", "first"): "match-arm function form: the grammar gives it exactly one output kind, `first()` reads that one"}

    def text_path_nodes(n, out):
        """pre-order walk that does not enter the html-only branch of `if self.html`"""
        if not isinstance(n, list):
            return
        if is_node(n):
            if n[0] == "if":
                c = render(n[1]).replace(" ", "")
                if c in ("self.html",):
                    if n[3] is not None:
                        text_path_nodes(n[3], out)
                    return
                if c in ("!self.html",):
                    text_path_nodes(n[2], out)
                    return
            if n[0] == "match" and is_node(n[1]) and n[1][0] == "tuple":
                # match (x, self.html) { (.., true) => html, (.., false) => text }
                pos = [i for i, e_ in enumerate(n[1][1]) if render(e_).replace(" ", "") == "self.html"]
                if pos:
                    out.append(n)
                    text_path_nodes(n[1], out)
                    for a in n[2]:
                        pt = a[0]
                        if pt[0] == "ptuple" and pos[0] < len(pt[1]) and render_pat(pt[1][pos[0]]) == "true":
                            continue
                        text_path_nodes(a[2], out)
                    return
            out.append(n)
        for ch in n:
            if isinstance(ch, list):
                text_path_nodes(ch, out)
    n6 = 0
    for it in fm:
        if it["name"] not in reach:
            continue
        nodes = []
        text_path_nodes(it["body"], nodes)
        n6 += 1
        hits = []
        for n in nodes:
            if n[0] == "mcall" and n[2] in DROPPERS:
                hits.append(n[2])
            elif n[0] == "continue":
                hits.append("continue")
        if not hits:
            rep.ok("C08-R6", "%s:emits-all" % it["name"])
        for h in sorted(set(hits)):
            if (it["name"], h) in R6_OK:
                rep.ok("C08-R6", "%s:%s:reviewed" % (it["name"], h), sample={"method": it["name"], "construct": h, "reason": R6_OK[(it["name"], h)]})
                continue
            rep.bad("C08-R6", "%s:%s" % (it["name"], h), "Formatter::%s uses `%s` on its text path: elements of the node's lists can be left out of the formatted text, which then re-parses to a different tree" % (it["name"], h),
                    "src/syntax/src/formatter.rs (expanded line %d)" % it["line"])
    rep.floor("C08-R6", "emitters scanned for element dropping", n6, 100)
    # ---- R14: the assembled text is not rewritten on the text path
    rep.rule("C08-R14", "on the text path no emitter (nor format() itself) rewrites text that is already rendered: no replace/trim/split/lines/dedup/case-mapping of a string - "
                        "such a pass cannot tell program text from the inside of a string literal or a comment, so it changes tokens")
    REWRITERS = {"replace", "replacen", "replace_range", "trim", "trim_start", "trim_end", "trim_matches", "trim_start_matches", "trim_end_matches", "strip_prefix", "strip_suffix",
                 "split", "splitn", "rsplit", "split_terminator", "split_whitespace", "split_inclusive", "lines", "dedup", "dedup_by", "dedup_by_key", "to_lowercase", "to_uppercase",
                 "to_ascii_lowercase", "to_ascii_uppercase", "truncate", "retain", "drain", "remove", "pop", "rev", "sort", "sort_by", "sort_unstable"}
    R14_OK = {("image", "trim_matches"): "strips the quotes of an option VALUE token and writes them back (`k: \"v\"`): token text, not rendered program text; idempotent",
              ("paragraph_element", "split"): "SectionReference: splits the reference's own token text at '.' to compute the link id; the text written is the token itself"}
    n14 = 0
    for it in fm:
        if it["name"] not in reach:
            continue
        nodes = []
        text_path_nodes(it["body"], nodes)
        n14 += 1
        hits = sorted({n[2] for n in nodes if n[0] == "mcall" and n[2] in REWRITERS})
        if not hits:
            rep.ok("C08-R14", "%s:text-not-rewritten" % it["name"])
        for h in hits:
            if (it["name"], h) in R14_OK:
                rep.ok("C08-R14", "%s:%s:reviewed" % (it["name"], h), sample={"method": it["name"], "construct": h, "reason": R14_OK[(it["name"], h)]})
                continue
            rep.bad("C08-R14", "%s:%s" % (it["name"], h), "Formatter::%s applies `%s` on its text path: rendered program text is rewritten after the node emitters produced it "
                    "(string literals and comments inside it are rewritten too), so the formatted program re-parses to different tokens" % (it["name"], h),
                    "src/syntax/src/formatter.rs (expanded line %d)" % it["line"])
    rep.floor("C08-R14", "emitters scanned for text rewriting", n14, 100)
    # ---- R11: no HTML on the text path
    rep.rule("C08-R11", "text-mode emitters write no HTML: no literal on the text path of an emitter contains an HTML entity or tag (`&lt;`, `&gt;`, `<span`, `<div`, `</`): such text is not Mech source")
    from lib.emit import parse_format
    HTMLISH = re.compile(r"&lt;|&gt;|&amp;|&quot;|</?(span|div|table|tr|td|th|a|p|li|ul|ol|img|h[1-6]|code|pre|em|strong|section|thead|tbody)\b")
    n11 = 0
    for it in fm:
        if it["name"] not in reach or "html" in it["name"]:
            continue
        ptys = [re.sub(r"^&(mut )?", "", p_[1]).strip() for p_ in it["sig"]["inputs"] if is_node(p_[0]) and p_[0][0] == "pident"]
        if not ptys or ptys[0] in ("str", "String", "u64", "usize", "bool"):
            continue        # back-matter builders without a node argument (works cited, footnotes, headings) belong to the HTML document assembly
        nodes = []
        text_path_nodes(it["body"], nodes)
        n11 += 1
        hits = []
        for n_ in nodes:
            txt = None
            if n_[0] == "str":
                txt = n_[1]
            elif n_[0] == "macro" and last_seg(n_[1]) in ("format_args", "format"):
                txt = parse_format(n_[3] if len(n_) > 3 else n_[2])[0]
            if txt and HTMLISH.search(txt):
                hits.append(HTMLISH.search(txt).group(0))
        if not hits:
            rep.ok("C08-R11", "%s:no-html-on-text-path" % it["name"])
            continue
        rep.bad("C08-R11", "%s:%s" % (it["name"], ",".join(sorted(set(hits)))[:40]),
                "Formatter::%s writes HTML (%s) on its text path (outside `if self.html`): the formatted text contains markup instead of Mech syntax and does not re-parse" % (it["name"], sorted(set(hits))),
                "src/syntax/src/formatter.rs (expanded line %d)" % it["line"])
    rep.floor("C08-R11", "emitters scanned for HTML on the text path", n11, 100)
    from rules import c08_grammar
    c08_grammar.run(F, rep, fm, reach)
    # ---- R16: the spelling written for a token variant is reachable in the grammar (ordered choice, precedence descent, cut)
    from rules import c08_reach
    c08_reach.run(F, rep, fm, reach, enums, structs)
    from rules import c08_siblings
    c08_siblings.run(F, rep)   # R17: the two renderers of a node variant fill the holes of one template with the same components
    # ---- R10: based-literal prefixes: the emitter of a RealNumber variant writes a prefix its parser leaf accepts
    rep.rule("C08-R10", "based literals: the prefix the formatter writes for RealNumber::{Hexadecimal,Octal,Binary,Decimal} is a tag the parser leaf building that variant accepts")
    from lib.emit import parse_format, split_format
    leaf_tags = defaultdict(set)
    for it in items:
        if it["k"] != "fn" or "formatter" in it["mod"] or not it.get("body"):
            continue
        vs = {m.group(1) for x in find(it["body"], "path") for m in [re.match(r"^RealNumber::(\w+)$", x[1])] if m}
        tags = {c[2][0][1] for c in find(it["body"], "call") if path_of(c[1]) == "tag" and c[2] and c[2][0][0] == "str" and re.match(r"^0[a-zA-Z]$", c[2][0][1])}
        if len(vs) == 1 and tags:
            leaf_tags[next(iter(vs))] |= tags
    rep.floor("C08-R10", "based-literal parser leaves", len(leaf_tags), 4)
    n10 = 0
    for it in fm:
        if it["name"] not in reach:
            continue
        for m in find(it["body"], "match"):
            for arm in m[2]:
                mm = re.match(r"^RealNumber::(\w+)", render_pat(arm[0]))
                if not mm or mm.group(1) not in leaf_tags:
                    continue
                fmts = [parse_format(x[3] if len(x) > 3 else x[2])[0] for x in find(arm[2], "macro") if last_seg(x[1]) in ("format_args", "format")]
                fmts = [f for f in fmts if f is not None]
                if len(fmts) != 1:
                    continue
                parts = split_format(fmts[0])
                prefix = parts[0][1] if parts and parts[0][0] == "lit" else ""
                n10 += 1
                rep.check(prefix in leaf_tags[mm.group(1)], "C08-R10", "%s:RealNumber::%s" % (it["name"], mm.group(1)),
                          "Formatter::%s prints RealNumber::%s with the prefix `%s`; the parser leaf of that variant accepts %s: the formatted literal re-parses as another number or not at all" % (
                              it["name"], mm.group(1), prefix, sorted(leaf_tags[mm.group(1)])), "src/syntax/src/formatter.rs (expanded line %d)" % arm[3],
                          sample={"variant": mm.group(1), "prefix": prefix, "leaf_accepts": sorted(leaf_tags[mm.group(1)])})
    rep.floor("C08-R10", "based-literal emitter arms compared", n10, 4)
    rep.analysed = {"formatter_methods": len(fm), "enum_matches": n1, "struct_emitters": n2, "operator_literals": n3, "child_text_inspections": n5}
    rep.analysed.update({"reach_" + k: v for k, v in getattr(rep, "analysed_reach", {}).items()})
