"""C08-R16: the spelling the formatter writes for a token variant is REACHABLE in the grammar.

C08-R3 compares sets: the literal written for `LogicOp::Xor` is one of the tags of the parser leaf that builds `LogicOp::Xor`.  A tag can be
listed and still never be read: nom's `alt` is an ORDERED choice (an earlier alternative that accepts a prefix wins) and the formula grammar
is a descent through precedence levels `next (op cut(next))*` - after an operand the operators of the TIGHTER levels are tried first, and
`cut` makes the failure of their right operand final, so a looser level never gets to try a spelling that starts with a tighter operator.

For EVERY table `Enum::Variant => "literal"` of the formatter over a field-less node enum (enumerated from the code: every `match` on a
path of the node whose arms name the variants of such an enum; 8 formula-operator classes through `formula_operator`/`term`, the op-assign
operators, both range-operator positions), this rule
  1. evaluates the emitters symbolically (lib/emitspec.py) to the TEXT the enclosing node emitter writes around the literal, operands
     standing as an identifier-like sentinel:  `§ ⊻ §`, `§..=§`, `§ += §`;
  2. evaluates the parser functions that build that node on this text (lib/pegsim.py: a concrete simulation of the combinator expressions
     of the parser's own source, ordered choice, `cut`, `is_not` look-aheads and white-space leaves included; the operand parsers -
     the bottom of the level chain that rules/c02.py extracts from the MIR, and the parsers of the node's other fields - are opaque);
  3. requires: the text is consumed completely, without hard failure, and the token values built on the way are exactly the variants the
     emitter was given, in order.
The literal and the separators the wrapper emitters add (` {} `) are taken together, so a spelling that glues with an identifier operand
(`a-b`), a leaf that needs white space the emitter does not write, an earlier alternative or a tighter level that takes a prefix are all the
same failed obligation.  What is decided is this structural fact about (emitter text, grammar); the round trip on real operands is not.
"""
import re
from collections import defaultdict
from lib.facts import CallGraph, find, walk, is_node, path_of, last_seg
from lib.grammar import Grammar, term_of, _applied, input_vars
from lib.emitspec import SpecEmitter, concretize, contains, free_groups, variant_name, OPERAND
from lib.pegsim import PegSim, OK, ERR, FAIL, UNK

RULE = "C08-R16"


def node_type(it):
    """(parameter name, node type) of a formatter method: its first named parameter"""
    ps = [(p[0][1], p[1]) for p in it["sig"]["inputs"] if is_node(p[0]) and p[0][0] == "pident"]
    if not ps:
        return None, None
    ty = re.sub(r"^&\s*(mut\s+)?", "", ps[0][1]).strip()
    ty = re.sub(r"^Box\s*<\s*(.*)\s*>$", r"\1", ty).strip()
    return ps[0][0], ty


def formula_levels(F):
    """(entry, [level fns loosest first], operand parser at the bottom) as simple names, from the MIR of the parser crate (rules/c02.py)"""
    from rules import c02
    cg = CallGraph(F, ["mech_syntax.lib", "mech_core.lib"])
    B = cg.bodies
    start = c02.EXPR + "formula"
    if start not in B:
        return None, [], None
    cur = start
    if c02.analyse_level(B, start) is None:
        cur = c02.level_info(B, B[start])[0]
        if cur is None:
            c = sorted(m for m in c02.View(B, start, stop=c02.is_parser).mentioned() if m != start and c02.parses(B.get(m), "Factor"))
            cur = c[0] if len(c) == 1 else None
    chain, seen = [], set()
    while cur and cur in B and cur not in seen:
        seen.add(cur)
        info = c02.analyse_level(B, cur)
        if info is None:
            break
        chain.append(cur)
        cur = info["left"]
    return last_seg(start), [last_seg(c) for c in chain], (last_seg(cur) if cur else None)


def identifier_glue(G, sim_fns):
    """characters the grammar accepts INSIDE an identifier besides letters / digits: the finite alternatives of the repetition in the parser of
    `Identifier` (from the code, not a list)"""
    out = set()
    for n, it in G.fns.items():
        if G.ret_type(n) != "Identifier":
            continue
        for c in find(it["body"], "call"):
            if path_of(c[1]) and last_seg(path_of(c[1])) in ("many0", "many1") and c[2]:
                t = term_of(c[2][0])
                alts = t[1] if t[0] == "alt" else [t]
                for a in alts:
                    l = G.lang(a)
                    if l:
                        out |= {x for x in l if len(x) == 1}
    return out


def walk_parts(parts):
    for p in parts:
        yield p
        k = p[0]
        if k == "site":
            yield from walk_parts(p[3])
        elif k == "opt":
            yield from walk_parts(p[2])
        elif k == "list":
            yield from walk_parts(p[3])
        elif k == "alt":
            for br in p[1:]:
                if isinstance(br, list):
                    yield from walk_parts(br)


class Tables:
    """the formatter's variant -> literal tables and the text written around them"""

    def __init__(self, fm, reach, enums, structs, operand=OPERAND):
        self.operand = operand
        self.by_name = {it["name"]: it for it in fm if it["name"] in reach}
        self.enums, self.structs = enums, structs
        self.token_enums = {n for n, a in enums.items() if a["variants"] and all(not v["fields"] for v in a["variants"]) and not n.startswith("__")}
        # wrapper enums: a variant carries exactly one token enum (FormulaOperator::Logic(LogicOp)), transitively
        self.wrappers = set()
        changed = True
        while changed:
            changed = False
            for n, a in enums.items():
                if n in self.wrappers or n in self.token_enums:
                    continue
                for v in a["variants"]:
                    if len(v["fields"]) == 1 and last_seg(re.sub(r"<.*", "", v["fields"][0][1])) in (self.token_enums | self.wrappers):
                        self.wrappers.add(n)
                        changed = True
                        break
        self._ov = {}
        self.origin = defaultdict(set)      # Enum::Variant -> emitter methods holding the table arm
        self.undecided = []

    def spec(self, it, pname, choose):
        try:
            return SpecEmitter(it, pname, choose)
        except Exception as ex:           # the evaluator is best effort
            self.undecided.append("%s: emitter not read (%s)" % (it["name"], ex))
            return None

    def opvariants(self, m):
        """texts a token / wrapper emitter can write: [(text, sites)] with sites [(Enum::Variant, slot, start, end)], one entry per token variant it can be given"""
        if m in self._ov:
            return self._ov[m]
        self._ov[m] = []
        it = self.by_name.get(m)
        if it is None:
            return []
        pname, ty = node_type(it)
        if ty not in self.token_enums and ty not in self.wrappers:
            return []
        base = self.spec(it, pname, {})
        if base is None:
            return []
        vs = [v for v in base.seen.get("", []) if v[0] == ty]
        out = []
        for v in vs:
            e = self.spec(it, pname, {"": v})
            if e is None:
                continue
            tpl = e.template
            kids = [(p[1], p[2]) for p in walk_parts(tpl) if p[0] == "fld" and len(p) > 2 and p[2] in self.by_name and p[2] != m and self.opvariants(p[2])]
            if ty in self.token_enums or (len(v) == 3 and v[2][0] in self.token_enums):
                # the arm names the token variant itself (`LogicOp::Xor => ..`, or nested: `FormulaOperator::Logic(LogicOp::Xor) => ..`)
                c = concretize(tpl, {}, "", self.operand)
                if c is None or self.operand in c[0]:
                    self.undecided.append("%s: text of %s not a closed literal" % (m, variant_name(v)))
                    continue
                self.origin[variant_name(v)].add(m)
                out.append(c)
            else:
                for q, child in kids[:1]:
                    for sc in self.opvariants(child):
                        c = concretize(tpl, {q: sc}, q, self.operand)
                        if c is None:
                            self.undecided.append("%s: text around %s not decided" % (m, child))
                            continue
                        out.append(c)
        self._ov[m] = out
        return out

    def contexts(self):
        """node emitters (struct parameter) that write a token table: -> [(method, node type, [(slot, Enum::Variant, text, sites)])]"""
        res = []
        for m, it in sorted(self.by_name.items()):
            pname, ty = node_type(it)
            if ty not in self.structs:
                continue
            base = self.spec(it, pname, {})
            if base is None:
                continue
            inline = {}
            for p, vs in base.seen.items():
                real = [v for v in vs if v != ("*", "*")]
                if real and all(len(v) == 2 and v[0] in self.token_enums for v in real) and len({v[0] for v in real}) == 1:
                    inline[p] = real
            child = {}
            for p in walk_parts(base.template):
                if p[0] == "fld" and len(p) > 2 and p[2] in self.by_name and p[2] != m:
                    _, cty = node_type(self.by_name[p[2]])
                    if (cty in self.token_enums or cty in self.wrappers) and self.opvariants(p[2]):
                        child[p[1]] = p[2]
            if not inline and not child:
                continue
            scen = []
            slots = sorted(set(inline) | set(child))
            for s in slots:
                alts = [("inline", v) for v in inline[s]] if s in inline else [("child", sc) for sc in self.opvariants(child[s])]
                for kind, alt in alts:
                    choose = {p: vs[0] for p, vs in inline.items()}
                    picks = {q: self.opvariants(c)[0] for q, c in child.items()}
                    if kind == "inline":
                        choose[s] = alt
                    else:
                        picks[s] = alt
                    e = self.spec(it, pname, choose)
                    if e is None:
                        continue
                    name = variant_name(alt) if kind == "inline" else (alt[1][0][0] if alt[1] else "?")
                    # node shapes: the groups (optional parts, lists) that do not hold this slot may be present or absent - the text has to be read
                    # back in ONE of the shapes (a list the parser wants non-empty, an optional part it wants present)
                    free = free_groups(e.template, s)[:4]
                    cands = []
                    for mask in range(1 << len(free)):
                        present = {id(g) for i, g in enumerate(free) if mask >> i & 1}
                        c = concretize(e.template, picks, s, self.operand, present)
                        if c is None:
                            continue
                        fs = [x for x in c[1] if x[1] == s]
                        if len(fs) != 1:
                            continue
                        if not any(c[0] == o[0] for o in cands):
                            cands.append((c[0], c[1], fs[0]))
                    if not cands:
                        self.undecided.append("%s: text around slot `%s` (%s) not decided" % (m, s, name))
                        continue
                    scen.append((s, name, cands))
            res.append((m, ty, scen))
        return res


def leaf_tags(G, names, token_enums):
    """Enum::Variant -> literals listed by the parser functions (among `names`) that return exactly that variant"""
    out = defaultdict(set)
    for n in names:
        it = G.fns.get(n)
        if it is None:
            continue
        vs = set()
        for p in find(it["body"], "path"):
            m = re.match(r"^(?:\w+::)*(\w+)::(\w+)$", p[1])
            if m and m.group(1) in token_enums:
                vs.add("%s::%s" % (m.group(1), m.group(2)))
        if len(vs) != 1:
            continue
        ahead = set()           # tags inside a look-ahead (`is_not(tag("<-"))`) are not spellings of the token
        for c in find(it["body"], "call"):
            if path_of(c[1]) and last_seg(path_of(c[1])) in ("is_not", "not", "peek", "is"):
                ahead |= {id(x) for x in find(c[2], "call")}
        for c in find(it["body"], "call"):
            if id(c) not in ahead and path_of(c[1]) and last_seg(path_of(c[1])) == "tag" and c[2] and is_node(c[2][0]) and c[2][0][0] == "str":
                out[next(iter(vs))].add(c[2][0][1])
    return out


def builders_of(G, sim_helpers, pred):
    """parser functions that build a node (pred(body) is true) themselves or through the plain helper functions they call (`fold_level(first, rest)`)"""
    hb = set()
    changed = True
    while changed:
        changed = False
        for n, it in sim_helpers.items():
            if n in hb:
                continue
            if pred(it["body"]) or any(last_seg(p[1]) in hb for p in find(it["body"], "path")):
                hb.add(n)
                changed = True
    return sorted(n for n, it in G.fns.items() if pred(it["body"]) or any(last_seg(p[1]) in hb for p in find(it["body"], "path")))


def closure(G, root, stubs):
    seen, todo = set(), [root]
    while todo:
        n = todo.pop()
        if n in seen or n in stubs or n not in G.fns:
            continue
        seen.add(n)
        for p in find(G.fns[n]["body"], "path"):
            s = last_seg(p[1])
            if s in G.fns and s not in seen:
                todo.append(s)
    return seen


def describe(sim, r, text, focus, expected, root):
    """how the grammar reads the text instead"""
    v, slot, a, b = focus
    parts = []
    leaf = None
    for ev in sim.log:
        if ev[0] == "leaf" and ev[3] < b and ev[4] > a - 1 and v not in ev[2]:
            leaf = ev
            break
    if leaf is not None:
        parts.append("`%s` (%s) accepts `%s`%s before the leaf of %s is tried" % (
            leaf[1], ", ".join(leaf[2]), text[leaf[3]:leaf[4]], " - a prefix of the written token" if leaf[4] < b + 1 and leaf[4] <= b else "", v))
    hard = [ev for ev in sim.log if ev[0] == "hard"]
    if r.status == FAIL and hard:
        h = hard[-1]
        parts.append("what follows (`%s`) is not an operand and `%s` in `%s` makes that failure final: no other alternative or looser level is tried" % (text[h[4]:], h[3], h[1]))
    elif r.status == ERR:
        parts.append("`%s` rejects the text" % root)
    elif r.status == OK and r.pos < len(text):
        parts.append("`%s` stops before `%s` (the rest is not read as part of this node)" % (root, text[r.pos:]))
    if r.status == OK and list(r.ops) != expected:
        parts.append("it is read back as %s instead of %s" % (list(r.ops) or "no token value", expected))
    return "; ".join(parts) or "status %s" % r.status


def unary_sites(rep, T, G, items, enums, chain, entry, bottom, sentinel, glue):
    """prefix / postfix / circumfix operators: the variants of the OPERAND type of the level chain (what the bottom parser returns) that wrap exactly one
    operand of that same type (`Factor::Negate(Box<Factor>)`): the affix the emitter writes around the operand is read back by the parser function
    that builds that variant."""
    oty = G.ret_type(bottom)
    n = 0
    if oty not in enums:
        return 0
    for m, it in sorted(T.by_name.items()):
        pname, ty = node_type(it)
        if ty != oty:
            continue
        base = T.spec(it, pname, {})
        if base is None:
            continue
        for v in [v for v in base.seen.get("", []) if v[0] == ty and len(v) == 2]:
            var = [x for x in enums[ty]["variants"] if x["name"] == v[1]]
            if not var or len(var[0]["fields"]) != 1 or set(re.findall(r"mech_core::nodes::(\w+)", var[0]["fields"][0][1])) != {oty}:
                continue
            e = T.spec(it, pname, {"": v})
            c = concretize(e.template, {}, "", sentinel) if e is not None else None
            name = "%s::%s" % v
            key = "%s:unary:%s" % (m, name)
            if c is None or c[0].count(sentinel) != 1 or not re.sub(r"\s", "", c[0].replace(sentinel, "")):
                rep.note("undecided", {"rule": RULE, "emitter": m, "variant": name, "why": "text around the operand not a closed affix"})
                continue
            text = c[0]
            builders = builders_of(G, PegSim(items).helpers, lambda body: any(re.search(r"(^|::)%s::%s$" % (ty, v[1]), p[1]) for p in find(body, "path")))
            if not builders:
                rep.note("token_variant_not_built_by_the_parser_here", {"emitter": m, "variant": name, "literal": text})
                continue
            verdicts = []
            for b in builders:
                if b == bottom:
                    # the operand parser itself applies this (postfix) operator: evaluate it with its own choice of alternatives standing for the operand
                    sim = PegSim(items, T.token_enums, set(), sentinel, glue)
                    sim.opaque_helpers = True
                else:
                    sim = PegSim(items, T.token_enums, {bottom}, sentinel, glue)
                r = sim.run(b, text)
                good = r.status == OK and r.pos == len(text)
                verdicts.append(("ok" if good else "unk" if r.status == UNK else "bad", b, r.why if r.status == UNK else "`%s` %s" % (b, "stops before `%s`" % text[r.pos:] if r.status == OK else "rejects the text")))
            if any(x[0] == "ok" for x in verdicts):
                n += 1
                rep.ok(RULE, key, sample={"emitter": m, "variant": name, "text": text, "read_back_by": [x[1] for x in verdicts if x[0] == "ok"]})
            elif any(x[0] == "unk" for x in verdicts):
                rep.note("undecided", {"rule": RULE, "emitter": m, "variant": name, "text": text, "why": [x[2] for x in verdicts if x[0] == "unk"][0]})
            else:
                n += 1
                affix = text.replace(sentinel, "{}")
                rep.bad(RULE, "%s:%s" % (key, affix), "the formatter prints %s as `%s` (%s = the operand); the parser function(s) building that variant do not read it back: %s. "
                        "The formatted text does not parse again, or parses to another tree" % (name, text, sentinel, "; ".join(x[2] for x in verdicts)), "src/syntax/src/formatter.rs (Formatter::%s)" % m)
    return n


def run(F, rep, fm, reach, enums, structs):
    rep.rule(RULE, "reachable spelling: for every variant->literal table of the formatter over a field-less node enum (operator classes, op-assign, range operators), the text the "
                   "node emitter writes around the literal (operands opaque) is consumed by the parser functions that build the node - simulated from their combinator source with "
                   "ordered choice, `cut` and look-aheads - completely, without hard failure, building exactly the given variants")
    items = F.syn("mech_syntax.lib")
    G = Grammar(items)
    entry, chain, bottom = formula_levels(F)
    rep.floor(RULE, "precedence levels the descent passes before an operator of the loosest level is tried", len(chain), 7)
    if not chain or bottom is None:
        rep.bad(RULE, "anchor-lost:operand-parser", "the operand parser at the bottom of the formula level chain was not found")
        return
    tags_all = {s[1] for it in G.fns.values() for c in find(it["body"], "call") if path_of(c[1]) and last_seg(path_of(c[1])) == "tag" for s in c[2][:1] if is_node(s) and s[0] == "str"}
    sentinel = next(ch for ch in (OPERAND, "⁂", "∴", "⧫") if not any(ch in t for t in tags_all))
    SpecEmitter.consts = {it["name"]: it["val"] for it in items if it["k"] in ("const", "static", "iconst") and is_node(it.get("val")) and it["val"][0] in ("str", "ref")}
    T = Tables(fm, reach, enums, structs, sentinel)
    glue = identifier_glue(G, None)
    rep.note("reach_operand_model", {"sentinel": sentinel, "identifier_glue_characters": "".join(sorted(glue)), "levels": chain, "operand_parser": bottom})
    helpers = PegSim(items).helpers
    ctxs = T.contexts()
    n_ctx = n_site = n_und = 0
    tables = set()
    for m, ty, scen in ctxs:
        # parser functions that build this node; the text must be read back by (one of) the outermost of them
        builders = builders_of(G, helpers, lambda body: any(last_seg(s[1]) == ty for s in find(body, "struct")))
        roots = [n for n in builders if not any(n != o and any(last_seg(p[1]) == n for p in find(G.fns[o]["body"], "path")) for o in builders)]
        if not roots:
            rep.note("undecided", {"rule": RULE, "emitter": m, "why": "no parser function builds %s" % ty})
            continue
        # opaque operands: the parsers of the node's operand fields (every parser function returning the type of a non-token field), except the
        # precedence levels themselves - for those the operand is the parser at the bottom of the chain
        operand_types = set()
        for f in structs[ty]["variants"][0]["fields"]:
            for x in re.findall(r"mech_core::nodes::(\w+)", f[1]):
                if x not in T.token_enums and x not in T.wrappers and x != ty:
                    operand_types.add(x)
        stubs = {bottom} | {n for n in G.fns if G.ret_type(n) in operand_types and n not in chain and n != entry and n not in roots}
        for s, name, cands in scen:
            verdicts = []
            for root in roots:
                reachable = closure(G, root, stubs)
                built = set()
                for n in reachable:
                    for p in find(G.fns[n]["body"], "path"):
                        mm = re.match(r"^(?:\w+::)*(\w+)::(\w+)$", p[1])
                        if mm and mm.group(1) in T.token_enums:
                            built.add("%s::%s" % (mm.group(1), mm.group(2)))
                if name not in built:
                    verdicts.append(("unbuilt", root, None, None, cands[0]))
                    continue
                for cand in cands:
                    text, sites, focus = cand
                    expected = [x[0] for x in sites]
                    sim = PegSim(items, T.token_enums, stubs, sentinel, glue)
                    r = sim.run(root, text)
                    good = r.status == OK and r.pos == len(text) and list(r.ops) == expected
                    verdicts.append(("ok" if good else "unk" if r.status == UNK else "bad", root, r, sim, cand))
                    if good:
                        # parser-side observation (not a C08 obligation): spellings the leaf lists that cannot be read in this position
                        for alt in sorted(leaf_tags(G, reachable, T.token_enums).get(focus[0], ())):
                            if alt == text[focus[2]:focus[3]]:
                                continue
                            t2 = text[:focus[2]] + alt + text[focus[3]:]
                            s2 = PegSim(items, T.token_enums, stubs, sentinel, glue)
                            r2 = s2.run(root, t2)
                            if r2.status != UNK and not (r2.status == OK and r2.pos == len(t2) and list(r2.ops) == expected):
                                f2 = (focus[0], focus[1], focus[2], focus[2] + len(alt))
                                rep.note("parser_lists_unreachable_spelling", {"variant": focus[0], "spelling": alt, "text": t2, "how": describe(s2, r2, t2, f2, expected, root), "formatter_writes": text[focus[2]:focus[3]]})
                        break
            key = "%s:%s:%s" % (m, s, name)
            text, sites, focus = cands[0]
            lit = text[focus[2]:focus[3]]
            if all(v[0] == "unbuilt" for v in verdicts):
                rep.note("token_variant_not_built_by_the_parser_here", {"emitter": m, "slot": s, "variant": name, "literal": lit})
                continue
            oks = [v for v in verdicts if v[0] == "ok"]
            if oks:
                n_site += 1
                tables.add((m, s))
                rep.ok(RULE, key, sample={"emitter": m, "slot": s, "variant": name, "text": oks[0][4][0], "read_back_by": oks[0][1]})
                continue
            if any(v[0] == "unk" for v in verdicts):
                # the mechanism is there (a table, a parser of the node) in a form the simulation cannot evaluate
                n_und += 1
                u = [v for v in verdicts if v[0] == "unk"][0]
                rep.note("undecided", {"rule": RULE, "emitter": m, "slot": s, "variant": name, "text": u[4][0], "why": u[2].why})
                continue
            n_site += 1
            tables.add((m, s))
            b = [v for v in verdicts if v[0] == "bad"][0]
            text, sites, focus = b[4]
            expected = [x[0] for x in sites]
            holder = "/".join(sorted(T.origin.get(name, ()))) or m
            rep.bad(RULE, "%s:%s" % (key, lit),
                    "Formatter::%s prints %s as `%s`; Formatter::%s writes `%s` (%s = an operand) and the grammar (`%s`) does not read that back as %s: %s. "
                    "The formatted text does not parse again, or parses to another tree" % (holder, name, lit, m, text, sentinel, b[1], expected, describe(b[3], b[2], text, focus, expected, b[1])),
                    "Formatter::%s" % holder, detail={"text": text, "expected": expected, "status": b[2].status, "read": list(b[2].ops), "stopped_at": b[2].pos,
                                                                               "shapes_tried": [v[4][0] for v in verdicts if v[0] == "bad"]})
    n_unary = unary_sites(rep, T, G, items, enums, chain, entry, bottom, sentinel, glue)
    for u in sorted(set(T.undecided)):
        rep.note("undecided", {"rule": RULE, "why": u})
    n_ctx = len({m for m, _ in tables})
    rep.floor(RULE, "node emitters that write a variant->literal table and have a parser", n_ctx, 3)
    rep.floor(RULE, "variant->literal tables (emitter, slot)", len(tables), 4)
    rep.floor(RULE, "token spellings simulated against the grammar", n_site, 47)
    rep.floor(RULE, "prefix / postfix / circumfix operator spellings of the operand type simulated", n_unary, 4)
    rep.analysed_reach = {"contexts": n_ctx, "spellings": n_site, "undecided": n_und}
