"""C17-R9 - the ARGUMENT GATE of a state machine call ("arguments of the wrong kind are rejected").

Clause: before a machine is started every declared input that carries a kind annotation is compared with the kind of the argument given for it, and a
machine is not started with an argument of another kind (nor with another number of arguments).

Structural facts decided here (nothing is run):

  (a) TRUTH TABLE of the compatibility predicate.  The predicate is found by ROLE: a function of the crate with the signature
      `(&ValueKind, &ValueKind) -> bool` that is called between the entry point of a machine call and the executor.  The compiler's expansion of
      its body (and of the nested / private helpers it calls) is EVALUATED (lib/adteval.py) on a finite universe of kinds generated from the
      definition of `ValueKind` itself (every variant, payloads varied field by field: element kind, dimensions, size, names, nesting, references on
      the argument side), and the resulting table is compared with what the property states:
            accept  <=  the kinds are equal (a reference to a value has the kind of the value);
            accept  <=  the declaration is an array kind WITHOUT dimensions and the argument is an array of the same element kind (`<[u64]>`),
                        likewise a set / table kind without a size (`<{u64}>`), and a declaration with the any-kind `<*>`;
            reject  <=  anything else: another variant, another element kind, another shape / size where the declaration states one, another payload.
      The spelling of the predicate is
      irrelevant: match + guard, nested if-let, early returns, matches!, discriminant comparison, helper functions all give the same table.
  (b) ROLES at every call of the predicate: the operand in the `declared` position derives from the declaration's annotation (nodes::Var /
      KindAnnotation), the other from the argument value (Value), and both come from the same element of the loop over (declaration, argument) pairs.
  (c) POLARITY: after the outcome `false` the executor is unreachable; after `true` it is reachable.
  (d) COVERAGE: inside the loop over the declarations there is no path from the loop element to the next iteration that avoids the predicate, other
      than through the `None` outcome of the test of the declaration's optional annotation (and error exits).
  (e) ARGUMENT COUNT: the comparison of the number of declarations with the number of arguments is evaluated for all (m, n) in 0..3 x 0..3; the
      executor is reachable exactly when m == n.

Helpers of the module are expanded in place (lib/mirinline.py), so extracting the check into a function, inverting the guard clause, `?` instead of
`return Err`, a `match` instead of `if let` change nothing.  Forms that are recognised but cannot be analysed are recorded as `undecided`."""
import re
from itertools import product

from lib import adteval as AE
from lib import mirgate as MG
from lib.facts import CallGraph
from lib.mirflow import Flow
from lib.mirinline import inline_body, switches_on_bool_result

RULE = "C17-R9"
MOD = "mech_interpreter::state_machines::"
ENTRY = MOD + "execute_fsm_pipe"
ROOT = MOD + "execute_fsm_pipe_impl"
VK = "mech_core::value::ValueKind"
DECL_TY = re.compile(r"mech_core::nodes::(Var|KindAnnotation)(?![A-Za-z0-9_])")          # a type that mentions the declaration of an input / its annotation
VALUE_TY = re.compile(r"mech_core::value::Value(?![A-Za-z0-9_])")                        # ... a value (not ValueKind)
DECL_ELEM = "mech_core::nodes::Var"
VALUE_ELEM = "mech_core::value::Value"
INT_TY = re.compile(r"^[iu](8|16|32|64|128|size)$")

ACCEPT_CLASSES = ("same-kind", "same-kind-by-reference", "array-without-dimensions", "collection-without-size", "declared-any")
REJECT_CLASSES = ("different-kind", "element-kind", "shape", "size", "payload")
WHAT = {
    "same-kind": "an argument of exactly the declared kind",
    "same-kind-by-reference": "a variable (reference) holding a value of exactly the declared kind",
    "array-without-dimensions": "an array of the declared element kind where the declaration gives no dimensions",
    "collection-without-size": "a set / table of the declared element / column kinds where the declaration gives no size",
    "declared-any": "an argument for an input declared with the any-kind `*`",
    "different-kind": "an argument whose kind is another variant than the declared kind",
    "element-kind": "an argument with another element / component kind than declared",
    "shape": "an array argument whose shape differs from the declared dimensions",
    "size": "a set / table argument whose size differs from the declared size",
    "payload": "an argument whose kind differs from the declared kind in a name / field list",
}


# ------------------------------------------------------------------------------------------------------------------ universe of kinds
class Universe:
    """values of the enum `ValueKind`, generated from its definition"""

    def __init__(self, adt):
        self.ok = False
        self.skipped = []
        self.variants = {v["name"]: [f[1] for f in v["fields"]] for v in adt["variants"]}
        units = [n for n, fs in self.variants.items() if not fs]
        pref = [n for n in ("U64", "F64") if n in units]
        two = (pref + [n for n in units if n not in pref])[:2]
        if len(two) < 2:
            return
        self.k = [AE.Adt("ValueKind", two[0]), AE.Adt("ValueKind", two[1])]
        self.any = AE.Adt("ValueKind", "Any") if "Any" in units else None
        self.ref = "Reference" if self.variants.get("Reference") and len(self.variants["Reference"]) == 1 and self.is_kind_box(self.variants["Reference"][0]) else None
        base = [AE.Adt("ValueKind", n) for n in units]
        for n, fs in self.variants.items():
            if not fs or n == self.ref:
                continue
            cols = [self.samples(f) for f in fs]
            if any(c is None for c in cols):
                self.skipped.append(n)
                continue
            combos = list(product(*cols))
            base += [AE.Adt("ValueKind", n, c) for c in combos[:16]]
        self.base = base
        self.ok = True

    def is_kind_box(self, ty):
        head, args = MG.split_type(ty)
        return head.split("::")[-1] in ("Box", "Rc", "Arc") and args and args[0] == VK

    def role(self, ty):
        """'kind' | 'dims' | 'size' | 'other' - what a payload field of a kind stands for"""
        head, args = MG.split_type(ty)
        short = head.split("::")[-1]
        if ty == VK or self.is_kind_box(ty):
            return "kind"
        if short == "Vec" and args and INT_TY.match(args[0]):
            return "dims"
        if INT_TY.match(ty) and ty == "usize" or short == "Option" and args and INT_TY.match(args[0]):
            return "size"
        return "other"

    def samples(self, ty, depth=0):
        head, args = MG.split_type(ty)
        short = head.split("::")[-1]
        if ty == VK:
            return list(self.k)
        if short in ("Box", "Rc", "Arc") and args:
            return self.samples(args[0], depth + 1)
        if INT_TY.match(ty):
            return [0, 2, 3] if ty == "usize" else [1, 2]
        if short == "String" or ty == "&str":
            return ["a", "b"]
        if short == "Vec" and args:
            if INT_TY.match(args[0]):
                return [AE.VecV(()), AE.VecV((1, 3)), AE.VecV((1, 4)), AE.VecV((3, 1))]
            s = self.samples(args[0], depth + 1)
            if not s or len(s) < 2:
                return None
            return [AE.VecV((s[0],)), AE.VecV((s[1],)), AE.VecV((s[0], s[1]))]
        if short == "Option" and args:
            s = self.samples(args[0], depth + 1)
            if not s:
                return None
            return [AE.NONE] + [AE.some(x) for x in s[-2:]]
        if head == "(":
            cols = [self.samples(a, depth + 1) for a in args]
            if any(c is None for c in cols):
                return None
            return [tuple(c) for c in list(product(*[c[:2] for c in cols]))[:3]]
        return None

    def strip(self, k):
        while self.ref and isinstance(k, AE.Adt) and k.variant == self.ref:
            k = k.fields[0]
        return k

    def unsized(self, x):
        return x == AE.VecV(()) or x == AE.NONE or (x == 0 and not isinstance(x, bool))

    def declared(self):
        return list(self.base)

    def given(self):
        """kinds a value can have: an array value always has dimensions; a variable has the reference kind of its value"""
        vals = []
        for k in self.base:
            roles = [self.role(t) for t in self.variants[k.variant]]
            if any(r == "dims" and self.unsized(f) for r, f in zip(roles, k.fields)):
                continue
            vals.append(k)
        if self.ref:
            vals += [AE.Adt("ValueKind", self.ref, (k,)) for k in list(vals)]
        return vals

    def expect(self, e, a):
        """what the property states for declared kind e and argument kind a: ('accept' | 'reject' | None, class)"""
        if self.any is not None and e == self.any:
            return "accept", "declared-any"
        sa = self.strip(a)
        if sa == e:
            return "accept", ("same-kind" if sa is a else "same-kind-by-reference")
        if not isinstance(sa, AE.Adt) or sa.variant != e.variant:
            return "reject", "different-kind"
        roles = [self.role(t) for t in self.variants[e.variant]]
        diff = [i for i in range(len(roles)) if e.fields[i] != sa.fields[i]]
        hard = [i for i in diff if roles[i] in ("kind", "other")]
        if hard:
            return "reject", ("element-kind" if any(roles[i] == "kind" for i in hard) else "payload")
        # only dimensions / sizes differ
        if all(self.unsized(e.fields[i]) for i in diff):
            if all(roles[i] == "dims" for i in diff):
                return "accept", "array-without-dimensions"
            return "accept", "collection-without-size"
        return "reject", ("shape" if any(roles[i] == "dims" for i in diff) else "size")


# ------------------------------------------------------------------------------------------------------------------ the predicate's table
def syn_fn(items, defpath, crate_name):
    """syn item of a free function given its definition path"""
    rel = defpath.split("::")
    if rel[0] != crate_name:
        return None
    mod, name = "::".join(rel[1:-1]), rel[-1]
    hits = [it for it in items if it["k"] == "fn" and it["name"] == name and it["mod"] == mod]
    return hits[0] if len(hits) == 1 else None


def structural_eq(F, ty_mod, ty_name):
    """`==` on the type is the derived, structural comparison"""
    for it in F.syn("mech_core.lib"):
        if it["k"] == "impl" and it.get("self") == ty_name and str(it.get("trait", "")).endswith("StructuralPartialEq"):
            return True
    return False


def truth_table(ev, item, uni, declared_pos):
    """{class: [cells that disagree with the property]}, number of cells evaluated; raises adteval.NoEval"""
    wrong = {}
    n = 0
    for e in uni.declared():
        for a in uni.given():
            want, cls = uni.expect(e, a)
            if want is None:
                continue
            args = [e, a] if declared_pos == 0 else [a, e]
            try:
                got = ev.call_fn(item, args)
            except AE.Panic:
                got = "panic"
            n += 1
            if got is not True and got is not False and got != "panic":
                raise AE.NoEval("result is not a bool")
            if (got is True) != (want == "accept") or got == "panic":
                wrong.setdefault(cls, []).append((e, a, got))
    return wrong, n


def kind_predicates(cg, cname="mech_interpreter"):
    """definition paths of the crate's functions with the signature `(&ValueKind, &ValueKind) -> bool`"""
    out = set()
    for fn, b in cg.bodies.items():
        if (fn.startswith(cname + "::") and b.nargs == 2 and b.locals[0] == "bool"
                and all(re.match(r"^&" + re.escape(VK) + "$", b.locals[i]) for i in (1, 2))):
            out.add(fn)
    return out


class NameSet:
    """a set of definition paths with the `search` interface of a compiled regex (for helpers that take one)"""

    def __init__(self, names):
        self.names = set(names)

    def search(self, x):
        return x in self.names


# ------------------------------------------------------------------------------------------------------------------ the rule
def argument_gate(F, rep):
    rep.rule(RULE, "argument gate: the kind-compatibility predicate called between the entry point of a machine call and the executor accepts exactly the declared kind "
                   "(a reference to it; any shape only where the declaration gives no dimensions) - its truth table is evaluated over a universe of kinds generated from "
                   "the definition of ValueKind; its operands are the declaration's annotation and the kind of the paired argument; `false` cannot reach the executor; "
                   "no annotated input bypasses it; the executor is reachable only when the numbers of declarations and arguments are equal")
    crate = "mech_interpreter.lib"
    cname = "mech_interpreter"
    cg = CallGraph(F, [crate])
    adts = F.adts(crate) + F.adts("mech_core.lib")
    entry = cg.bodies.get(ENTRY)
    if not rep.check(entry is not None and ROOT in cg.bodies, RULE, "anchor:execute_fsm_pipe", "execute_fsm_pipe / execute_fsm_pipe_impl not found"):
        return

    preds_all = kind_predicates(cg, cname)
    ib = inline_body(entry, cg, lambda c: c.startswith(MOD) and c != ROOT and c not in preds_all, max_depth=3)
    flow = Flow(ib)
    exec_blocks = {i for i, t in ib.calls() if MG.callee(t) == ROOT}
    sites = [(i, t) for i, t in ib.calls() if MG.callee(t) in preds_all]
    # the check may also live in a closure handed to an iterator adaptor (`try_for_each`, `map(..).collect::<Result<..>>()`): the operands and the predicate's
    # table are decided there as well; the control flow around the closure (polarity, coverage, pairing) is recognised but not analysed
    owners = {ENTRY} | {r["callee"] for r in ib.inlined}
    want = lambda c: c.startswith(MOD) and c != ROOT and c not in preds_all
    closure_sites = []
    for fn in sorted(cg.bodies):
        if "::{closure" in fn and fn.split("::{closure")[0] in owners:
            cbi = inline_body(cg.bodies[fn], cg, want, max_depth=3)
            closure_sites += [(cbi, i, t) for i, t in cbi.calls() if MG.callee(t) in preds_all]
    preds = sorted({MG.callee(t) for _, t in sites} | {MG.callee(t) for _, _, t in closure_sites})
    if closure_sites:
        rep.note("undecided", {"rule": RULE, "what": "polarity / coverage / pairing", "why": "the kind-compatibility predicate is called inside a closure (%d call(s)): the gate is present, the control "
                                                                                               "flow around the closure is not analysed" % len(closure_sites)})
    rep.floor(RULE, "kind-compatibility predicates called in front of the executor", len(preds), 1)
    rep.floor(RULE, "calls of the executor behind the gate", len(exec_blocks), 1)
    if not preds or not exec_blocks:
        return

    # ---- (b) roles of the operands, per call site
    declared_pos = {}
    role_ok, pair_ok, role_undecided = True, True, False
    role_msgs = []
    plain = True            # every operand is the unmodified result of one call outside the module (the conversion of the annotation / the kind query of the value)
    rebuilt = []            # kinds with a payload constructed between those calls and the check
    decl_sources = set()
    flows = {}
    for xb, i, t in [(ib, i, t) for i, t in sites] + closure_sites:
        roles, items_of, idx_of = [], [], []
        main = xb is ib
        if id(xb) not in flows:
            flows[id(xb)] = (Flow(xb), xb.defs())
        xflow, xdefs = flows[id(xb)]
        for a in t["args"]:
            rd = []
            ls, its, idx = MG.depends(xb, a, reads=rd)
            o = xflow.origin(a)
            if not (o[0] == "call" and not MG.callee(o[2]).startswith(MOD)):
                plain = False
                for l in ls:
                    for _blk, s_ in xdefs.get(l, []):
                        if s_.get("rk") == "agg" and s_.get("adt") == VK and s_.get("src"):
                            rebuilt.append(s_.get("var"))

            def classify(reads):
                # places whose type mentions the declaration but no value / a value but no declaration (the zipped pair mentions both and says nothing;
                # the captured environment of a closure is looked at field by field, never as a whole)
                tys = set()
                for l, proj in reads:
                    ty = MG.place_type(xb, (l, proj), adts) if proj else None
                    tys.add(ty if ty is not None else xb.locals[l])
                tys = [ty for ty in tys if not ty.lstrip("&").startswith(("C{", "mut C{"))]
                d = any(DECL_TY.search(ty) and not VALUE_TY.search(ty) for ty in tys)
                v = any(VALUE_TY.search(ty) and not DECL_TY.search(ty) for ty in tys)
                return "declared" if d and not v else "given" if v and not d else "mixed" if d and v else "none"
            r_ = classify(rd)
            if r_ == "none" and its:
                # the operand is an element of a sequence computed before the loop: look at what the sequence was computed from
                rd2 = []
                MG.depends(xb, a, through_next=True, reads=rd2)
                r_ = classify(rd2)
                r_ = "mixed" if r_ in ("declared", "given") else r_      # position in a precomputed sequence: not decided here
            roles.append(r_)
            items_of.append(its)
            idx_of.append(idx)
        p = MG.callee(t)
        if sorted(roles) == ["declared", "given"]:
            declared_pos.setdefault(p, set()).add(roles.index("declared"))
            if not main:
                continue
            reads = []
            MG.depends(ib, t["args"][roles.index("declared")], through_next=True, reads=reads)
            decl_sources |= MG.field_reads(ib, reads, adts)
            if items_of[0] & items_of[1] or idx_of[0] & idx_of[1]:
                pass
            elif not items_of[0] and not items_of[1]:
                rep.note("undecided", {"rule": RULE, "what": "pairing", "why": "declaration and argument are not taken from a common loop element"})
            else:
                pair_ok = False
        elif "mixed" in roles:
            role_undecided = True
        else:
            role_ok = False
            role_msgs.append("%s(%s)" % (p.split("::")[-1], ", ".join(roles)))
    if role_undecided and role_ok:
        rep.note("undecided", {"rule": RULE, "what": "operand roles", "why": "an operand of the kind check depends on both the declaration and the argument"})
    rep.check(role_ok, RULE, "kind-gate:operands" if role_ok else "kind-gate:operands:not-declaration-vs-argument",
              "execute_fsm_pipe: the kind check does not compare the declared kind (from the input's annotation) with the kind of the argument value: operands are %s" % "; ".join(role_msgs),
              "execute_fsm_pipe (mech_interpreter.lib)")
    rep.check(pair_ok, RULE, "kind-gate:pairing" if pair_ok else "kind-gate:pairing:different-elements",
              "execute_fsm_pipe: the declaration and the argument handed to the kind check do not come from the same (declaration, argument) pair",
              "execute_fsm_pipe (mech_interpreter.lib)")

    rep.check(not rebuilt, RULE, "kind-gate:operands-unmodified" if not rebuilt else "kind-gate:kind-rebuilt-before-check",
              "execute_fsm_pipe: a kind is constructed (%s) between the conversion of the annotation / the kind query of the argument and the kind check: the check does not see the declared and "
              "the actual kind themselves" % ", ".join("ValueKind::%s" % v for v in sorted(set(rebuilt))), "execute_fsm_pipe (mech_interpreter.lib)")
    # ---- (f) where the declarations come from: the machine's specification when there is one, its implementation header otherwise
    for fn, cb in cg.bodies.items():
        if fn.startswith(MOD) and "::{closure" in fn and fn.split("::{closure")[0] in ({ENTRY} | {r["callee"] for r in ib.inlined}):
            rd = []
            for _i, s_ in cb.stmts():
                rd += [(o[0], o[1] or "") for o in (s_.get("src") or []) if isinstance(o, list) and o and isinstance(o[0], int)]
            decl_sources |= {x for x in MG.field_reads(cb, rd, adts) if x[0].endswith(("FsmSpecification", "FsmImplementation"))}
    if declared_pos and sites:
        need = [("mech_core::nodes::FsmSpecification", "input"), ("mech_core::nodes::FsmImplementation", "input")]
        missing = [x for x in need if x not in decl_sources]
        rep.check(not missing, RULE, "kind-gate:declarations-from-specification-and-implementation" if not missing else "kind-gate:declarations-not-from:%s" % "+".join(x[0].split("::")[-1] for x in missing),
                  "execute_fsm_pipe: the declarations whose annotations are checked are not read from %s (the inputs declared there are never compared with the arguments)" % " / ".join("%s.%s" % (x[0].split("::")[-1], x[1]) for x in missing),
                  "execute_fsm_pipe (mech_interpreter.lib)")

    # ---- (a) truth table of every predicate
    vk = [a for a in adts if a["name"] == VK and a.get("enum")]
    uni = Universe(vk[0]) if vk else None
    items = F.syn(crate)
    if uni is None or not uni.ok or not uni.ref:
        rep.note("undecided", {"rule": RULE, "what": "truth table", "why": "the definition of ValueKind is not of the expected form (enum with unit variants and a Reference(Box<ValueKind>))"})
    elif not plain:
        rep.note("undecided", {"rule": RULE, "what": "truth table", "why": "an operand of the kind check is not the unmodified result of the annotation's conversion / the value's kind query: "
                                                                             "the predicate's input domain is not the one the table is stated over"})
    elif not structural_eq(F, "value", "ValueKind"):
        rep.note("undecided", {"rule": RULE, "what": "truth table", "why": "`==` on ValueKind is not the derived structural comparison"})
    else:
        if uni.skipped:
            rep.note("inactive", {"rule": RULE, "what": "variants left out of the universe (payload type not modelled)", "variants": uni.skipped})
        enums = {"ValueKind": {n: len(fs) for n, fs in uni.variants.items()}}
        n_tables, cells, wrong_all = 0, 0, {}
        for p in preds:
            item = syn_fn(items, p, cname)
            short = p.split("::")[-1]
            pos = declared_pos.get(p)
            if item is None or not pos or len(pos) != 1:
                rep.note("undecided", {"rule": RULE, "what": "truth table of " + short, "why": "source item not found" if item is None else "the position of the declared kind is not the same at every call"})
                continue
            same_mod = {it["name"]: it for it in items if it["k"] == "fn" and it["mod"] == item["mod"]}

            def resolve(path, same_mod=same_mod):
                segs = [s for s in path.split("::") if s]
                if len(segs) == 1 or segs[:-1] in (["self"], ["crate", item["mod"]]) or "::".join(segs[:-1]).endswith(item["mod"]):
                    return same_mod.get(segs[-1])
                return None
            ev = AE.Evaluator(enums, resolve)
            try:
                wrong, n = truth_table(ev, item, uni, list(pos)[0])
            except AE.NoEval as ex:
                rep.note("undecided", {"rule": RULE, "what": "truth table of " + short, "why": "outside the evaluator's vocabulary: %s" % ex})
                continue
            n_tables += 1
            cells += n
            rep.analysed["%s:%s" % (RULE, short)] = {"cells": n, "declared kinds": len(uni.declared()), "argument kinds": len(uni.given())}
            for cls, bad in wrong.items():
                wrong_all.setdefault(cls, []).extend((short, e, a, g) for e, a, g in bad)
        # one obligation per class of the oracle, whatever the number and the names of the predicates (keys carry no function name: renaming the predicate is not a change)
        for cls in (ACCEPT_CLASSES + REJECT_CLASSES) if n_tables else ():
            bad = wrong_all.get(cls, [])
            acc = cls in ACCEPT_CLASSES
            who = ", ".join(sorted({b[0] for b in bad}))
            ex = "; ".join("declared %r, argument %r -> %s" % (e, a, "panic" if g == "panic" else "accepted" if g else "rejected") for _, e, a, g in bad[:3])
            if acc:
                key = "kind-gate:accepts:%s" % cls if not bad else "kind-gate:rejects-admissible:%s" % cls
                msg = ("%s (the FSM argument kind check called by execute_fsm_pipe) rejects %s: %d of the evaluated kind pairs, e.g. %s" % (who, WHAT[cls], len(bad), ex))
            else:
                key = "kind-gate:rejects:%s" % cls if not bad else "kind-gate:accepts-wrong-kind:%s" % cls
                msg = ("%s (the FSM argument kind check called by execute_fsm_pipe) accepts %s, so the machine is started instead of raising the argument-kind error: "
                       "%d of the evaluated kind pairs, e.g. %s" % (who, WHAT[cls], len(bad), ex))
            rep.check(not bad, RULE, key, msg, "%s (mech_interpreter.lib)" % (who or "argument kind check"), sample={"class": cls, "cells": cells})
        if n_tables == 0:
            rep.note("undecided", {"rule": RULE, "what": "truth table", "why": "no predicate could be evaluated"})

    # ---- (c) polarity
    pol_ok, acc_ok, pol_seen = True, True, 0
    for i, t in sites:
        sws = switches_on_bool_result(ib, i, t)
        if not sws:
            rep.note("undecided", {"rule": RULE, "what": "polarity", "why": "the result of the kind check is not tested by a switch that the call dominates"})
            continue
        for sw, true_t, false_t in sws:
            pol_seen += 1
            if MG.variant_reach(ib, [false_t], cut_edges={(sw, true_t)} if true_t != false_t else ()) & exec_blocks:
                pol_ok = False
            if not (MG.variant_reach(ib, [true_t], cut_edges={(sw, false_t)} if true_t != false_t else ()) & exec_blocks):
                acc_ok = False
    if pol_seen:
        rep.check(pol_ok, RULE, "kind-gate:mismatch-cannot-reach-executor" if pol_ok else "kind-gate:mismatch-reaches-executor",
                  "execute_fsm_pipe: after the kind check has returned `false` for an argument the call of execute_fsm_pipe_impl is still reachable: the mismatch is not turned into an error",
                  "execute_fsm_pipe (mech_interpreter.lib)")
        rep.check(acc_ok, RULE, "kind-gate:match-reaches-executor" if acc_ok else "kind-gate:match-never-runs",
                  "execute_fsm_pipe: after the kind check has returned `true` the executor is not reachable (the polarity of the test is inverted)",
                  "execute_fsm_pipe (mech_interpreter.lib)")

    # ---- (d) coverage: no annotated input bypasses the gate
    from lib import mirloop as ML
    cov_seen = 0
    cov_ok = True
    site_blocks = {i for i, _ in sites}
    for i, t in sites:
        loops = [l for l in ML.loops_containing(ib, i) if l.iter_info()]
        if not loops:
            rep.note("undecided", {"rule": RULE, "what": "coverage", "why": "the kind check is not inside a `for` loop"})
            continue
        L = loops[-1]
        it = L.iter_info()
        cuts = set()
        for x in sorted(L.region()):
            oe = MG.option_edges(ib, x, adts)
            if oe and "nodes::KindAnnotation" in oe[0] and oe[2] is not None and oe[1] != oe[2]:
                cuts.add((x, oe[2]))
        cov_seen += 1
        out = MG.variant_reach(ib, [it["some"]], avoid=site_blocks | {L.header}, cut_edges=cuts)
        back = {x for x in out if L.header in ib.succ(x)}
        if back or (out & exec_blocks):
            cov_ok = False
    if cov_seen:
        rep.check(cov_ok, RULE, "kind-gate:every-annotated-input-checked" if cov_ok else "kind-gate:annotated-input-bypasses-check",
                  "execute_fsm_pipe: inside the loop over the declared inputs there is a path from an input that HAS a kind annotation to the next input / to the executor that does not "
                  "pass the kind check (the check is skipped under some condition other than `no annotation`)", "execute_fsm_pipe (mech_interpreter.lib)")

    # ---- (e) argument count
    cmps = MG.count_comparisons(ib, flow, DECL_ELEM, VALUE_ELEM)
    OPS = {"Eq": lambda a, b: a == b, "Ne": lambda a, b: a != b, "Lt": lambda a, b: a < b, "Le": lambda a, b: a <= b, "Gt": lambda a, b: a > b, "Ge": lambda a, b: a >= b}
    if not cmps:
        lens = {(t.get("ga") or [None])[0] for _, t in ib.calls() if MG.LEN_CALL.search(MG.callee(t))}
        if {DECL_ELEM, VALUE_ELEM} <= lens:
            rep.note("undecided", {"rule": RULE, "what": "argument count", "why": "both lengths are taken but not compared by a plain comparison"})
        else:
            rep.floor(RULE, "comparisons of the number of declared inputs with the number of arguments", 0, 1)
    else:
        rep.floor(RULE, "comparisons of the number of declared inputs with the number of arguments", 1, 1)
        runs = {}
        for sw, op, decl_left, pol, edges in cmps:
            for val in (True, False):
                other = edges[not val]
                runs[(sw, val)] = bool(MG.variant_reach(ib, [edges[val]], cut_edges={(sw, other)} if other != edges[val] else ()) & exec_blocks)
        bad = []
        for m in range(4):
            for n in range(4):
                started = True
                for sw, op, decl_left, pol, edges in cmps:
                    c = OPS[op](m, n) if decl_left else OPS[op](n, m)
                    val = c if pol else not c
                    if not runs[(sw, val)]:
                        started = False
                if started != (m == n):
                    bad.append((m, n, started))
        ex = "; ".join("%d declared / %d given -> %s" % (m, n, "machine is started" if s else "rejected") for m, n, s in bad[:3])
        rep.check(not bad, RULE, "argument-count:executor-reachable-iff-equal" if not bad else "argument-count:wrong-count-%s" % ("accepted" if any(s for _, _, s in bad) else "rejected"),
                  "execute_fsm_pipe: the comparison of the number of declared inputs with the number of arguments does not reject exactly the unequal counts: %s" % ex,
                  "execute_fsm_pipe (mech_interpreter.lib)")
