"""C06 — bytecode plumbing: compile()/new()/registry agreement, registration completeness of the must-run class,
instruction layout and constant tables."""
import re
from collections import defaultdict
from lib.facts import CallGraph, find, walk, last_seg, render, is_node, path_of
from lib import fxn as X

TECHNIQUE = ("table agreement over the macro-expanded function protocol (compile-name evaluation vs link-time registry, arity and dst-register "
             "agreement between compile() and new()), MIR aggregate/call-graph reachability for registration completeness of the must-run class, "
             "encoder/decoder table agreement for opcodes and constant tags")
EXPLANATION = (
    "Decides the plumbing clauses of C06: (R1) for every function struct the arity compile() emits equals an arity new() accepts, and register 0 "
    "is compiled from the field out() returns and new() binds from the `out` argument; (R2) the name compile() hashes equals the registry name under "
    "which that struct's factory is submitted (names are evaluated symbolically through AsValueKind/AsNaKind/Display tables); (R3) every function-struct "
    "instantiation constructed (MIR aggregates) on a call path from the native compilers that the evaluator uses for operators, ranges, indexing, "
    "assignment, concatenation, definition and typed literals over numeric/bool/string values has a registry entry; (R4) per opcode, encoder byte_len/"
    "write_to and the decoder agree on the opcode byte and operand widths, and run_program hands (dst, args..) to the factory in instruction order; "
    "(R5) per constant kind, the TypeTag written by CompileConst is decoded into the same Value variant. Input-operand order is evidence-only (latent: the "
    "loader never re-solves). Not decided: numeric equality of recomputed kernels (C19), stack exhaustion."
    " (R8) sibling partitions of Value::size_of/write_le/compile_const and ValueKind::align are frozen; (R9) constant decoders advance the cursor after a nested decode by the re-serialised length of the decoded item; (R10) every ValueKind variant that emitted constants carry has a reader arm for its tag rebuilding the same variant from the same field layout (branch-aware); (R11) every Value variant whose payload Value::write_le emits is rebuilt by Value::from_le; (R12) result provenance: every value returned by an evaluator that expression()/structure()/literal() dispatches to is the out() of a plan step or the value of a sub-evaluator (greatest fixpoint over the evaluators) - otherwise compile() emits nothing for it and run_program returns the previous step's value."
    ' (R5, extended) the two encoders of a type write the same FIELD at each position; (R13) no function of the function crates is unconditionally self-recursive; (R14) Value::compile_const ends in an Err for the variants it does not encode and no compile_const result is unwrapped.'
    ' (R15) discriminant tables: the numeric tag each TypeTag/ValueKind/opcode writer emits is the tag the matching reader arm accepts for that same variant (writer table = reader table, no two variants swapped).'
    ' (R16) kind ladders over Value::Matrix<K> / Value::<K> whose catch-all arm panics name every element kind the Value enum has; (R17) constant codecs agree field by field: the named fields ConstElem::write_le writes are read by from_le and written by CompileConst::compile_const in the same order and width.'
    " (R4, extended) the function-call arms of run_program agree on their effects: each records self.out from the function's out(); an arm that forgets it makes run_program return the previous instruction's value."
    " (R18) a codec writer emits every value once: no straight-line region of a byte-layout writer writes the same non-constant value twice."
    " (R19) byte lengths: every type-tag arm of the constant-table decoder (and every kind arm of the nested value decoder, and every element reader) neither returns an error nor panics, "
    "for a reason independent of the bytes, on a blob whose length the encoder of the Value variant it builds can emit - the set of encoder lengths (fixed fields + free payloads + nested "
    "writers + loops, the empty string / matrix / set / table included) is computed from the encoders' MIR, the decoder is interpreted over a buffer of n unknown bytes for every n up to 128; the "
    "pre-dispatch entry checks accept every alignment the writer-side align() functions declare at offsets that are multiples of it. What is decided is this length/guard agreement, not the "
    "decoded value and not rejections that depend on the bytes."
)

EVALUATORS = {
    # evaluator function (role) -> which of its native compilers are in the must-run class (None = all)
    "mech_interpreter::expressions::term": re.compile(r"^(Math|Compare|Logic|MatrixMatMul|MatrixDot|StringConcat)"),
    "mech_interpreter::expressions::factor": None,
    "mech_interpreter::expressions::range": None,
    "mech_interpreter::expressions::subscript": re.compile(r"^MatrixAccess"),
    "mech_interpreter::statements::subscript_ref": re.compile(r"^MatrixAssign"),
    "mech_interpreter::statements::variable_assign": None,
    "mech_interpreter::statements::op_assign": None,
    "mech_interpreter::statements::add_assign": None,
    "mech_interpreter::statements::sub_assign": None,
    "mech_interpreter::statements::mul_assign": None,
    "mech_interpreter::statements::div_assign": None,
    "mech_interpreter::structures::matrix": None,
    "mech_interpreter::structures::matrix_row": None,
    "mech_interpreter::statements::variable_define": None,
    "mech_interpreter::literals::typed_literal": None,
}
NON_NUMERIC = re.compile(r"MechSet|MechTable|MechRecord|MechMap|MechTuple|MechEnum|MechAtom|Ref<Value>|MechTaggedUnion")


def eval_name(fs, targs, avk, disp, nak):
    """evaluate the compile-name template of struct `fs` for concrete type args; returns string or None (+reason)"""
    c = fs.compile
    if not c or not c["name"]:
        return None, "no name template"
    fmt, args = c["name"]
    pats = getattr(fs, "compile_self_args", [])
    bind = {}
    if len(pats) != len(targs):
        if not pats and not targs:
            pass
        else:
            return None, "generic arity mismatch between impl header %s and instantiation %s" % (pats, targs)
    for p, a in zip(pats, targs):
        p = p.replace(" ", "")
        bind[p] = a
        pt = X.parse_type(p)
        at = X.parse_type(a)
        if pt[1] and at[1]:
            # naMatrix<T,R,C,S> vs DMatrix<u8>: element type is the first arg on both sides
            bind.setdefault(X.tree_str(pt[1][0]), X.tree_str(at[1][0]))
    vals = []
    for a in args:
        a = a.strip()
        if a.startswith('"'):
            vals.append(a.strip('"'))
            continue
        m = re.match(r"^(.+)::(as_value_kind|as_na_kind)\(\)$", a)
        if not m:
            return None, "unevaluable name argument %s" % a
        ty = m.group(1)
        if ty.startswith("<") and ty.endswith(">"):
            ty = ty[1:-1]
        ty = ty.replace("::<", "<").replace(" ", "")
        ty = re.sub(r"\s+as\s+\w+$", "", ty)
        ty = bind.get(ty, ty)
        if ty in bind:
            ty = bind[ty]
        if m.group(2) == "as_value_kind":
            key = ty
            vk = avk.get(key)
            if vk is None:
                # generic impls: DVector<T> etc.
                h = X.parse_type(ty)
                vk = avk.get("%s<T>" % h[0]) if h[1] else None
            if vk is None:
                return None, "no AsValueKind impl known for %s" % ty
            d = X.kind_display(vk, disp)
            if d is None:
                return None, "no constant Display for ValueKind::%s" % vk
            vals.append(d)
        else:
            h = X.parse_type(ty)[0].split("::")[-1]
            d = nak.get(h)
            if d is None:
                return None, "no AsNaKind impl known for %s" % ty
            vals.append(d)
    out = fmt
    try:
        out = re.sub(r"\{(\d+)\}", lambda m: vals[int(m.group(1))], fmt).replace("{{", "{").replace("}}", "}")
    except IndexError:
        return None, "bad format"
    return out, None


def as_na_kind_table(F):
    t = {}
    for it in F.syn("mech_core.lib"):
        if it["k"] == "method" and it["trait"] and last_seg(it["trait"]) == "AsNaKind" and it["name"] == "as_na_kind":
            for s in find(it["body"], "str"):
                t[X.type_head(it["self"])] = s[1]
                break
    return t


def out_field(fs):
    """field returned by out(): `self.out.to_value()` / `Value::X(self.out.clone())`"""
    if fs.out_expr is None:
        return None
    flds = [n[2] for n in find(fs.out_expr, "field") if path_of(n[1]) == "self"]
    return flds[0] if flds else None


def run(F, rep, tier):
    _run(F, rep, tier)
    from rules.c06_dupwrite import run_r18
    run_r18(F, rep)


def _run(F, rep, tier):
    S = X.load_fxn_structs(F)
    reg, comp = X.load_registry(F)
    avk, disp = X.as_value_kind_table(F)
    nak = as_na_kind_table(F)
    by_name = defaultdict(list)
    for (crate, name), fs in S.items():
        by_name[name].append(fs)
    rep.analysed = {"function_structs": len(S), "registry_entries": len(reg), "compiler_descriptors": len(comp),
                    "as_value_kind_impls": len(avk), "as_na_kind_impls": len(nak)}
    rep.rule("C06-R1", "compile() arity = an arity new() accepts; register 0 is compiled from the field out() returns, which new() binds from `out`")
    rep.rule("C06-R2", "for every registry entry, the name compile() hashes for that instantiation equals the registered name")
    rep.rule("C06-R3", "every function-struct instantiation constructed on a must-run path has a registry entry (else the loader fails with Unknown*Function)")
    rep.rule("C06-R4", "opcode/operand-width agreement between EncodedInstr::write_to, byte_len, DecodedInstr and decode_instructions; run_program argument order")
    rep.rule("C06-R5", "TypeTag written for a Value kind is decoded into the same Value variant")
    rep.floor("C06-R1", "function structs with compile()", sum(1 for s in S.values() if s.compile), 800)
    rep.floor("C06-R2", "registry entries", len(reg), 9000)

    # ---------- R1
    latent = []
    for (crate, name), fs in sorted(S.items()):
        if not fs.compile or fs.compile["arity"] is None:
            if fs.compile:
                rep.note("compile_without_emit", name)
            continue
        ca = fs.compile["arity"]
        if fs.new:
            arities = sorted({n["arity"] for n in fs.new if n["arity"] is not None})
            key = "%s:arity" % name
            rep.check(ca in arities, "C06-R1", key,
                      "%s: compile() emits a %d-operand instruction but new() accepts %s: loading fails with IncorrectNumberOfArguments" % (name, ca, arities),
                      "%s (%s)" % (name, crate), sample={"struct": name, "emit": fs.compile["emit"], "new_accepts": arities})
            of = out_field(fs)
            regs = fs.compile["regs"]
            if regs and of:
                rep.check(regs[0] == of, "C06-R1", "%s:dst-is-out" % name,
                          "%s: register 0 (the instruction's dst) is compiled from field `%s` but out() returns `%s`" % (name, regs[0], of), "%s (%s)" % (name, crate))
                for n in fs.new:
                    if n["arity"] == ca and of in n["fields"]:
                        rep.check(n["fields"][of] == [n["args"][0]], "C06-R1", "%s:new-binds-out" % name,
                                  "%s: new() binds the out field `%s` from %s instead of the dst argument `%s`" % (name, of, n["fields"][of], n["args"][0]), "%s (%s)" % (name, crate))
                        # input operand order: evidence only
                        order_new = []
                        for a in n["args"][1:]:
                            order_new.append(sorted(f for f, src in n["fields"].items() if src == [a]))
                        order_c = regs[1:]
                        if len(order_c) == len(order_new) and any(c not in o for c, o in zip(order_c, order_new) if o):
                            latent.append({"struct": name, "compile_inputs": order_c, "new_inputs": order_new})
    for l in latent:
        rep.note("latent_input_operand_order", l)

    # ---------- R2
    n_eval = 0
    name_bad = defaultdict(list)
    structs_in_registry = set()
    for r in reg:
        if not r["struct"]:
            continue
        cands = by_name.get(r["struct"], [])
        fs = None
        for c in cands:
            if c.crate == r["crate"]:
                fs = c
        fs = fs or (cands[0] if cands else None)
        if fs is None or not fs.compile:
            continue
        structs_in_registry.add(fs.name)
        targs = [X.canon_type(a) for a in r["targs"]]
        name, why = eval_name(fs, targs, avk, disp, nak)
        if name is None:
            rep.note("unevaluated_names", {"struct": fs.name, "targs": targs, "why": why})
            continue
        n_eval += 1
        if name == r["name"]:
            rep.ok("C06-R2", "%s:name" % fs.name, sample={"registered": r["name"], "compiled": name, "ptr": r["ptr"]})
        else:
            name_bad[fs.name].append((r["name"], name, targs))
    for sname, lst in sorted(name_bad.items()):
        diffs = set()
        for regd, compd, targs in lst:
            # which part of the name disagrees: longest common prefix / suffix on word boundaries
            i = 0
            while i < min(len(regd), len(compd)) and regd[i] == compd[i]:
                i += 1
            while i > 0 and (regd[i - 1].isalnum() and not regd[i - 1].isupper()) and not regd[:i].endswith("<"):
                i -= 1
                if regd[i - 1] == "<":
                    break
            j = 0
            while j < min(len(regd), len(compd)) - i and regd[-1 - j] == compd[-1 - j]:
                j += 1
            while j > 0 and not regd[len(regd) - j].isupper() and regd[len(regd) - j] != ">":
                j -= 1
            diffs.add("%s!=%s" % (regd[i:len(regd) - j], compd[i:len(compd) - j]))
        fs = by_name[sname][0]
        rep.bad("C06-R2", "%s:name-mismatch:%s" % (sname, ",".join(sorted(diffs))),
                "%s: for %d instantiation(s) compile() hashes a name the registry does not contain, e.g. compiled \"%s\" vs registered \"%s\": the loader fails with Unknown*Function" % (sname, len(lst), lst[0][1], lst[0][0]),
                "%s (%s)" % (sname, fs.crate), detail=[{"registered": a, "compiled": b} for a, b, _ in lst[:8]])
    rep.floor("C06-R2", "registry names evaluated symbolically", n_eval, 5000)

    # ---------- R3
    crates = X.FXN_CRATES
    cg = CallGraph(F, crates)
    roots = {}
    for ev, rx in EVALUATORS.items():
        b = cg.bodies.get(ev)
        if b is None:
            rep.bad("C06-R3", "anchor-lost:%s" % ev, "evaluator %s not found" % ev)
            continue
        n = 0
        for i, t in b.calls():
            c = t.get("f") or t["tf"]
            m = re.match(r"<(.+) as mech_core::functions::NativeFunctionCompiler>::compile$", c)
            if m:
                nm = m.group(1).split("::")[-1]
                if rx is None or rx.search(nm):
                    roots[c] = ev
                    n += 1
        rep.floor("C06-R3", "native compilers called from %s" % ev.split("::")[-1], n, 1)
    rep.floor("C06-R3", "must-run native compilers", len(roots), 60)
    # reachable bodies from the roots (stdlib only: cut evaluator re-entry)
    cut = {f for f in cg.bodies if re.match(r"mech_interpreter::(expressions|statements|structures|literals|functions|patterns|mechdown|interpreter|state_machines)::", f)}
    reach = cg.reach(list(roots), cut=cut)
    constructed = defaultdict(set)   # (struct, targs) -> constructing fns
    struct_names = {fs.name: fs for fs in S.values()}
    for f in reach:
        b = cg.bodies.get(f)
        if not b:
            continue
        for i, s in b.aggs():
            nm = s["adt"].split("::")[-1]
            fs = struct_names.get(nm)
            if fs is None or s["var"] != nm:
                continue
            if not s["adt"].startswith(fs.crate.split(".")[0]):
                continue
            # skip constructions inside the struct's own factory / clone
            if re.match(r"<.*%s.* as " % re.escape(nm), f):
                continue
            constructed[(nm, tuple(X.canon_args(s["aga"])))].add(f)
    rep.floor("C06-R3", "function-struct instantiations constructed on must-run paths", len(constructed), 1500)
    regset = defaultdict(set)
    for r in reg:
        if r["struct"]:
            regset[r["struct"]].add(tuple(X.canon_type(a) for a in r["targs"]))
    missing = defaultdict(list)
    generic_skipped = 0
    for (nm, targs), fns in sorted(constructed.items()):
        fs = struct_names[nm]
        if any(NON_NUMERIC.search(t) for _, t in fs.fields):
            rep.note("outside_must_run_class", nm)
            continue
        if any(re.fullmatch(r"[A-Z][A-Za-z0-9]{0,3}", a) or re.search(r"(^|[<,])[A-Z][0-9]?([>,]|$)", a) for a in targs):
            generic_skipped += 1
            continue
        if not fs.compile:
            rep.note("constructed_without_compile", nm)
            continue
        if targs in regset.get(nm, ()):
            rep.ok("C06-R3", "%s<%s>" % (nm, ",".join(targs)))
        else:
            missing[nm].append(",".join(targs))
    for nm, kinds in sorted(missing.items()):
        fs = struct_names[nm]
        rep.bad("C06-R3", "%s:unregistered:%s" % (nm, "|".join(sorted(kinds))),
                "%s is constructed on a must-run path for <%s> but no factory is registered for it: the compiled program fails to load (Unknown*Function)" % (nm, "> <".join(sorted(kinds)[:6]) + (" ..." if len(kinds) > 6 else "")),
                "%s (%s)" % (nm, fs.crate))
    rep.analysed["generic_instantiations_skipped"] = generic_skipped
    rep.analysed["must_run_reachable_bodies"] = len(reach)


    # ---------- R4 instruction layout
    from lib import codec as C
    core = F.syn("mech_core.lib")
    meth = {}
    for it in core:
        if it["k"] == "method" and not it["trait"]:
            meth[(X.type_head(it["self"]), it["name"])] = it
        if it["k"] == "fn":
            meth[("", it["name"])] = it
    enc = meth.get(("EncodedInstr", "write_to"))
    blen = meth.get(("EncodedInstr", "byte_len"))
    dwr = meth.get(("DecodedInstr", "write_to"))
    dec = meth.get(("", "decode_instructions"))
    opfrom = meth.get(("OpCode", "from_u8"))
    if rep.check(all(x is not None for x in (enc, dec, opfrom)), "C06-R4", "anchor:instruction-codec", "EncodedInstr::write_to / decode_instructions / OpCode::from_u8 not found"):
        # opcode byte table: enum discriminants vs from_u8 arms
        disc = {}
        for it in core:
            if it["k"] == "enum" and it["name"] == "OpCode":
                for v in it["variants"]:
                    if v["disc"] is not None:
                        disc[v["name"]] = int(render(v["disc"]).replace("_", ""), 0) if re.match(r"^(0x[0-9a-fA-F_]+|\d+)$", render(v["disc"])) else None
        fromtab = {}
        for m in find(opfrom["body"], "match"):
            for a in m[2]:
                pt = render_pat(a[0]) if False else None
                lit = a[0]
                if lit[0] == "plit":
                    val = render(lit[1])
                    var = re.search(r"OpCode::(\w+)", render(a[2]))
                    if var:
                        try:
                            fromtab[var.group(1)] = int(val.replace("_", ""), 0)
                        except ValueError:
                            pass
        rep.floor("C06-R4", "opcodes with an explicit byte value", len(disc), 8)
        for v, b in sorted(disc.items()):
            rep.check(fromtab.get(v) == b, "C06-R4", "opcode-byte:%s" % v, "OpCode::%s is written as byte %s but OpCode::from_u8 maps byte %s to it" % (v, b, fromtab.get(v)),
                      sample={"opcode": v, "written": b, "decoded_from": fromtab.get(v)})
        earms = C.arms_of(enc["body"], "EncodedInstr")
        darms = C.arms_of(dec["body"], "OpCode")
        warms = C.arms_of(dwr["body"], "DecodedInstr") if dwr else {}
        larms = C.arms_of(blen["body"], "EncodedInstr") if blen else {}
        rep.floor("C06-R4", "encoder arms", len(earms), 8)
        for ev, arm in sorted(earms.items()):
            seq = C.io_seq(arm[2], "write")
            if not seq:
                continue
            opm = re.search(r"OpCode::(\w+)", seq[0][1])
            if not rep.check(seq[0][0] == "u8" and opm is not None, "C06-R4", "enc:%s:opcode-first" % ev, "EncodedInstr::%s does not start with its opcode byte: %s" % (ev, seq[:2])):
                continue
            op = opm.group(1)
            da = darms.get(op)
            if not rep.check(da is not None, "C06-R4", "dec:%s:arm" % op, "decode_instructions has no arm for OpCode::%s written by EncodedInstr::%s" % (op, ev)):
                continue
            rseq = C.read_bindings(da[2])
            wfields = [(w, re.sub(r"^[*&(]+|[)]+$", "", a).split(" as ")[0].strip("*& ")) for w, a in seq[1:]]
            # variadic: a count followed by a loop is compared by widths only for the prefix
            ok = [w for w, _ in wfields][:len(rseq)] == [w for w, _ in rseq][:len(wfields)] and abs(len(wfields) - len(rseq)) <= 1
            rep.check(ok, "C06-R4", "layout:%s" % op, "OpCode::%s: the encoder writes %s but the decoder reads %s" % (op, wfields, rseq), sample={"opcode": op, "written": wfields, "read": rseq})
            # field order: dst is the first u32 on both sides; names agree where both are identifiers
            wn = [n for w, n in wfields if re.fullmatch(r"\w+", n)]
            rn = [n for w, n in rseq]
            common = [x for x in wn if x in rn]
            rep.check([x for x in rn if x in common] == common, "C06-R4", "field-order:%s" % op, "OpCode::%s: encoder field order %s differs from decoder field order %s" % (op, wn, rn))
            # the decoded struct is built from the bindings it read
            built = [s for s in find(da[2], "struct") if s[1].startswith("DecodedInstr::")]
            rep.check(len(built) >= 1, "C06-R4", "dec:%s:builds" % op, "decoder arm for OpCode::%s builds no DecodedInstr" % op)
            # byte_len
            la = larms.get(ev)
            if la is not None:
                nums = [int(x) for x in re.findall(r"\b(\d+)\b", render(la[2]))]
                total = sum(C.W[w] for w, _ in seq if w in C.W)
                if "len()" not in render(la[2]):
                    rep.check(sum(nums) == total, "C06-R4", "byte_len:%s" % ev, "EncodedInstr::%s writes %d bytes but byte_len() says %d" % (ev, total, sum(nums)))
            # re-encoder (DecodedInstr::write_to) writes the same layout
            wa = None
            for dv, a2 in warms.items():
                s2 = C.io_seq(a2[2], "write")
                if s2 and re.search(r"OpCode::%s\b" % op, s2[0][1]):
                    wa = s2
            if warms:
                rep.check(wa is not None and [w for w, _ in wa] == [w for w, _ in seq], "C06-R4", "reencode:%s" % op,
                          "ParsedProgram::to_bytes (DecodedInstr::write_to) writes OpCode::%s as %s but the compiler writes %s" % (op, wa, seq))
    # run_program argument order: FunctionArgs::<Arity>(dst, a, b..) from the decoded fields in instruction order
    run = [it for it in F.syn("mech_interpreter.lib") if it["k"] == "method" and it["name"] == "run_program"]
    if rep.check(len(run) == 1, "C06-R4", "anchor:run_program", "run_program not found"):
        n_args = 0
        for m in find(run[0]["body"], "match"):
            for a in m[2]:
                pt = a[0]
                if pt[0] == "pstruct" and pt[1].startswith("DecodedInstr::"):
                    fields = [f[0] for f in pt[2]]
                    regs = [f for f in fields if f not in ("fxn_id", "const_id")]
                    for c in find(a[2], "call"):
                        pc = path_of(c[1]) or ""
                        if pc.startswith("FunctionArgs::"):
                            n_args += 1
                            used = []
                            for arg in c[2]:
                                names = [x[1] for x in find(arg, "path") if x[1] in regs or re.sub(r"_(val|value|reg|v)$", "", x[1]) in regs]
                                used.append(re.sub(r"_(val|value|reg|v)$", "", names[0]) if names else None)
                            exp = regs[:len(used)]
                            okk = [u for u in used if u] == [e for e, u in zip(exp, used) if u]
                            rep.check(okk, "C06-R4", "run_program:%s:argument-order" % pt[1].split("::")[-1],
                                      "run_program builds %s from the instruction fields in order %s, the instruction carries them as %s" % (pc, used, regs))
        rep.floor("C06-R4", "FunctionArgs constructions in run_program", n_args, 3)
        # sibling agreement of the function-call arms: every *Op arm that builds a function also solves it (or not, like its siblings), records `self.out` from the
        # function's out() and stores nothing else - the result of run_program is self.out, so an arm that forgets it returns the previous instruction's value
        eff = {}
        for m in find(run[0]["body"], "match"):
            for a in m[2]:
                pt = a[0]
                if pt[0] == "pstruct" and pt[1].startswith("DecodedInstr::") and any(f[0] == "fxn_id" for f in pt[2]):
                    v = pt[1].split("::")[-1]
                    ok_arm = [x for x in find(a[2], "match")]
                    acts = set()
                    for x in walk(a[2]):
                        if x[0] == "assign" and render(x[1]).replace(" ", "") == "self.out":
                            acts.add("self.out=" + re.sub(r"\s", "", render(x[2])))
                        if x[0] == "mcall" and x[2] in ("solve",):
                            acts.add("solve()")
                        if x[0] == "assign" and re.match(r"^self\.registers\[", render(x[1])):
                            acts.add("registers[..]=")
                    eff[v] = acts
        rep.floor("C06-R4", "function-call opcode arms in run_program", len(eff), 5)
        if eff:
            from collections import Counter
            common = Counter(frozenset(v) for v in eff.values()).most_common(1)[0][0]
            for v, acts in sorted(eff.items()):
                okk = acts == set(common) and any(x.startswith("self.out=") and "out()" in x for x in acts)
                rep.check(okk, "C06-R4", "run_program:%s:records-result" % v if okk else "run_program:%s:effects-%s" % (v, re.sub(r"\W+", "-", "+".join(sorted(acts)) or "none")[:50]),
                          "run_program's %s arm performs %s while its sibling arms perform %s: the value run_program returns (self.out) is not this instruction's result when a %s is the last "
                          "instruction of the program" % (v, sorted(acts), sorted(common), v), "Interpreter::run_program (mech_interpreter.lib)", sample={"arm": v, "effects": sorted(acts)})

    # ---------- R5 constant encoders: the two encoders of a type agree; byte-length prefixes measure the bytes they precede
    encs = {}
    for it in core:
        if it["k"] == "method" and it["trait"] and last_seg(it["trait"]) in ("CompileConst", "ConstElem") and it["name"] in ("compile_const", "write_le", "from_le"):
            encs[(X.canon_type(it["self"]), it["name"])] = it
    types = sorted({t for (t, n) in encs})
    n5 = 0
    for t in types:
        cc, wl, fl = encs.get((t, "compile_const")), encs.get((t, "write_le")), encs.get((t, "from_le"))
        for which, it in (("compile_const", cc), ("write_le", wl)):
            if it is None:
                continue
            seq = C.io_seq(it["body"], "write")
            locs = {st[1][1]: render(st[2]) for st in find(it["body"], "let") if len(st) == 4 and st[2] is not None and st[1][0] == "pident"}
            for i in range(len(seq) - 1):
                if seq[i][0] in C.W and seq[i + 1][0] == "bytes":
                    pre = seq[i][1].strip()
                    if pre.startswith("(") and pre.endswith(")"):
                        pre = pre[1:-1]
                    pre = pre.split(" as ")[0].strip()
                    pre = locs.get(pre, pre)
                    pay = seq[i + 1][1]
                    base = re.sub(r"\.as_bytes\(\)$", "", pay).lstrip("&")
                    n5 += 1
                    ok = re.sub(r"\s", "", pre) in (base + ".len()", pay + ".len()", base + ".as_bytes().len()")
                    rep.check(ok, "C06-R5", "%s::%s:length-prefix" % (t, which),
                              "%s::%s writes the length prefix `%s` before the bytes `%s`: the decoder reads that many BYTES, so the prefix must be the byte length of exactly that payload" % (t, which, pre, pay),
                              sample={"type": t, "encoder": which, "prefix": pre, "payload": pay})
        if cc is not None and wl is not None:
            a = [w for w, _ in C.io_seq(cc["body"], "write")]
            b = [w for w, _ in C.io_seq(wl["body"], "write")]
            deleg = any(m[2] == "write_le" and render(m[1]).replace("&", "").replace("*", "").strip("() ") == "self" for m in find(cc["body"], "mcall"))
            if a and b and not deleg:
                n5 += 1
                rep.check(a == b, "C06-R5", "%s:encoders-agree" % t, "%s: CompileConst::compile_const writes %s but ConstElem::write_le writes %s (the decoder from_le reads one format)" % (t, a, b),
                          sample={"type": t, "compile_const": a, "write_le": b})
                # same widths are not enough: the two encoders must write the same FIELD at each position (rows before cols ...)
                def norm_arg(x, body):
                    lets = {st[1][1]: render(st[2]) for st in find(body, "let") if len(st) == 4 and st[2] is not None and st[1][0] == "pident"}
                    for _ in range(3):
                        x = re.sub(r"\s+as\s+\w+", "", x)
                        x = re.sub(r"[()&*\s]", "", x).replace("self.", "")
                        if x in lets:
                            x = lets[x]
                        else:
                            break
                    x = {"nrows": "rows", "ncols": "cols"}.get(x, x)
                    return x if re.match(r"^[A-Za-z_][\w.]*$", x) else None
                fa = [(w, norm_arg(x, cc["body"])) for w, x in C.io_seq(cc["body"], "write") if w in C.W]
                fb = [(w, norm_arg(x, wl["body"])) for w, x in C.io_seq(wl["body"], "write") if w in C.W]
                if len(fa) == len(fb):
                    diffs = [(i, x[1], y[1]) for i, (x, y) in enumerate(zip(fa, fb)) if x[1] and y[1] and x[1] != y[1]]
                    n5 += 1
                    rep.check(not diffs, "C06-R5", "%s:encoders-agree-on-fields" % t,
                              "%s: the two encoders write different fields at the same position: %s (compile_const vs write_le); from_le decodes one order, so a constant emitted through the other comes back with those fields exchanged" % (
                                  t, ["#%d: %s vs %s" % d for d in diffs][:4]), sample={"type": t, "fields": [x[1] for x in fa]})
        if wl is not None and fl is not None:
            wseq = [w for w, _ in C.io_seq(wl["body"], "write") if w in C.W]
            rseq = [w for w, _ in C.io_seq(fl["body"], "read") if w in C.W]
            loops = any(True for _ in find(wl["body"], "for")) or any(True for _ in find(fl["body"], "for"))
            if wseq and rseq and not loops:
                n5 += 1
                rep.check(wseq == rseq, "C06-R5", "%s:write-read-widths" % t, "%s: write_le writes %s, from_le reads %s" % (t, wseq, rseq), sample={"type": t, "widths": wseq})
    rep.floor("C06-R5", "constant codec obligations", n5, 10)
    from rules.k2_targets import run_k2
    run_k2(F, rep, "C06", "C06-R8")
    from rules import c06_codec
    c06_codec.run(F, rep, core)
    from rules import c06_result
    c06_result.run(F, rep)
    from rules.loopshape import no_unconditional_self_recursion
    no_unconditional_self_recursion(F, rep, "C06-R13", sorted(set(X.FXN_CRATES) | {"mech_core.lib", "mech_interpreter.lib"}), floor=5000)
    c06_codec.compile_errors_propagate(F, rep, core)
    c06_codec.discriminant_tables(F, rep, core)
    c06_codec.panicking_kind_ladders(F, rep, core)
    from rules.c07_fields import run_const_fields
    run_const_fields(F, rep, "mech_core.lib", "C06-R17")
    from rules import c06_sizes
    c06_sizes.run(F, rep, core)
