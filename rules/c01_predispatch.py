"""C01-R10: no error exit in front of the dispatch table of an operator compiler.

C01-R1 decides the closure of acceptance on the dispatch table (a kind with a scalar x scalar arm has arms for every matrix form and for scalar x matrix on either
side).  The table is only consulted if control reaches it: an operator compiler (found by signature: `(Value, Value) -> MResult<Box<dyn MechFunction>>`) may
run preparatory statements first (today: the promotion of a real operand to complex in front of `+`), and an error raised THERE rejects operands the table
accepts.  Structural fact decided: in every statement in front of the final dispatch expression there is no `?` and no `return Err(..)`; leaving early is
allowed only with `Ok(..)` (a special case handled in front of the table) or by returning the result of another operator compiler (re-dispatch on converted operands).  Not decided: what the preparatory code converts."""
from lib.facts import walk, is_node, path_of


def _is_compiler(it):
    sig = it.get("sig") or {}
    ins = sig.get("inputs") or []
    return it.get("k") == "fn" and len(ins) == 2 and all(str(t).strip() == "Value" for _, t in ins) and "MechFunction" in str(sig.get("ret"))


def run(F, rep, crates=("mech_math.lib", "mech_compare.lib", "mech_logic.lib")):
    rid = "C01-R10"
    rep.rule(rid, "no error exit in front of the dispatch table: the statements an operator compiler runs before its dispatch expression contain no `?` and no `return Err(..)` "
                  "(operands the table accepts would be rejected before it is consulted); an early `return` may only hand over to another operator compiler")
    n = n_pre = 0
    for crate in crates:
        items = F.syn(crate)
        compilers = {it["name"] for it in items if _is_compiler(it)}
        for it in items:
            if not _is_compiler(it) or not it.get("body"):
                continue
            body = it["body"]
            stmts = body[1] if (body and body[0] == "block") else body
            if not isinstance(stmts, list) or not stmts:
                continue
            n += 1
            pre = stmts[:-1]
            if pre:
                n_pre += 1
            bad = []
            for s in pre:
                for x in walk(s):
                    if not is_node(x):
                        continue
                    if x[0] == "try":
                        bad.append("`?`")
                    elif x[0] == "ret" and len(x) > 1 and x[1] is not None:
                        v = x[1]
                        callee = path_of(v[1]) if is_node(v) and v[0] == "call" else None
                        if callee == "Ok":
                            continue        # a successful special case in front of the table (tables, atoms, ...)
                        if callee is None or callee.split("::")[-1] not in compilers:
                            bad.append("return of an error / of something that is neither Ok(..) nor a re-dispatch")
            rep.check(not bad, rid, "%s:pre-dispatch-error-exit" % it["name"] if bad else "%s:table-always-consulted" % it["name"],
                      "%s() can leave with an error BEFORE its dispatch table is consulted (%s in the statements in front of the dispatch expression): operands the table has an arm "
                      "for (e.g. scalar x matrix of the promoted kind) are rejected although the operator accepts scalars of that kind" % (it["name"], ", ".join(sorted(set(bad)))),
                      "%s (%s, line %s)" % (it["name"], crate, it.get("line")), sample={"fn": it["name"], "pre_dispatch_statements": len(pre)})
    rep.floor(rid, "operator compilers (Value, Value) -> MResult<Box<dyn MechFunction>>", n, 25)
    rep.floor(rid, "operator compilers with statements in front of the dispatch expression", n_pre, 1)
