"""C16-R5 .. R10 and the K6 field-use rule, decided on lexically resolved bindings (lib/synq.py): no rule reads the spelling of a local,
a named local stands for its initialiser, and a call of a private helper stands for the helper's body.
(Earlier name-based versions of these rules live in rules/loopshape.py and lib/armloop.py; C16 no longer calls them.)"""
import re
from lib.facts import find, walk, is_node, path_of, render, render_pat
from lib import synq as Q

CRATE = "mech_interpreter.lib"
MATCHERS = ("pattern_match_value", "pattern_matches_value", "pattern_matches_value_with_semantics", "pattern_matches_arguments")
SELECTOR_RX = re.compile(r"(^|::)execute_function_match_arms$")


def last(p):
    return re.sub(r"<.*>", "", p or "").split("::")[-1]


def loop_body(lp):
    return lp[1] if lp[0] == "loop" else lp[2] if lp[0] == "while" else lp[3]


def helpers_of(fns, it, depth=2, skip=()):
    """`it` and the private helpers it calls (transitively)"""
    out = [it]
    todo = [(it, depth)]
    while todo:
        f, d = todo.pop()
        if d <= 0:
            continue
        for c in find(f["body"], "call"):
            h = fns.callee(c, f["mod"])
            if h is not None and Q.is_private(h) and h["name"] not in skip and not any(h is x for x in out):
                out.append(h)
                todo.append((h, d - 1))
    return out


def destructurings(tree):
    """(pattern, scrutinee) of every let / if-let / match arm in `tree`"""
    for st in find(tree, "let"):
        if len(st) > 2 and st[2] is not None:
            yield st[1], st[2]
    for l in find(tree, "letc"):
        yield l[1], l[2]
    for m in find(tree, "match"):
        for a in m[2]:
            yield a[0], m[1]


# ---------------------------------------------------------------- C16-R6 (K6 field use, through helpers)
def field_use_via(rep, rule, fns, fn_items, adts, enum_suffix, field_filter, only_if_any=True, exclude_fns=()):
    """K6: in every `match` arm `Enum::Variant(binder)` of the given functions, if the arm touches any relevant field of the variant's payload
    struct it must touch all of them.  Fields read inside a private helper that receives the binder count as read by the arm."""
    enum = None
    structs = {}
    for a in adts:
        if a["name"].endswith(enum_suffix) and a["enum"]:
            enum = a
        if not a["enum"]:
            structs[a["name"]] = a
    if enum is None:
        rep.bad(rule, "anchor-lost:enum %s" % enum_suffix, "enum %s not found" % enum_suffix)
        return 0
    payload = {}
    for v in enum["variants"]:
        if len(v["fields"]) == 1:
            ty = re.sub(r"^alloc::boxed::Box<(.*)>$", r"\1", v["fields"][0][1])
            if ty in structs:
                payload[v["name"]] = structs[ty]
    n = 0
    ename = enum_suffix.split("::")[-1]
    for it in fn_items:
        if it["name"] in exclude_fns or not it.get("body"):
            continue
        sc = None
        for m in find(it["body"], "match"):
            for arm in m[2]:
                p = arm[0]
                alts = p[1] if p[0] == "por" else [p]
                for alt in alts:
                    if alt[0] == "pref":
                        alt = alt[2]
                    if alt[0] != "pts" or not alt[1].startswith(ename + "::") or len(alt[2]) != 1 or alt[2][0][0] != "pident":
                        continue
                    var = alt[1].split("::")[-1]
                    st = payload.get(var)
                    if st is None:
                        continue
                    fields = [f[0] for f in st["variants"][0]["fields"] if field_filter(f)]
                    if len(fields) < 2:
                        continue
                    if sc is None:
                        sc = Q.Scope(fns).add_fn(it)
                    binder = [b for b in sc.decl.get(id(arm), []) if b.name == alt[2][0][1]]
                    used = set()
                    for tree, _via in Q.expand_via(sc, arm[2], 2, None, it["mod"]):
                        for fa in find(tree, "field"):
                            if binder and sc.binding(Q.strip(fa[1])) is binder[0]:
                                used.add(fa[2])
                        # destructuring reads fields too: `let S { a, b: x, .. } = binder` / `if let S { .. } = &binder` / `match binder { S { .. } => }`
                        for pat, src in destructurings(tree):
                            if binder and sc.binding(Q.strip(src)) is binder[0]:
                                for ps in find(pat, "pstruct"):
                                    used |= {f[0] for f in ps[2] if not (is_node(f[1]) and f[1][0] == "pwild")}
                    rel_used = used & set(fields)
                    if only_if_any and not rel_used:
                        continue
                    n += 1
                    miss = [f for f in fields if f not in used]
                    rep.check(not miss, rule, "%s:%s::%s" % (it["name"], ename, var) if not miss else "%s:%s::%s:missing:%s" % (it["name"], ename, var, ",".join(miss)),
                              "%s: the arm for %s::%s(..) reads %s but never reads %s: that part of the node is ignored" % (it["name"], ename, var, sorted(rel_used), miss),
                              "expanded line %d" % arm[3], sample={"fn": it["name"], "variant": var, "fields": fields})
    return n


# ---------------------------------------------------------------- C16-R5
def loop_carried_args(F, rep, fns):
    rep.rule("C16-R5", "tail-call loop of execute_user_function: inside the loop only the loop-carried argument vector is read, never the arguments of the initial call")
    it = fns.get("execute_user_function")
    if not rep.check(it is not None, "C16-R5", "anchor:execute_user_function", "execute_user_function not found"):
        return
    n = 0
    for f in helpers_of(fns, it, 2, skip=("execute_function_match_arms",)):
        sc = Q.Scope(fns).add_fn(f)
        lists = [f["body"]] + [b[1] for b in walk(f["body"]) if b[0] == "block"] + [b[2] for b in walk(f["body"]) if b[0] == "if"]
        for stmts in lists:
            for i, st in enumerate(stmts):
                if st[0] != "let" or st[2] is None:
                    continue
                bs = [b for b in sc.decl.get(id(st), []) if b.kind == "let" and b.mut]
                if len(bs) != 1:
                    continue
                v = bs[0]
                srcs = {sc.binding(x) for x in find(st[2], "path")}
                srcs = {b for b in srcs if b is not None and b.kind == "param"}
                if not srcs:
                    continue
                for st2 in stmts[i + 1:]:
                    for lp in ([x for x in Q.walk_no_closure(st2) if x[0] in ("loop", "while", "for")] if st2[0] in ("expr", "let") else []):
                        body = loop_body(lp)
                        if not any(sc.binding(a[1]) is v for a in find(body, "assign")):
                            continue
                        if not Q.reaches(fns, body, lambda c, p: SELECTOR_RX.search(p) is not None, 2, Q.is_private):
                            continue
                        n += 1
                        stale = sorted({x[1] for x in find(body, "path") if sc.binding(x) in srcs})
                        rep.check(not stale, "C16-R5", "execute_user_function:loop-carried-args" if not stale else "execute_user_function:loop-reads-initial-args",
                                  "%s: the tail-call loop carries its arguments in `%s` (re-assigned on every tail call) but its body also reads `%s`, the arguments of the INITIAL call: "
                                  "after the first tail call that value is stale" % (f["name"], v.name, ",".join(stale)), "%s (mech_interpreter.lib)" % f["name"],
                                  sample={"fn": f["name"], "loop_carried": v.name, "initial": sorted(b.name for b in srcs)})
    rep.floor("C16-R5", "tail-call loops with a loop-carried argument vector", n, 1)


def recv_fields(e):
    """field names on the receiver spine of an iterator expression (`x.suffix.iter()` -> [suffix]; index / argument expressions are not part of it)"""
    out = []
    while is_node(e):
        if e[0] == "mcall":
            e = e[1]
        elif e[0] == "field":
            out.append(e[2])
            e = e[1]
        elif e[0] == "index":
            e = e[1]
        elif e[0] in ("ref", "un"):
            e = e[2]
        elif e[0] in ("try", "cast"):
            e = e[1]
        else:
            break
    return list(reversed(out))


# ---------------------------------------------------------------- C16-R7
def pattern_value_pairing(F, rep, fns):
    rep.rule("C16-R7", "pattern matcher: sub-patterns are paired with the matched value's parts in order - both operands of every `zip` are plain forward iterators over "
                       "a (sub)slice, and the suffix patterns are paired with the slice starting at len - suffix.len()")
    REORDER = {"rev", "step_by", "chain", "cycle", "filter", "filter_map", "rposition", "sorted", "sort", "reverse"}   # skip(1) over a tag element is order-preserving and used by TupleStruct patterns
    n = 0
    pat_fns = [it for it in F.syn(CRATE) if it["k"] == "fn" and it["mod"].endswith("patterns") and it.get("body")]

    def own_zips(it):
        return [m for m in find(it["body"], "mcall") if m[2] == "zip" and m[4]]      # in a `for` header, a named local, or an adaptor chain alike

    def parametric(it, z):
        """a zip in a private helper one of whose operands IS a parameter (`patterns.iter().zip(values)`): which lists it pairs is decided by each caller"""
        if not Q.is_private(it):
            return False
        ps = set(p for p in Q.params(it) if p)
        for o in (z[1], z[4][0]):
            base = o
            while is_node(base) and base[0] in ("mcall", "ref", "un", "index", "field", "try", "cast"):
                base = base[1] if base[0] in ("mcall", "index", "field", "try", "cast") else base[2]
            if is_node(base) and base[0] == "path" and base[1] in ps:
                return True
        return False

    helpers = {id(it): it for it in pat_fns if any(parametric(it, z) for z in own_zips(it))}
    called = set()
    for it in pat_fns:
        for c in find(it["body"], "call"):
            h = fns.callee(c, it["mod"])
            if h is not None and id(h) in helpers and h is not it:
                called.add(id(h))
    for it in pat_fns:
        sc = Q.Scope(fns).add_fn(it)
        zips = [z for z in own_zips(it) if not (id(it) in called and parametric(it, z))]
        # the pairing helper's zip, once per call, with the helper's parameters bound to this caller's arguments
        for c in list(find(it["body"], "call")):
            h = fns.callee(c, it["mod"])
            if h is None or id(h) not in called or h is it:
                continue
            body = sc.inline(c, h)
            if body is None:
                rep.note("undecided", {"rule": "C16-R7", "fn": it["name"], "why": "the call of the pairing helper %s cannot be bound to its parameters" % h["name"]})
                continue
            zips += [m for m in find(body, "mcall") if m[2] == "zip" and m[4]]
        for z in zips:
            ops = [z[1], z[4][0]]

            def named_iterator(o):
                """a local that names an iterator chain stands for that chain (a `.rev()` behind a local is still a `.rev()`); other locals stay"""
                for _ in range(4):
                    b = sc.binding(o) if is_node(o) and o[0] == "path" else None
                    if sc.stable(b) and is_node(b.src) and b.src[0] == "mcall":
                        o = b.src
                    else:
                        break
                return o
            ops = [named_iterator(o) for o in ops]
            n += 1
            bad = []
            for o in ops:
                for m in find(o, "mcall"):
                    if m[2] in REORDER:
                        bad.append(m[2])
            txt = render(z)
            # the instance is named by the fields its two operands read (`prefix/-`, `patterns/elements`): no local, no function name
            roles = [".".join(recv_fields(o)) or "-" for o in ops]
            key = "zip:%s/%s" % (roles[0], roles[1])
            rep.check(not bad, "C16-R7", key if not bad else key + ":" + ",".join(sorted(set(bad))),
                      "%s pairs patterns with values through `%s`: an operand is re-ordered or truncated (%s), so sub-pattern i no longer meets part i of the matched value" % (it["name"], txt[:90], sorted(set(bad))),
                      "%s (mech_interpreter.lib)" % it["name"], sample={"fn": it["name"], "zip": txt[:120]})
            # suffix pairing: values[START..] with START = values.len() - <suffix>.len()
            is_suffix = ["suffix" in recv_fields(o) for o in ops]
            if any(is_suffix):
                other = ops[1] if is_suffix[0] else ops[0]
                rng = [x for x in find(other, "range")]
                ok = False
                if rng and rng[0][1] is not None and rng[0][2] is None:
                    # the start expression with its named parts spelled out, level by level (`start` / `n - k` / `values.len() - x.suffix.len()`)
                    forms = [re.sub(r"[\s()]", "", render(sc.expand(rng[0][1], d))) for d in range(0, 4)]
                    ok = any(re.match(r"^\w+\.len-[\w.]*suffix\.len$", f) for f in forms)
                    if not ok:
                        # the same statement by value: START == len(values) - len(suffix) for all lengths with len(suffix) <= len(values)
                        # (`checked_sub` matched on Some, `saturating_sub`, named parts: whatever evaluates)
                        from rules.pattern_arity import Lengths
                        L = Lengths(sc)
                        pat_op = ops[0] if is_suffix[0] else ops[1]
                        base = other
                        while is_node(base) and base[0] in ("mcall", "ref"):
                            base = base[1] if base[0] == "mcall" else base[2]
                        sk, vk = L.key(pat_op[1] if is_node(pat_op) and pat_op[0] == "mcall" else pat_op), L.key(base[1]) if is_node(base) and base[0] == "index" else None
                        if sk is not None and vk is not None and sk != vk:
                            ok = True
                            for nv in range(0, 5):
                                for ns in range(0, nv + 1):
                                    L.env = {sk: ns, vk: nv}
                                    if L.ev(rng[0][1]) != nv - ns:
                                        ok = False
                rep.check(ok, "C16-R7", key + ":suffix-anchored-at-len-minus-suffix",
                          "%s: the suffix patterns are not paired with the slice `values[len - suffix.len()..]` (`%s`)" % (it["name"], render(other)[:60]), "%s (mech_interpreter.lib)" % it["name"])
    rep.floor("C16-R7", "pattern/value zips in the matcher", n, 2)


# ---------------------------------------------------------------- C16-R8
def trial_env_fresh(F, rep, fns, rule, names, floor):
    """Every candidate arm is matched against its OWN scratch environment: the place handed `&mut` to a pattern matcher inside a loop over candidates is
    declared inside the body of the innermost such loop (or inside a helper that loop body calls), so bindings made by a match that later fails cannot
    survive into the next candidate."""
    rep.rule(rule, "trial matches use a fresh scratch environment: the environment passed `&mut` to pattern_match_value / pattern_matches_* inside a loop over candidates is declared inside "
                   "the body of the innermost such loop (a matcher binds sub-patterns left to right and leaves them behind when a later sub-pattern fails; reusing the environment "
                   "turns those leftovers into join constraints for the next candidate)")
    n = 0
    for name in names:
        it = fns.get(name)
        if it is None:
            continue
        sc = Q.Scope(fns).add_fn(it)

        def visit(e, region, depth, via):
            """region: trees executed once per iteration of the innermost enclosing loop (None outside loops)"""
            nonlocal n
            if not isinstance(e, list):
                return
            if is_node(e):
                t = e[0]
                if t in ("for", "while", "loop"):
                    if t == "for":
                        visit(e[2], region, depth, via)
                    elif t == "while":
                        visit(e[1], region, depth, via)
                    body = loop_body(e)
                    visit(body, [body], depth, via)
                    return
                if t in ("macro", "item"):
                    return
                if t == "call":
                    m = last(path_of(e[1]))
                    if m in MATCHERS:
                        if region is not None:
                            for a in e[2]:
                                if not (is_node(a) and a[0] == "ref" and a[1]):
                                    continue
                                b = sc.root(a)
                                if b is None or b.kind == "param":
                                    continue
                                n += 1
                                inside = b.owner is not None and any(Q.contains(t_, b.owner) for t_ in region)
                                rep.check(inside, rule, "%s(&mut env)" % m + ("" if inside else ":reused-across-candidates"),
                                          "%s calls %s(.., &mut %s) inside a loop over candidates, but `%s` is declared outside that loop: bindings left behind by a match that fails part-way are still there when "
                                          "the next candidate is matched and reject (or wrongly constrain) it" % (name, m, b.name, b.name), "%s (mech_interpreter.lib)" % name,
                                          sample={"fn": name, "matcher": m, "env": b.name})
                    else:
                        h = fns.callee(e, it["mod"])
                        if h is not None and Q.is_private(h) and depth > 0 and h["name"] not in names and not any(h is x for x in via):
                            body = sc.inline(e, h)
                            if body is not None:
                                visit(body, (region + [body]) if region is not None else None, depth - 1, via + (h,))
            for x in (e[1:] if is_node(e) else e):
                visit(x, region, depth, via)

        visit(it["body"], None, 2, ())
    rep.floor(rule, "trial-match sites inside candidate loops", n, floor)


# ---------------------------------------------------------------- C16-R9
def catch_all_predicate(F, rep, fns):
    from lib import guards as G
    rep.rule("C16-R9", "non-exhaustive matches are rejected unless a genuine wildcard arm exists: every construction of a *NonExhaustive* error is reached under the negation of an "
                       "`arms.any(|arm| matches!(arm.pattern, P))` flag, and P is exactly Pattern::Wildcard (a wider P - e.g. Pattern::Expression, which also carries atom literals "
                       "like `:red` - switches the enum coverage check off for arm lists that are not exhaustive)")
    n = 0

    def any_flags(sc, c, mod):
        """catch-all predicates `X.any(|a| matches!(a.pattern, P..))` that condition `c` is made of (named locals and private helpers looked through)"""
        out = []
        e = sc.expand(c)
        for tree, _via in Q.expand_via(sc, e, 2, None, mod):
            for mc in find(tree, "mcall"):
                if mc[2] != "any" or not mc[4] or not is_node(mc[4][0]) or mc[4][0][0] != "closure":
                    continue
                for m in find(mc[4][0][2], "match"):
                    if not re.search(r"\.pattern$", render(m[1]).replace("&", "").replace("(", "").replace(")", "")):
                        continue
                    acc = set()
                    for a in m[2]:
                        if render(a[2]) == "true":
                            for alt in (a[0][1] if a[0][0] == "por" else [a[0]]):
                                acc.add(re.sub(r"[({].*$", "", render_pat(alt)).strip())
                    out.append(acc)
        return out

    def site_flags(sc, it, facts):
        flags = []
        for c, pol in G.atoms(facts):
            if pol:
                continue
            flags += any_flags(sc, c, it["mod"])
        return flags

    items = [it for it in F.syn(CRATE) if it["k"] == "fn" and it.get("body")]
    scopes = {}

    def scope(it):
        if id(it) not in scopes:
            scopes[id(it)] = Q.Scope(fns).add_fn(it)
        return scopes[id(it)]

    for it in items:
        if "NonExhaustive" not in render(["block", it["body"]]):
            continue
        for s, facts in G.sites(it["body"], "struct") + G.sites(it["body"], "path"):
            if "NonExhaustive" not in s[1]:
                continue
            sc = scope(it)
            flags = site_flags(sc, it, facts)
            owner = it
            if not flags and Q.is_private(it):
                # the error is built in a helper: the wildcard test guards the helper's call site(s)
                callers = []
                for jt in items:
                    if jt is it:
                        continue
                    for c, cfacts in G.sites(jt["body"], "call"):
                        if fns.callee(c, jt["mod"]) is it:
                            callers.append((jt, cfacts))
                if callers and all(site_flags(scope(jt), jt, cf) for jt, cf in callers):
                    flags = [f for jt, cf in callers for f in site_flags(scope(jt), jt, cf)]
                    owner = callers[0][0]
            n += 1
            ok = bool(flags) and all(acc == {"Pattern::Wildcard"} for acc in flags)
            desc = ";".join("|".join(sorted(a)) for a in flags) or "none"
            rep.check(ok, "C16-R9", s[1].split("::")[-1] + ("" if ok else ":catch-all=" + desc.replace("Pattern::", "")[:60]),
                      "%s raises %s only when no arm satisfies the catch-all predicate [%s]; expected exactly Pattern::Wildcard: arm lists with an arm of the other accepted shapes skip the "
                      "exhaustiveness check although they do not cover every variant" % (owner["name"], s[1], desc), "%s (mech_interpreter.lib)" % owner["name"],
                      sample={"fn": owner["name"], "error": s[1], "flags": [sorted(a) for a in flags]})
    rep.floor("C16-R9", "NonExhaustive error constructions examined", n, 3)


# ---------------------------------------------------------------- C16-R10
def broadcast_shape(F, rep, fns):
    rep.rule("C16-R10", "try_broadcast_user_function: the function is applied to every element in storage order (one push per element of matrix_like_values(source), no reordering or "
                        "filtering adaptor, errors propagated) and the results are reassembled with (shape[0], shape[1]) of the SOURCE in that order; matrix_like_values enumerates every "
                        "matrix kind through as_vec() (storage order), the order ToMatrix::to_matrix consumes")
    it = fns.get("try_broadcast_user_function")
    if not rep.check(it is not None, "C16-R10", "anchor:try_broadcast_user_function", "try_broadcast_user_function not found"):
        return
    sc = Q.Scope(fns).add_fn(it)
    trees = [t for t, _ in Q.expand_via(sc, it["body"], 1, lambda h: Q.is_private(h) and h["name"] not in ("execute_user_function", "build_typed_matrix_from_values"), it["mod"])]

    def is_apply(c):
        return last(path_of(c[1])) == "execute_user_function"

    loops = [f for t in trees for f in find(t, "for") if any(m[2] == "push" for m in find(f[3], "mcall")) and any(is_apply(c) for c in find(f[3], "call"))]
    source = None       # binding of the matrix whose elements are enumerated
    chains = []
    if not loops:
        # iterator adaptor == loop: `<elements>.into_iter().map(|e| f(.., e, ..)).collect::<Result<Vec<_>, _>>()?`
        for t in trees:
            for mc in find(t, "mcall"):
                if mc[2] != "collect":
                    continue
                adaptors, e = [], mc[1]
                while is_node(e) and e[0] == "mcall":
                    adaptors.append(e)
                    e = e[1]
                maps = [a for a in adaptors if a[2] == "map" and a[4] and is_node(a[4][0]) and a[4][0][0] == "closure" and any(is_apply(c) for c in find(a[4][0][2], "call"))]
                if maps:
                    chains.append((mc, adaptors, maps, e))
    if chains:
        rep.check(len(chains) == 1, "C16-R10", "anchor:element-loop", "the element loop was not found (%d iterator chains apply the function)" % len(chains))
        mc, adaptors, maps, src = chains[0]
        others = sorted({a[2] for a in adaptors if a is not maps[0]} - {"into_iter", "iter"})
        reordering = sorted(set(others) & {"rev", "skip", "skip_while", "take", "take_while", "step_by", "filter", "filter_map", "chain", "cycle", "zip", "flat_map", "flatten", "dedup", "sorted"})
        src_chain = sc.chain(src)
        src_call = [x for x in src_chain if is_node(x) and x[0] == "call" and last(path_of(x[1])) == "matrix_like_values"]
        if src_call and src_call[0][2]:
            source = sc.root(src_call[0][2][0])
        cl = maps[0][4][0]
        body = cl[2]
        while is_node(body) and body[0] in ("block", "unsafe") and len(body[1]) == 1 and body[1][0][0] == "expr" and not body[1][0][2]:
            body = body[1][0][1]
        direct = len(maps) == 1 and is_node(body) and body[0] == "call" and is_apply(body)      # exactly f(element) per element, its Result handed to collect
        elem = sc.decl.get(id(cl), [])
        arg_ok = direct and len(body[2]) >= 2 and bool(elem) and sc.mentions(body[2][1], elem[0])
        propagated = any(t_[0] == "try" and t_[1] is mc for t in trees for t_ in find(t, "try")) and "Result" in (mc[3] or "")
        if reordering or not src_call or (direct and not arg_ok):
            why = "reordered-or-partial-iteration" if reordering else "not-all-elements" if not src_call else "argument"
            rep.bad("C16-R10", "broadcast:element-loop:%s" % why,
                    "try_broadcast_user_function maps the function over `%s` with %s: the output does not hold f(element) for every element in storage order" % (
                        render(src)[:40], ("adaptors " + ",".join(reordering)) if reordering else "a source that is not matrix_like_values(source)" if not src_call else "an argument that is not the element"),
                    "try_broadcast_user_function (mech_interpreter.lib)")
        elif direct and not others and propagated:
            rep.ok("C16-R10", "broadcast:every-element-in-order")
        else:
            rep.obligations += 1
            rep.discharged += 1
            rep.note("undecided", {"rule": "C16-R10", "why": "the function is applied inside an iterator chain `%s` whose shape is not recognised (adaptors %s, direct=%s, errors propagated=%s)" % (
                render(mc)[:80], others, direct, propagated)})
    elif not loops and any(is_apply(c) for t in trees for cl in find(t, "closure") for c in find(cl, "call")):
        rep.note("undecided", {"rule": "C16-R10", "why": "the function is applied to the elements inside a closure, not in a `for` loop with a push or a map/collect chain"})
    elif rep.check(len(loops) == 1, "C16-R10", "anchor:element-loop", "the element loop was not found (%d)" % len(loops)):
        lp = loops[0]
        it_txt = render(lp[2]).replace(" ", "")
        plain = re.match(r"^&?\w+(\.iter\(\)|\.into_iter\(\))?$", it_txt) is not None
        # where the iterated collection comes from
        src_chain = sc.chain(lp[2])
        src_call = [x for x in src_chain if is_node(x) and x[0] == "call" and last(path_of(x[1])) == "matrix_like_values"]
        from_all = bool(src_call)
        if src_call and src_call[0][2]:
            source = sc.root(src_call[0][2][0])
        pushes = [m for m in find(lp[3], "mcall") if m[2] == "push"]
        one_per = len(pushes) == 1 and not any(x[0] in ("if", "match", "continue", "break") for x in walk(lp[3]) if x is not lp[3])
        elem = sc.decl.get(id(lp), [])
        arg_ok = any(is_apply(c) and len(c[2]) >= 2 and elem and sc.mentions(c[2][1], elem[0]) for c in find(lp[3], "call"))
        ok = plain and from_all and one_per and arg_ok
        why = "reordered-or-partial-iteration" if not plain else "not-all-elements" if not from_all else "conditional-push" if not one_per else "argument"
        rep.check(ok, "C16-R10", "broadcast:every-element-in-order" if ok else "broadcast:element-loop:%s" % why,
                  "try_broadcast_user_function iterates `%s` (elements from `%s`) and pushes %d result(s) per element: the output does not hold f(element) for every element in storage order" % (
                      render(lp[2])[:40], render(src_chain[-1])[:50] if src_chain else "?", len(pushes)), "try_broadcast_user_function (mech_interpreter.lib)")
    builds = [c for t in trees for c in find(t, "call") if last(path_of(c[1])) == "build_typed_matrix_from_values"]
    if rep.check(len(builds) == 1, "C16-R10", "anchor:reassembly", "build_typed_matrix_from_values call not found"):
        args = builds[0][2]
        dims = []
        shape_of = []
        for a in args[2:4]:
            # `shape[0]` directly or through named locals: the first `X[<int>]` on the way back, and whose `.shape()` X is
            ix = [x for x in sc.chain(a) if is_node(x) and x[0] == "index" and is_node(x[2]) and x[2][0] == "int"]
            sh = [y for y in sc.chain(ix[0][1]) if is_node(y) and y[0] == "mcall" and y[2] == "shape"] if ix else []
            dims.append(int(ix[0][2][1]) if ix else None)
            shape_of.append(sc.root(sh[0][1]) if sh else None)
        of_source = len(shape_of) == 2 and shape_of[0] is not None and shape_of[0] is shape_of[1] and (source is None or shape_of[0] is source)
        ok = len(args) == 4 and dims == [0, 1] and of_source
        why = "dims-exchanged" if dims == [1, 0] and of_source else "not-source-shape" if dims == [0, 1] else "other"
        rep.check(ok, "C16-R10", "broadcast:source-shape" if ok else "broadcast:shape-%s" % why,
                  "the broadcast result is reassembled with (%s): expected (shape[0], shape[1]) of the source's shape() - a non-square matrix comes back transposed or reshaped" % (
                      ", ".join(render(sc.expand(a, 2)) for a in args[2:])), "try_broadcast_user_function (mech_interpreter.lib)")
    bt = fns.get("build_typed_matrix_from_values")
    if rep.check(bt is not None, "C16-R10", "anchor:build_typed_matrix_from_values", "build_typed_matrix_from_values not found"):
        bsc = Q.Scope(fns).add_fn(bt)
        ps = Q.params(bt)
        n_c = 0
        if rep.check(len(ps) == 4 and None not in ps, "C16-R10", "anchor:build-signature", "build_typed_matrix_from_values no longer takes (kind, outputs, rows, cols): %s" % ps):
            env0 = {b.name: b for b in bsc.use.values() if b.kind == "param"}
            rb, cb = env0.get(ps[2]), env0.get(ps[3])
            for c in list(find(bt["body"], "call")) + list(find(bt["body"], "mcall")):
                args = c[2] if c[0] == "call" else c[4]
                roots = [bsc.binding(Q.strip(bsc.expand(a))) for a in args]
                if rb is not None and cb is not None and rb in roots and cb in roots:
                    n_c += 1
                    okc = roots.index(rb) < roots.index(cb)
                    fn_ = (path_of(c[1]) or "?") if c[0] == "call" else c[2]
                    rep.check(okc, "C16-R10", "reassembly:%s:rows-then-cols" % fn_.split("::")[-1] if okc else "reassembly:%s:cols-before-rows" % fn_.split("::")[-1],
                              "build_typed_matrix_from_values calls %s(%s): the constructor takes (rows, cols) - a non-square broadcast result of this kind comes back with its dimensions exchanged" % (
                                  fn_, ", ".join(render(a) for a in args)), "build_typed_matrix_from_values (mech_interpreter.lib)")
        rep.floor("C16-R10", "matrix constructions in build_typed_matrix_from_values", n_c, 2)
    ml = fns.get("matrix_like_values")
    if rep.check(ml is not None, "C16-R10", "anchor:matrix_like_values", "matrix_like_values not found"):
        n_ok = 0
        for m in find(ml["body"], "match"):
            for arm in m[2]:
                if not re.search(r"Value::Matrix\w+\(", render_pat(arm[0])):
                    continue
                txt = render(arm[2]).replace(" ", "")
                if re.search(r"\.as_vec\(\)(\.into_iter\(\)\.map\(|\)$)", txt) and not re.search(r"\.rev\(\)|\.skip\(|\.step_by\(|\.filter\(|transpose", txt):
                    n_ok += 1
                else:
                    rep.bad("C16-R10", "matrix_like_values:%s" % re.sub(r"[^A-Za-z0-9]+", "-", re.sub(r"\(.*$", "", render_pat(arm[0])))[:40],
                            "matrix_like_values enumerates %s as `%s`, not as_vec() in storage order" % (render_pat(arm[0])[:30], render(arm[2])[:60]), "matrix_like_values (mech_interpreter.lib)")
        rep.floor("C16-R10", "matrix kinds enumerated through as_vec()", n_ok, 10)
