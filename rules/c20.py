"""C20 — source includes: cycle detection, pairing, fence immunity, relative resolution."""
import re
from lib.facts import CallGraph
from lib.mirq import Slice, calls_matching, edge_dominates, result_exits, switch_on_call_result

TECHNIQUE = "MIR CFG path rules (dominance, must-pass-through pairing, edge dominance) + operand provenance + who-may-call on the include expander"
EXPLANATION = (
    "Decides the structural clauses of C20 on the MIR of the include expander in crate `mech`: the cycle test "
    "dominates the active-set insertion and every recursive call and its true-branch returns Err; every path from the "
    "insertion to an Ok return passes the removal of the same key; the token expander only ever receives the "
    "outside-fence buffer, which is appended to only on the no-fence path; includes are resolved against the parent of "
    "the including file's canonical path; recursion happens only through the guarded function; a missing target exits with Err. "
    "Not decided: the exact spliced text and fence-length corner cases (string values)."
    ' (R7) is_code_fence_close rejects exactly the lines with another marker or a SHORTER run than the opening fence, decided over the finite (marker, length) table.'
    ' (R4, tightened) the active-set key derives from canonicalize(path) (two spellings of one file must be one key).'
    ' (R8) the token expander examines every line of its chunk: no Ok exit before or inside the line loop, the result is the accumulator the loop fills, and the per-line test is standalone_braced_content.'
    ' (R9) fence typestate: a line that opens a fence sets the fence state unconditionally, the state is cleared only under is_code_fence_close, both fence branches end in `continue`, and nothing else writes the state.'
)

HS = r"std::collections::hash::set::HashSet::<T, S, A>::"


def is_set_param(body, i):
    return "HashSet<std::path::PathBuf" in body.locals[i]


def run(F, rep, tier):
    crate = "mech.lib"
    bodies = F.bodies(crate)
    rep.analysed = {"crate": crate, "bodies": len(bodies)}
    cg = CallGraph(F, [crate])
    rep.rule("C20-R1", "cycle test (contains on the active set) dominates insert and every recursive call; its true branch returns Err without inserting")
    rep.rule("C20-R2", "every path from the active-set insertion to an Ok return passes a removal of the same key")
    rep.rule("C20-R3", "token expander is only fed the outside-fence buffer; that buffer is appended to only when no fence is active and the line opens no fence; fenced lines are copied verbatim")
    rep.rule("C20-R4", "include path = parent(canonical path of the including file).join(include text); never the process cwd")
    rep.rule("C20-R5", "the include expander is entered only through the guarded recursive function (who-may-call)")
    rep.rule("C20-R6", "a target that cannot be canonicalised/opened exits with Err (the error edge is propagated)")

    # ---- anchors by role: the guarded function = inserts into a HashSet<PathBuf> parameter
    guarded = []
    for b in bodies:
        ins = calls_matching(b, HS + "insert$")
        if not ins:
            continue
        sl = Slice(b)
        for blk, t in ins:
            roots = sl.roots(t["args"][0])
            args = [r[1] for r in roots if r[0] == "arg"]
            if any(is_set_param(b, a) for a in args):
                guarded.append(b)
                break
    rep.floor("C20-R1", "guarded include expander (inserts into a HashSet<PathBuf> parameter)", len(guarded), 1)
    if not guarded:
        return
    for R in guarded:
        check_guarded(F, rep, R, cg, bodies)


def check_guarded(F, rep, R, cg, bodies):
    sl = Slice(R)
    name = R.fn
    where = R.where()
    set_args = [i for i in range(1, R.nargs + 1) if is_set_param(R, i)]

    def on_set(t):
        return any(("arg", a) in sl.roots(t["args"][0]) for a in set_args)

    contains = [(b, t) for b, t in calls_matching(R, HS + "contains$") if on_set(t)]
    inserts = [(b, t) for b, t in calls_matching(R, HS + "insert$") if on_set(t)]
    removes = [(b, t) for b, t in calls_matching(R, HS + "remove$") if on_set(t)]
    ok_exits, err_exits = result_exits(R)

    # who is on the recursion cycle: callees of R (local) from which R is reachable
    local = set(cg.bodies)
    cyc_calls = []
    for b, t in R.calls():
        cal = t.get("f") or t["tf"]
        if cal in local and (cal == name or name in cg.reach([cal])):
            cyc_calls.append((b, t, cal))
    rep.floor("C20-R1", "recursive call sites in %s" % name, len(cyc_calls), 1)

    # R1
    if not rep.check(len(contains) >= 1, "C20-R1", "%s:cycle-test-present" % name,
                     "no membership test on the active set before recursing", where):
        pass
    for cb, ct in contains:
        sw = switch_on_call_result(R, cb, ct)
        if not rep.check(sw is not None, "C20-R1", "%s:cycle-test-branches" % name, "result of the membership test is not branched on", where):
            continue
        swb, t_true, t_false = sw
        # true branch: must reach only Err exits, never the insert or a recursive call
        reach_true = R.reachable_from([t_true])
        hit_ins = [b for b, _ in inserts if b in reach_true and not R.dominates(t_false, b)] if t_false is not None else []
        # (blocks dominated by the false target are not on the true path)
        reach_true_only = R.reachable_from([t_true], avoid={t_false} if t_false is not None else ())
        rep.check(not (reach_true_only & ok_exits) and bool(reach_true_only & err_exits), "C20-R1", "%s:cycle-test-true-branch-errs" % name,
                  "when the file is already active the function can still return Ok / does not return Err", where,
                  sample={"contains_block": cb, "true_target": t_true, "err_exit_blocks": sorted(reach_true_only & err_exits)})
        rep.check(not any(b in reach_true_only for b, _ in inserts), "C20-R1", "%s:cycle-test-true-branch-no-insert" % name,
                  "the already-active branch reaches the insertion", where)
        for ib, it in inserts:
            rep.check(R.dominates(cb, ib) and edge_dominates(R, swb, t_false, ib), "C20-R1", "%s:test-dominates-insert" % name,
                      "active-set insertion (line %d) is not dominated by the failed-membership edge of the cycle test" % it["l"], "%s:%d" % (R.file, it["l"]))
        for b, t, cal in cyc_calls:
            rep.check(R.dominates(cb, b) and edge_dominates(R, swb, t_false, b), "C20-R1", "%s:test-dominates-recursion:%s" % (name, cal.split("::")[-1]),
                      "recursive call to %s (line %d) is not dominated by the cycle test" % (cal, t["l"]), "%s:%d" % (R.file, t["l"]))
    # insertion must precede (dominate) every recursive call, otherwise the callee cannot see this file as active
    rep.check(len(inserts) >= 1, "C20-R1", "%s:insert-present" % name, "the current file is never marked active", where)
    for b, t, cal in cyc_calls:
        rep.check(any(R.dominates(ib, b) for ib, _ in inserts), "C20-R1", "%s:insert-dominates-recursion:%s" % (name, cal.split("::")[-1]),
                  "recursive call to %s (line %d) can run before the current file is marked active" % (cal, t["l"]), "%s:%d" % (R.file, t["l"]))

    # R2 pairing: insert -> Ok exit must pass remove(same key)
    for ib, it in inserts:
        key_locals = sl.locals_feeding(it["args"][1])
        good_removes = set()
        for rb, rt in removes:
            if sl.locals_feeding(rt["args"][1]) & key_locals & set(v[0] for v in R.vars.values()):
                good_removes.add(rb)
        start = [it["t"]] if "t" in it else []
        reach = R.reachable_from(start, avoid=good_removes)
        leak = sorted(reach & ok_exits)
        rep.check(not leak, "C20-R2", "%s:insert-remove-pairing" % name,
                  "a path from the active-set insertion (line %d) reaches an Ok return (blocks %s) without removing the same key: a second include of the file would be reported as circular" % (it["l"], leak),
                  "%s:%d" % (R.file, it["l"]), sample={"insert_block": ib, "remove_blocks": sorted(good_removes), "ok_exit_blocks": sorted(ok_exits)})
    rep.floor("C20-R2", "Ok exits of %s" % name, len(ok_exits), 1)

    # R3 fence immunity
    T_calls = [(b, t, cal) for b, t, cal in cyc_calls if cal != name]
    varlocals = {v[0]: k for k, v in R.vars.items() if v[1] == ""}
    buf_locals = set()
    for b, t, cal in T_calls:
        srcs = sl.locals_feeding(t["args"][0]) & set(varlocals)
        strs = {l for l in srcs if R.locals[l] == "alloc::string::String"}
        rep.check(len(strs) == 1, "C20-R3", "%s:expander-input-single-buffer" % name,
                  "text handed to the token expander (line %d) does not come from exactly one String buffer: %s" % (t["l"], sorted(varlocals[l] for l in strs)),
                  "%s:%d" % (R.file, t["l"]))
        buf_locals |= strs
    rep.check(len(buf_locals) == 1, "C20-R3", "%s:one-outside-buffer" % name, "expander calls read different buffers", where)
    # fence state: an Option<(char,usize)> variable
    fence = [l for l, n in varlocals.items() if R.locals[l].startswith("core::option::Option<(char")]
    rep.floor("C20-R3", "fence-state variable in %s" % name, len(fence), 1)
    if len(buf_locals) == 1 and fence:
        buf = next(iter(buf_locals))
        fl = fence[0]
        # switch on discriminant of fence var: find blocks computing discr(fence) then switch
        fence_sw = []
        for i, blk in enumerate(R.blocks):
            t = blk["t"]
            if t["k"] == "switch" and isinstance(t["on"], list):
                for s in blk["s"]:
                    if s.get("rk") == "discr" and s["src"][0][0] == fl and s["d"][0] == t["on"][0]:
                        none_t = [tg for v, tg in t["targets"] if v == 0] or [t["else"]]
                        some_t = [tg for v, tg in t["targets"] if v == 1] or [t["else"]]
                        if none_t[0] != some_t[0]:
                            fence_sw.append((i, none_t[0], some_t[0]))
        rep.floor("C20-R3", "branch on the fence state", len(fence_sw), 1)
        # the delimiter test: call whose result is Option<(char,usize,usize)> matched
        delim = [(b, t) for b, t in R.calls() if R.locals[t["d"][0]].startswith("core::option::Option<(char,usize,usize)")]
        delim_sw = []
        for b, t in delim:
            nb = t.get("t")
            if nb is None:
                continue
            blk = R.blocks[nb]
            tt = blk["t"]
            if tt["k"] == "switch":
                for s in blk["s"]:
                    if s.get("rk") == "discr" and s["src"][0][0] == t["d"][0]:
                        none_t = [tg for v, tg in tt["targets"] if v == 0] or [tt["else"]]
                        some_t = [tg for v, tg in tt["targets"] if v == 1] or [tt["else"]]
                        if none_t[0] != some_t[0]:
                            delim_sw.append((nb, none_t[0]))
        rep.floor("C20-R3", "branch on the fence-delimiter test", len(delim_sw), 1)
        pushes = []
        for b, t in calls_matching(R, r"alloc::string::String::(push_str|push|insert_str|extend)$|<alloc::string::String as core::ops::arith::AddAssign"):
            if buf in sl.locals_feeding(t["args"][0]):
                pushes.append((b, t))
        rep.floor("C20-R3", "appends to the outside-fence buffer", len(pushes), 1)
        for b, t in pushes:
            okf = any(edge_dominates(R, sw, nt, b) for sw, nt, _ in fence_sw)
            okd = any(edge_dominates(R, sw, nt, b) for sw, nt in delim_sw)
            rep.check(okf and okd, "C20-R3", "%s:buffer-append-only-outside-fence" % name,
                      "a line is appended to the include-expansion buffer (line %d) on a path where a fence is active or being opened (no-fence edge dominates: %s, no-delimiter edge dominates: %s)" % (t["l"], okf, okd),
                      "%s:%d" % (R.file, t["l"]))
        # fenced lines copied verbatim: on the Some branch, before the loop continues, only `result.push_str(line)`; the
        # expander is not called on that branch
        for sw, nt, st_ in fence_sw:
            # stay inside the loop iteration: do not continue through the loop header (the iterator's next())
            headers = {hb for hb, ht in calls_matching(R, r"Iterator>::next$") if R.dominates(hb, sw)}
            reach = R.reachable_from([st_], avoid={sw} | headers)
            bad = [t["l"] for b, t, cal in cyc_calls if b in reach and not any(edge_dominates(R, sw2, nt2, b) for sw2, nt2, _ in fence_sw)]
            rep.check(not bad, "C20-R3", "%s:no-expansion-inside-fence" % name,
                      "the include expander is called on the active-fence path (lines %s)" % bad, where)

    # R4 relative resolution, in every function on the cycle that joins paths
    cycle_fns = {cal for _, _, cal in cyc_calls} | {name}
    njoin = 0
    for fn in sorted(cycle_fns):
        b = cg.bodies[fn]
        s2 = Slice(b)
        for blk, t in calls_matching(b, r"std::path::Path::join$"):
            njoin += 1
            roots = s2.roots(t["args"][0])
            parents = [r for r in roots if r[0] == "call" and r[1].endswith("Path::parent")]
            cwd = [r for r in roots if r[0] == "call" and re.search(r"current_dir|env::|home_dir|temp_dir", r[1])]
            ok = bool(parents) and not cwd
            detail = None
            if ok:
                # parent()'s receiver must derive from a Path parameter of this function
                pr = set()
                for pb, pt in calls_matching(b, r"Path::parent$"):
                    pr |= s2.roots(pt["args"][0])
                ok = any(r[0] == "arg" and "Path" in b.locals[r[1]] for r in pr) and not any(r[0] == "call" and re.search(r"current_dir|env::", r[1]) for r in pr)
                detail = sorted(map(str, pr))
            rep.check(ok, "C20-R4", "%s:join-base-is-parent-of-current-file" % fn,
                      "include path (line %d) is not resolved against the parent of the including file's path (roots: %s)" % (t["l"], sorted(map(str, roots))[:6]),
                      "%s:%d" % (b.file, t["l"]), detail, sample={"join_line": t["l"], "base_roots": sorted(map(str, parents))})
    rep.floor("C20-R4", "Path::join in the include expander", njoin, 1)
    # and the guarded function passes *its own* canonical path (the insert key) as that parameter
    for b, t, cal in T_calls:
        tb = cg.bodies[cal]
        path_params = [i for i in range(1, tb.nargs + 1) if "Path" in tb.locals[i] and "HashSet" not in tb.locals[i]]
        for ib, it in inserts:
            key_locals = sl.locals_feeding(it["args"][1]) & set(varlocals)
            for p in path_params:
                arg = t["args"][p - 1]
                rep.check(bool(sl.locals_feeding(arg) & key_locals), "C20-R4", "%s:passes-own-canonical-path" % name,
                          "the path handed to the token expander (line %d) is not the canonical path of the file being expanded" % t["l"], "%s:%d" % (R.file, t["l"]))
    # the canonical path itself derives from the function's path parameter
    for ib, it in inserts:
        r = sl.roots(it["args"][1])
        rep.check(any(x[0] == "call" and x[1].endswith("canonicalize") for x in r), "C20-R4",
                  "%s:active-key-is-canonical-path" % name, "the active-set key does not derive from canonicalize(path): two spellings of one file (`a.mec`, `sub/../a.mec`, a symlink) are different keys, so a cycle through them is not detected (roots: %s)" % sorted(map(str, r))[:4], where)

    # R5 who may call
    callers = set()
    for f, b in cg.bodies.items():
        if f == name or f.startswith(name + "::"):
            continue
        for blk, t in b.calls():
            if (t.get("f") or t["tf"]) in cycle_fns:
                callers.add((f, t.get("f") or t["tf"]))
    outside = [c for c in callers if c[0] not in cycle_fns]
    for f, callee in sorted(outside):
        b = cg.bodies[f]
        s3 = Slice(b)
        # an outside caller must enter through the guarded function with a fresh set
        ok = callee == name
        if ok:
            for blk, t in b.calls():
                if (t.get("f") or t["tf"]) == name:
                    for a in set_args:
                        rr = s3.roots(t["args"][a - 1])
                        ok = ok and any(x[0] == "call" and x[1].endswith("HashSet::<T, std::hash::random::RandomState>::new") or x[0] == "call" and "HashSet" in x[1] and x[1].endswith("::new") for x in rr)
        rep.check(ok, "C20-R5", "entry:%s" % f, "%s enters the include expander through %s without a fresh active set / not through the guarded function" % (f, callee), b.where())
    rep.floor("C20-R5", "outside callers of the include expander", len(outside), 1)

    # R6: fallible path operations (canonicalize, File::open, read_to_string) are `?`-propagated
    for fn in sorted(cycle_fns):
        b = cg.bodies[fn]
        for blk, t in calls_matching(b, r"Path::canonicalize$|fs::File::open$|Read>::read_to_string$|fs::read_to_string$"):
            # result must flow into Try::branch (possibly via map_err) whose Break edge reaches an Err exit
            d = t["d"][0]
            flows = False
            cur = {d}
            for _ in range(4):
                nxt = set()
                for b2, t2 in b.calls():
                    if any(isinstance(a, list) and a[0] in cur for a in t2["args"]):
                        c2 = t2.get("f") or t2["tf"]
                        if c2.endswith("Try>::branch"):
                            flows = True
                        elif c2.endswith("map_err") or c2.endswith("::ok_or") or c2.endswith("map"):
                            nxt.add(t2["d"][0])
                if flows or not nxt:
                    break
                cur = nxt
            rep.check(flows, "C20-R6", "%s:%s-propagated" % (fn, (t.get("f") or t["tf"]).split("::")[-1]),
                      "the result of %s (line %d) is not propagated with `?`: a missing include would not fail the load" % (t.get("f") or t["tf"], t["l"]),
                      "%s:%d" % (b.file, t["l"]))
    run_r7(F, rep, rep.tier)
    run_r8(F, rep)
    run_r9(F, rep)


def run_r7(F, rep, tier="quick"):
    """C20-R7: a line closes a code fence iff it uses the opening marker and is at least as long as the opening run (decided over a finite table)"""
    from lib.facts import find, walk, is_node, path_of, render
    from lib.minieval import ev, NoEval
    rep.rule("C20-R7", "is_code_fence_close(line, marker, min_len): over all (line marker, opening marker, run length, opening length) the early `return false` guards reject exactly "
                       "the lines with another marker or a SHORTER run - a longer run still closes (CommonMark), so text after a fence is never mistaken for fenced text or vice versa")
    fns = [it for c in ("mech.lib", "mech.bin") for it in F.syn(c) if it["k"] == "fn" and it["name"] == "is_code_fence_close"]
    if not rep.check(len(fns) >= 1, "C20-R7", "anchor:is_code_fence_close", "is_code_fence_close not found"):
        return
    it = fns[0]
    params = [p[0][1] for p in it["sig"]["inputs"] if is_node(p[0]) and p[0][0] == "pident"]
    bound = None
    for st in it["body"]:
        if st[0] == "let" and st[2] is not None and any(path_of(c[1]) and path_of(c[1]).endswith("code_fence_delimiter") for c in find(st[2], "call")):
            ids = [p[1] for p in find(st[1], "pident")]
            if len(ids) == 3:
                bound = ids
    if not rep.check(len(params) == 3 and bound is not None, "C20-R7", "anchor:shape", "is_code_fence_close no longer has the (line, marker, min_len) / let Some((marker, count, after)) shape: %s %s" % (params, bound)):
        return
    guards = []
    for st in it["body"]:
        if st[0] == "expr" and is_node(st[1]) and st[1][0] == "if":
            n = st[1]
            rets = [x for s2 in n[2] for x in walk(s2) if x[0] == "ret"]
            if rets and render(rets[0][1]) == "false":
                guards.append(n[1])
    rep.floor("C20-R7", "early-return guards in is_code_fence_close", len(guards), 1)
    wrong = []
    n = 0
    try:
        for lm in ("`", "~"):
            for om in ("`", "~"):
                for cnt in ((3, 4, 5) if tier != "thorough" else range(3, 12)):
                    for ml in ((3, 4, 5) if tier != "thorough" else range(3, 12)):
                        env = {bound[0]: lm, bound[1]: cnt, bound[2]: 0, params[1]: om, params[2]: ml}
                        rejected = any(bool(ev(g, env)) for g in guards)
                        expect_reject = (lm != om) or (cnt < ml)
                        n += 1
                        if rejected != expect_reject:
                            wrong.append("line %s x%d against opening %s x%d is %s" % (lm, cnt, om, ml, "rejected" if rejected else "accepted"))
    except NoEval as ex:
        rep.note("C20-R7-undecided", "guard not interpretable: %s" % ex)
        return
    rep.check(not wrong, "C20-R7", "fence-close-table" if not wrong else "fence-close-table:%d-of-%d-wrong" % (len(wrong), n),
              "is_code_fence_close decides %d of %d (marker, length) combinations wrongly, e.g. %s: a fence closes early or never, so include tokens inside code are expanded or tokens after the fence are left alone" % (len(wrong), n, "; ".join(wrong[:3])),
              "is_code_fence_close (src/mechfs.rs)", sample={"combinations": n, "guards": [render(g) for g in guards]})


def run_r8(F, rep):
    """C20-R8: the token expander examines every line of the chunk it is given"""
    from lib.facts import find, walk, is_node, path_of, render
    rep.rule("C20-R8", "expand_mechdown_include_tokens examines every line: its only Ok exit follows the loop over all lines of the chunk and returns the accumulator that loop fills "
                       "(no early `return Ok(..)` before the loop, no Ok return or break inside it - a pre-filter that passes a chunk through unexamined leaves include lines unexpanded "
                       "and cycles / missing targets behind them undetected); the stand-alone-line test is standalone_braced_content on each line")
    fns = [it for c in ("mech.lib", "mech.bin") for it in F.syn(c) if it["k"] == "fn" and it["name"] == "expand_mechdown_include_tokens"]
    if not rep.check(len(fns) >= 1, "C20-R8", "anchor:expand_mechdown_include_tokens", "expand_mechdown_include_tokens not found"):
        return
    it = fns[0]
    body = it["body"]
    params = [p[0][1] for p in it["sig"]["inputs"] if is_node(p[0]) and p[0][0] == "pident"]
    src = params[0] if params else "source"
    loops = [(i, st[1]) for i, st in enumerate(body) if st[0] == "expr" and is_node(st[1]) and st[1][0] == "for"
             and any(n[0] == "path" and n[1] == src for n in walk(st[1][2])) and re.search(r"split_inclusive|lines|split\(", render(st[1][2]))]
    if not rep.check(len(loops) == 1, "C20-R8", "anchor:line-loop", "expected one top-level loop over the lines of `%s`, found %d" % (src, len(loops))):
        return
    li, loop = loops[0]

    def ok_returns(node):
        out = []
        for n in walk(node):
            if n[0] == "ret" and n[1] is not None and re.match(r"^Ok\(", render(n[1])):
                out.append(render(n[1])[:50])
        return out
    early = [r for st in body[:li] for r in ok_returns(st)]
    rep.check(not early, "C20-R8", "no-ok-exit-before-line-loop" if not early else "ok-exit-before-line-loop:%s" % re.sub(r"\W+", "-", early[0])[:40],
              "expand_mechdown_include_tokens returns %s before looking at the lines of the chunk: include lines the shortcut's test does not recognise (the per-line test trims the line first, so "
              "an indented `  {b.mec}` is an include) stay literal text, and a cycle or a missing file behind them is accepted" % early, "expand_mechdown_include_tokens (mech)")
    inside = ok_returns(loop[3]) + ["break" for n in walk(loop[3]) if n[0] == "break"]
    rep.check(not inside, "C20-R8", "line-loop-runs-to-the-end" if not inside else "line-loop-left-early:%s" % re.sub(r"\W+", "-", inside[0])[:30],
              "the line loop of expand_mechdown_include_tokens can be left by %s before the last line: later include lines are not expanded" % inside, "expand_mechdown_include_tokens (mech)")
    acc = {render(m[1]) for m in find(loop[3], "mcall") if m[2] in ("push_str", "push", "extend")}
    tail = body[-1]
    tail_e = tail[1] if tail[0] == "expr" else None
    ret_ok = is_node(tail_e) and tail_e[0] == "call" and path_of(tail_e[1]) == "Ok" and tail_e[2] and render(tail_e[2][0]) in acc
    rep.check(bool(ret_ok), "C20-R8", "returns-the-accumulator", "the final value of expand_mechdown_include_tokens is `%s`, not the buffer the line loop fills (%s)" % (
        render(tail_e)[:40] if tail_e is not None else "?", sorted(acc)), "expand_mechdown_include_tokens (mech)")
    per_line = [c for c in find(loop[3], "call") if (path_of(c[1]) or "").endswith("standalone_braced_content")]
    rep.check(len(per_line) == 1, "C20-R8", "per-line-test:standalone_braced_content", "the line loop does not apply standalone_braced_content to each line (%d calls)" % len(per_line),
              "expand_mechdown_include_tokens (mech)")


def run_r9(F, rep):
    """C20-R9: fence typestate of the include expander"""
    from lib.facts import find, walk, is_node, path_of, render, render_pat
    rep.rule("C20-R9", "fence typestate: in expand_mechdown_includes_recursive every line that opens a fence sets the fence state unconditionally (the assignment sits at the top level of the "
                       "`if let Some(..) = code_fence_delimiter(line)` branch, not under the flush of the pending text), the state is cleared only under is_code_fence_close, and both "
                       "branches end in `continue` - an opener that is not recorded has its fenced include lines expanded and its closing line read as an opener")
    fns = [it for c in ("mech.lib", "mech.bin") for it in F.syn(c) if it["k"] == "fn" and it["name"] == "expand_mechdown_includes_recursive"]
    if not rep.check(len(fns) >= 1, "C20-R9", "anchor:expand_mechdown_includes_recursive", "expand_mechdown_includes_recursive not found"):
        return
    it = fns[0]
    loops = [f for f in find(it["body"], "for") if re.search(r"split_inclusive|lines\(", render(f[2]))]
    if not rep.check(len(loops) == 1, "C20-R9", "anchor:line-loop", "the line loop was not found (%d)" % len(loops)):
        return
    body = loops[0][3]
    opener = closer = None
    for st in body:
        e = st[1] if st[0] == "expr" else None
        if is_node(e) and e[0] == "if" and is_node(e[1]) and e[1][0] == "letc":
            if any((path_of(c[1]) or "").endswith("code_fence_delimiter") for c in find(e[1][2], "call")):
                opener = e
            elif is_node(e[1][2]) and e[1][2][0] == "path":
                closer = (e, e[1][2][1])
    if not rep.check(opener is not None and closer is not None, "C20-R9", "anchor:fence-branches", "the fenced-line branch and the opener branch were not both found at the top level of the line loop"):
        return
    state = closer[1]
    top_sets = [s_ for s_ in opener[2] if s_[0] == "expr" and is_node(s_[1]) and s_[1][0] == "assign" and render(s_[1][1]) == state and render(s_[1][2]).startswith("Some(")]
    nested_sets = [a for a in find(opener[2], "assign") if render(a[1]) == state and render(a[2]).startswith("Some(")]
    ok = len(top_sets) == 1 and len(nested_sets) == 1
    rep.check(ok, "C20-R9", "opener-sets-state-unconditionally" if ok else "opener-state-%s" % ("conditional" if nested_sets else "never-set"),
              "a line that opens a fence records `%s = Some(..)` %s: a fence that opens with no pending outside text (first line of a file, two fences back to back) is not entered" % (
                  state, "only under another condition" if nested_sets else "nowhere"), "expand_mechdown_includes_recursive (mech)")
    ends = lambda stmts: bool(stmts) and stmts[-1][0] == "expr" and is_node(stmts[-1][1]) and stmts[-1][1][0] == "continue"
    rep.check(ends(opener[2]) and ends(closer[0][2]), "C20-R9", "fence-branches-continue", "a fence branch falls through to the outside-text handling", "expand_mechdown_includes_recursive (mech)")
    clears = [a for a in find(closer[0][2], "assign") if render(a[1]) == state and render(a[2]) == "None"]
    guarded = False
    for x in find(closer[0][2], "if"):
        if any((path_of(c[1]) or "").endswith("is_code_fence_close") for c in find(x[1], "call")) and any(a in list(find(x[2], "assign")) for a in clears):
            guarded = True
    rep.check(len(clears) == 1 and guarded, "C20-R9", "state-cleared-only-on-close", "the fence state is cleared %d time(s) / not under is_code_fence_close" % len(clears), "expand_mechdown_includes_recursive (mech)")
    other = [a for a in find(it["body"], "assign") if render(a[1]) == state and a not in nested_sets and a not in clears]
    rep.check(not other, "C20-R9", "no-other-state-writes", "the fence state is also written at %s" % [render(a)[:40] for a in other], "expand_mechdown_includes_recursive (mech)")
