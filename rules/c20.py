"""C20 — source includes: cycle detection, pairing, fence immunity, relative resolution."""
import re
from lib.facts import CallGraph
from lib.mirq import Slice, calls_matching, edge_dominates, result_exits
from lib.mirfwd import (bool_switches, callee_of, cycle_members, blocks_between, derives_from_call, edges_dominate, empty_edges, forwarded_sites, helper_frames, ip_roots, result_checked, result_edges)

TECHNIQUE = ("MIR CFG path rules (dominance, must-pass-through pairing, edge dominance) + operand provenance + who-may-call on the include expander; "
             "must-pass-through of provenance-classified appends between the recursive call and the loop head (C20-R12, field-sensitive value leaves: lib/mirfwd.value_leaves); "
             "roles by type / callee / recursion cycle, calls followed through private helpers and closures with parameters bound to arguments (lib/mirfwd.py); "
             "finite table: the two fence scanners (closed line predicates) evaluated from their expanded syntax over a generated table of lines "
             "against the fence definition (lib/rsinterp.py, rules/c20_tables.py)")
EXPLANATION = (
    "Decides the structural clauses of C20 on the MIR of the include expander in crate `mech`: the cycle test "
    "dominates the active-set insertion and every recursive call and its true-branch returns Err; every path from the "
    "insertion to an Ok return passes the removal of the same key; the token expander only ever receives the "
    "outside-fence buffer, which is appended to only on the no-fence path; includes are resolved against the parent of "
    "the including file's canonical path; recursion happens only through the guarded function; a missing target exits with Err. "
    "Not decided: the exact spliced text and fence-length corner cases (string values)."
    ' (R7) is_code_fence_close rejects exactly the lines with another marker or a SHORTER run than the opening fence, decided over the finite (marker, length) table.'
    ' (R4, tightened) the active-set key derives from canonicalize(path) (two spellings of one file must be one key).'
    ' (R8) the token expander examines every line of its chunk: no Ok exit before or inside the line loop, the result is the accumulator the loop fills, and the per-line test is standalone_braced_content.'
    ' (R9) fence typestate: a line that opens a fence sets the fence state unconditionally, the state is cleared only under is_code_fence_close, both fence branches end in `continue`, and nothing else writes the state.'
    ' Shape independence: the guarded function is the function on a recursion cycle that inserts into its HashSet<PathBuf> parameter (itself or through a helper); the token expander is the function on '
    'that cycle that calls it back; the membership test is `contains` or an `insert` whose bool result is branched on (either polarity spelling) or a gate helper whose Err edge is the present edge; '
    'helpers between the two (flush helpers, closures) are looked through with parameters bound to arguments; R8 and R9 are decided on the CFG (cfg:* obligations), their syntactic forms are kept '
    'for the spelling they recognise and recorded as undecided otherwise.'
    ' (R10) the two fence scanners, found by role on the MIR (opener test = the local fn whose Option<(char,usize,usize)> the line loop branches on; close test = the local bool fn asked about '
    'the fence state), are INTERPRETED from their expanded source (lib/rsinterp.py: a model of &str with byte offsets / &[u8] / char / Option / iterator adaptors / closures; nothing is compiled or '
    'run) on a generated table of ~1160 lines (indentation 0-5 or tab x marker x run 1-6 x what follows the run; close test x opening marker x opening length) and must agree with the fence '
    'definition (at most three spaces, at least three identical ` or ~; closes iff same marker, run at least as long, only blanks behind the run): what is decided is the decision of each scanner '
    'on every table row - an offset, bound or character set that is wrong at some indentation / length shows as a wrong row - not the behaviour on lines outside the table.'
    ' (R12, rules/c20_splice.py) exact splice as a path property of the token expander\'s MIR: every append to the returned accumulator inside the line loop is classified by the provenance of what it '
    'appends (result of the recursive call / the terminator selected between a newline constant and "" by a newline test on the current line, or the tail of the line / the whole current line / the line body), '
    'and it is decided that after the recursive call every path back to the loop head or the Ok exit passes an append of the call\'s result and behind it one of the line\'s own terminator and none of the line itself, '
    'that every iteration without a recursive call passes an append of the whole line (or body and terminator), each once, a skip under an emptiness test of the skipped text being accepted; decided is which '
    'values reach the accumulator on which paths, not the resulting text itself (string contents, CRLF handling and the order inside a single format string are not).'
)

HS = r"std::collections::hash::set::HashSet::<T, S, A>::"


def is_set_param(body, i):
    return "HashSet<std::path::PathBuf" in body.locals[i]


def run(F, rep, tier):
    crate = "mech.lib"
    bodies = F.bodies(crate)
    rep.analysed = {"crate": crate, "bodies": len(bodies)}
    cg = CallGraph(F, [crate])
    rep.rule("C20-R1", "cycle test (contains on the active set, or an insert whose bool result is branched on, or a gate helper doing either) dominates insert and every recursive call; its key-present branch returns Err without inserting")
    rep.rule("C20-R2", "every path from the active-set insertion to an Ok return passes a removal of the same key")
    rep.rule("C20-R3", "token expander is only fed the outside-fence buffer; that buffer is appended to only when no fence is active and the line opens no fence; fenced lines are copied verbatim")
    rep.rule("C20-R4", "include path = parent(canonical path of the including file).join(include text); never the process cwd")
    rep.rule("C20-R5", "the include expander is entered only through the guarded recursive function (who-may-call)")
    rep.rule("C20-R6", "a target that cannot be canonicalised/opened exits with Err (the error edge is propagated)")

    # ---- anchors by role: the guarded function = inserts into a HashSet<PathBuf> parameter
    guarded = []
    for b in bodies:
        if not set_ops(b, "insert"):
            continue
        if len(cycle_members(cg, b.fn)) > 1 or any(callee_of(t) == b.fn for _, t in b.calls()):
            if b not in guarded:
                guarded.append(b)
            continue
        # the insertion was extracted into a helper (`enter(active_set, &path)?`): the guarded function is the caller on the
        # recursion cycle that hands its own set parameter to the helper
        for c in bodies:
            if c is not b and c not in guarded and any(callee_of(t) == b.fn for _, t in c.calls()) and helper_set_sites(cg, c, "insert") \
                    and (len(cycle_members(cg, c.fn)) > 1 or any(callee_of(t) == c.fn for _, t in c.calls())):
                guarded.append(c)
    rep.floor("C20-R1", "guarded include expander (inserts into a HashSet<PathBuf> parameter)", len(guarded), 1)
    if not guarded:
        return
    for R in guarded:
        check_guarded(F, rep, R, cg, bodies)


PUSH_RX = re.compile(r"alloc::string::String::(push_str|push|insert_str|extend)$|<alloc::string::String as core::ops::arith::AddAssign")
TEXT_TYPES = ("&str", "&alloc::string::String", "&mut alloc::string::String", "alloc::string::String")
FRESH_SET = re.compile(r"::(new|default|with_capacity|with_hasher|with_capacity_and_hasher)$")
CWD = re.compile(r"current_dir|env::|home_dir|temp_dir")
FALLIBLE_PATH_OPS = re.compile(r"Path::canonicalize$|fs::File::open$|Read>::read_to_string$|fs::read_to_string$")


def last(fn):
    return fn.split("::")[-1]


def appends_to_param(cg, fn, p, depth=2):
    """does local function `fn` append to the String it receives as parameter p (directly or by handing it on)?"""
    b = cg.bodies.get(fn)
    if b is None:
        return False
    s = Slice(b)
    for _, t in calls_matching(b, PUSH_RX):
        if ("arg", p) in s.roots(t["args"][0]):
            return True
    if depth > 0:
        for _, t in b.calls():
            cal = callee_of(t)
            if cal in cg.bodies and cal != fn:
                cb = cg.bodies[cal]
                for k, a in enumerate(t["args"]):
                    if k + 1 <= cb.nargs and cb.locals[k + 1] == "&mut alloc::string::String" and ("arg", p) in s.roots(a) \
                            and appends_to_param(cg, cal, k + 1, depth - 1):
                        return True
    return False


def string_appends(cg, R, sl, buf):
    """(block, terminator) in R of every append to String local `buf`: push_str/push/.. on it, or a call that hands `&mut buf`
    to a local function which appends to that parameter"""
    out = []
    for b, t in calls_matching(R, PUSH_RX):
        if buf in sl.locals_feeding(t["args"][0]):
            out.append((b, t))
    for b, t in R.calls():
        cal = callee_of(t)
        if cal in cg.bodies:
            cb = cg.bodies[cal]
            for k, a in enumerate(t["args"]):
                if k + 1 <= cb.nargs and cb.locals[k + 1] == "&mut alloc::string::String" and isinstance(a, list) \
                        and buf in sl.locals_feeding(a) and appends_to_param(cg, cal, k + 1):
                    out.append((b, t))
    return out


def set_ops(body, op):
    """(block, call) of HashSet::<op> applied to a HashSet<PathBuf> PARAMETER of `body`"""
    sl = Slice(body)
    out = []
    for blk, t in calls_matching(body, HS + op + "$"):
        if any(r[0] == "arg" and is_set_param(body, r[1]) for r in sl.roots(t["args"][0])):
            out.append((blk, t))
    return out


def helper_set_sites(cg, R, op):
    """calls in R of a local helper that applies HashSet::<op> to the set R hands it (R's own set parameter), as pseudo call
    terminators {"args": [set operand, key operand], "d", "t", "l", "_helper", "_kind"} so that they can stand where a direct
    `set.<op>(key)` stands.  _kind (insert): 'gate' = the helper itself tests membership and returns Err when the key is present,
    'bool' = it returns the bool of HashSet::insert unchanged, 'plain' otherwise.  A helper that removes only on some paths is no remove."""
    sl = Slice(R)
    out = []
    for blk, t in R.calls():
        cal = callee_of(t)
        G = cg.bodies.get(cal)
        if G is None or cal == R.fn:
            continue
        ops = set_ops(G, op)
        if not ops:
            continue
        gs = Slice(G)
        for gb, gt in ops:
            sp = [r[1] for r in gs.roots(gt["args"][0]) if r[0] == "arg" and is_set_param(G, r[1])]
            kp = [r[1] for r in gs.roots(gt["args"][1]) if r[0] == "arg"]
            if not sp or sp[0] - 1 >= len(t["args"]):
                continue
            set_op = t["args"][sp[0] - 1]
            if not any(r[0] == "arg" and is_set_param(R, r[1]) for r in sl.roots(set_op)):
                continue
            key_op = t["args"][kp[0] - 1] if kp and kp[0] - 1 < len(t["args"]) else {"c": "?"}
            kind = "plain"
            if op == "insert":
                ok_exits, err_exits = result_exits(G)
                rr = gs.roots([0, ""])
                if G.locals[0] == "bool" and rr and all(r[0] == "call" and r[1].endswith("::insert") for r in rr):
                    kind = "bool"
                elif ok_exits and err_exits:
                    # gate: a membership test whose present branch only errs, and every Ok exit lies behind the insertion
                    tests = [(tt, ft) for cb, ct in set_ops(G, "contains") for _, tt, ft in bool_switches(G, ct)]
                    tests += [(ft, tt) for _, tt, ft in bool_switches(G, gt)]
                    gated = any(not (G.reachable_from([pres], avoid={absent}) & ok_exits) and (G.reachable_from([pres], avoid={absent}) & err_exits)
                                for pres, absent in tests)
                    if gated and all(any(G.dominates(ib, e) for ib, _ in ops) for e in ok_exits):
                        kind = "gate"
            elif op == "remove":
                if not all(G.dominates(gb, r) for r in G.ret_blocks()):
                    continue
            pseudo = {"k": "call", "args": [set_op, key_op], "d": t["d"], "l": t["l"], "_helper": cal, "_kind": kind, "_term": t}
            if "t" in t:
                pseudo["t"] = t["t"]
            out.append((blk, pseudo))
            break
    return out


def check_guarded(F, rep, R, cg, bodies):
    sl = Slice(R)
    name = R.fn
    where = R.where()
    set_args = [i for i in range(1, R.nargs + 1) if is_set_param(R, i)]

    def on_set(t):
        return any(("arg", a) in sl.roots(t["args"][0]) for a in set_args)

    contains = [(b, t) for b, t in calls_matching(R, HS + "contains$") if on_set(t)]
    inserts = [(b, t) for b, t in calls_matching(R, HS + "insert$") if on_set(t)] + helper_set_sites(cg, R, "insert")
    removes = [(b, t) for b, t in calls_matching(R, HS + "remove$") if on_set(t)] + helper_set_sites(cg, R, "remove")
    ok_exits, err_exits = result_exits(R)

    # who is on the recursion cycle: the strongly connected component of R in the call graph.  `reentry` = the members that call
    # R back (the token expander), `via` = members that only hand the work on (helpers a refactoring put between R and the expander)
    cycle_fns = cycle_members(cg, name)
    reentry = {f for f in cycle_fns if f != name and any(callee_of(t) == name for _, t in cg.bodies[f].calls())}
    via = cycle_fns - {name} - reentry
    cyc_calls = [(b, t, callee_of(t)) for b, t in R.calls() if callee_of(t) in cycle_fns]
    rep.floor("C20-R1", "recursive call sites in %s" % name, len(cyc_calls), 1)
    rec_sites = forwarded_sites(cg, R, reentry | {name}, via)
    T_sites = [s for s in rec_sites if s.callee != name]

    def label(b, cal):
        """name a recursion site by the function that re-enters R (stable when a helper is put in between)"""
        if cal == name or cal in reentry:
            return last(cal)
        return "+".join(sorted({last(s.callee) for s in rec_sites if s.blk == b})) or "indirect"

    # R1.  The membership test is `contains` on the active set, or an `insert` whose bool result is branched on
    # (`if !set.insert(k) { return Err }`: insert returning false IS the membership test and leaves the set unchanged).
    tests = []      # (block, term, switch_block, target when the key IS present, target when it is absent)
    for cb, ct in contains:
        sws = bool_switches(R, ct)
        if not rep.check(bool(sws), "C20-R1", "%s:cycle-test-branches" % name, "result of the membership test is not branched on", where):
            continue
        tests += [(cb, ct, swb, tt, ft) for swb, tt, ft in sws]
    for ib, it in inserts:
        if it.get("_kind") == "gate":
            # `enter(set, &key)?`: the helper errs when the key is present, so the Err edge of its result is the "present" edge
            sws = [(swb, okt, errt) for swb, okt, errt in result_edges(R, it["_term"])]      # (switch, "true" = absent, "false" = present)
        elif it.get("_kind") == "plain":
            sws = []
        else:
            sws = bool_switches(R, it)
        if sws:
            rep.check(True, "C20-R1", "%s:cycle-test-branches" % name, "", where)
            tests += [(ib, it, swb, ft, tt) for swb, tt, ft in sws]
    rep.check(len(tests) >= 1, "C20-R1", "%s:cycle-test-present" % name, "no membership test on the active set before recursing", where)
    for cb, ct, swb, present, absent in tests:
        # present branch: must reach only Err exits, never an insertion or a recursive call
        reach_present = R.reachable_from([present], avoid={absent})
        rep.check(not (reach_present & ok_exits) and bool(reach_present & err_exits), "C20-R1", "%s:cycle-test-true-branch-errs" % name,
                  "when the file is already active the function can still return Ok / does not return Err", where,
                  sample={"test_block": cb, "present_target": present, "err_exit_blocks": sorted(reach_present & err_exits)})
        rep.check(not any(b in reach_present for b, _ in inserts if b != cb), "C20-R1", "%s:cycle-test-true-branch-no-insert" % name,
                  "the already-active branch reaches the insertion", where)
        for ib, it in inserts:
            rep.check(ib == cb or (R.dominates(cb, ib) and edge_dominates(R, swb, absent, ib)), "C20-R1", "%s:test-dominates-insert" % name,
                      "active-set insertion (line %d) is not dominated by the failed-membership edge of the cycle test" % it["l"], "%s:%d" % (R.file, it["l"]))
        for b, t, cal in cyc_calls:
            rep.check(R.dominates(cb, b) and edge_dominates(R, swb, absent, b), "C20-R1", "%s:test-dominates-recursion:%s" % (name, label(b, cal)),
                      "recursive call to %s (line %d) is not dominated by the cycle test" % (cal, t["l"]), "%s:%d" % (R.file, t["l"]))
    # insertion must precede (dominate) every recursive call, otherwise the callee cannot see this file as active
    rep.check(len(inserts) >= 1, "C20-R1", "%s:insert-present" % name, "the current file is never marked active", where)
    for b, t, cal in cyc_calls:
        rep.check(any(R.dominates(ib, b) for ib, _ in inserts), "C20-R1", "%s:insert-dominates-recursion:%s" % (name, label(b, cal)),
                  "recursive call to %s (line %d) can run before the current file is marked active" % (cal, t["l"]), "%s:%d" % (R.file, t["l"]))

    # R2 pairing: insert -> Ok exit must pass remove(same key)
    for ib, it in inserts:
        key_locals = sl.locals_feeding(it["args"][1])
        good_removes = set()
        for rb, rt in removes:
            if sl.locals_feeding(rt["args"][1]) & key_locals & set(v[0] for v in R.vars.values()):
                good_removes.add(rb)
        start = [it["t"]] if "t" in it else []
        reach = R.reachable_from(start, avoid=good_removes)
        leak = sorted(reach & ok_exits)
        rep.check(not leak, "C20-R2", "%s:insert-remove-pairing" % name,
                  "a path from the active-set insertion (line %d) reaches an Ok return (blocks %s) without removing the same key: a second include of the file would be reported as circular" % (it["l"], leak),
                  "%s:%d" % (R.file, it["l"]), sample={"insert_block": ib, "remove_blocks": sorted(good_removes), "ok_exit_blocks": sorted(ok_exits)})
    rep.floor("C20-R2", "Ok exits of %s" % name, len(ok_exits), 1)

    # R3 fence immunity.  The text the token expander receives = its text-typed parameter(s), followed back through any
    # forwarding helper to the operands of R.
    varlocals = {v[0]: k for k, v in R.vars.items() if v[1] == ""}
    buf_locals = set()
    opaque_sites = [s for s in T_sites if s.opaque]
    if opaque_sites:
        rep.note("undecided", "C20-R3/R4: %d call(s) of the token expander go through a closure; the argument provenance clauses are not decided for them" % len(opaque_sites))
    for s in T_sites:
        if s.opaque:
            continue
        tb = cg.bodies[s.callee]
        text_params = [i for i in range(1, tb.nargs + 1) if tb.locals[i] in TEXT_TYPES] or [1]
        srcs = set()
        for p in text_params:
            for op in s.flows[p - 1].ops:
                srcs |= sl.locals_feeding(op) & set(varlocals)
        strs = {l for l in srcs if R.locals[l] == "alloc::string::String"}
        if any(s.flows[p - 1].captured for p in text_params):
            # the text is a capture of a closure: all String captures are candidates, the single-source clause is not decided
            rep.note("undecided", "C20-R3: the text handed to the token expander (line %d) is captured by a closure; candidates %d" % (s.term["l"], len(strs)))
            if len(strs) != 1:
                continue
        rep.check(len(strs) == 1, "C20-R3", "%s:expander-input-single-buffer" % name,
                  "text handed to the token expander (line %d) does not come from exactly one String buffer: %d sources" % (s.term["l"], len(strs)),
                  "%s:%d" % (R.file, s.term["l"]))
        buf_locals |= strs
    inlined_expander = not T_sites and any(cal == name for _, _, cal in cyc_calls)
    if opaque_sites and not buf_locals:
        pass
    elif inlined_expander:
        # the token expander's line loop lives in R itself (R calls itself): the buffer clauses are not decided on that shape
        rep.note("undecided", "C20-R3: %s recurses directly (token expander inlined); the outside-fence buffer clauses are not decided on this shape" % name)
    else:
        rep.check(len(buf_locals) == 1, "C20-R3", "%s:one-outside-buffer" % name, "expander calls read different buffers", where)
    # fence state: an Option<(char,usize)> variable
    fence = [l for l, n in varlocals.items() if R.locals[l].startswith("core::option::Option<(char")]
    rep.floor("C20-R3", "fence-state variable in %s" % name, len(fence), 1)
    mir9 = None
    close_names = []
    opener_fns, close_fns = [], []
    if fence:
        fl = fence[0]
        # switch on discriminant of fence var: find blocks computing discr(fence) then switch
        fence_sw = []
        for i, blk in enumerate(R.blocks):
            t = blk["t"]
            if t["k"] == "switch" and isinstance(t["on"], list):
                for s in blk["s"]:
                    if s.get("rk") == "discr" and s["src"][0][0] == fl and s["d"][0] == t["on"][0]:
                        none_t = [tg for v, tg in t["targets"] if v == 0] or [t["else"]]
                        some_t = [tg for v, tg in t["targets"] if v == 1] or [t["else"]]
                        if none_t[0] != some_t[0]:
                            fence_sw.append((i, none_t[0], some_t[0]))
        rep.floor("C20-R3", "branch on the fence state", len(fence_sw), 1)
        # the delimiter test: call whose result is Option<(char,usize,usize)> matched
        delim = [(b, t) for b, t in R.calls() if R.locals[t["d"][0]].startswith("core::option::Option<(char,usize,usize)")]
        delim_sw = []
        for b, t in delim:
            for nb, blk in enumerate(R.blocks):
                tt = blk["t"]
                if tt["k"] == "switch" and isinstance(tt["on"], list):
                    for s in blk["s"]:
                        if s.get("rk") == "discr" and s["src"][0][0] == t["d"][0] and s["d"][0] == tt["on"][0]:
                            none_t = [tg for v, tg in tt["targets"] if v == 0] or [tt["else"]]
                            some_t = [tg for v, tg in tt["targets"] if v == 1] or [tt["else"]]
                            if none_t[0] != some_t[0]:
                                delim_sw.append((nb, none_t[0], some_t[0]))
        rep.floor("C20-R3", "branch on the fence-delimiter test", len(delim_sw), 1)
        # loop header(s) of the line loop: the iterator's next() that dominates the fence branch
        headers = {hb for hb, ht in calls_matching(R, r"Iterator>::next$") if any(R.dominates(hb, sw) for sw, _, _ in fence_sw)}
        pushes = []
        if len(buf_locals) == 1:
            buf = next(iter(buf_locals))
            pushes = string_appends(cg, R, sl, buf)
            rep.floor("C20-R3", "appends to the outside-fence buffer", len(pushes), 1)
            for b, t in pushes:
                okf = any(edge_dominates(R, sw, nt, b) for sw, nt, _ in fence_sw)
                okd = any(edge_dominates(R, sw, nt, b) for sw, nt, _ in delim_sw)
                rep.check(okf and okd, "C20-R3", "%s:buffer-append-only-outside-fence" % name,
                          "a line is appended to the include-expansion buffer (line %d) on a path where a fence is active or being opened (no-fence edge dominates: %s, no-delimiter edge dominates: %s)" % (t["l"], okf, okd),
                          "%s:%d" % (R.file, t["l"]))
        # fenced lines copied verbatim: on the Some branch, before the loop continues, only `result.push_str(line)`; the
        # expander is not called on that branch
        for sw, nt, st_ in fence_sw:
            # stay inside the loop iteration: do not continue through the loop header (the iterator's next())
            hd = {hb for hb in headers if R.dominates(hb, sw)}
            reach = R.reachable_from([st_], avoid={sw} | hd)
            bad = [t["l"] for b, t, cal in cyc_calls if b in reach and not any(edge_dominates(R, sw2, nt2, b) for sw2, nt2, _ in fence_sw)]
            rep.check(not bad, "C20-R3", "%s:no-expansion-inside-fence" % name,
                      "the include expander is called on the active-fence path (lines %s)" % bad, where)
        mir9 = {"fl": fl, "fence_sw": fence_sw, "delim_sw": delim_sw, "headers": headers, "pushes": pushes}
        # the close test = the local bool function that is asked about the payload of the fence state
        close_names = sorted({last(callee_of(t)) for _, t in R.calls() if callee_of(t) in cg.bodies and R.locals[t["d"][0]] == "bool"
                              and any(isinstance(a, list) and fl in sl.locals_feeding(a) for a in t["args"])})
        # the fence scanners by role (C20-R10): the opener test = the local function whose Option<(char,usize,usize)> the line loop
        # branches on, the close test = the local bool function asked about the payload of the fence state
        close_fns = sorted({callee_of(t) for _, t in R.calls() if callee_of(t) in cg.bodies and R.locals[t["d"][0]] == "bool"
                            and any(isinstance(a, list) and fl in sl.locals_feeding(a) for a in t["args"])})
        opener_fns = sorted({callee_of(t) for _, t in delim if callee_of(t) in cg.bodies})

    # R4 relative resolution: every Path::join in a function on the cycle, or in a helper (one or two levels) such a function calls.
    # Provenance is evaluated across the helper's frame (parameters bound to the arguments of the call).
    njoin = 0
    for fn in sorted(cycle_fns):
        X = cg.bodies[fn]
        for fr in helper_frames(cg, X, stop=cycle_fns, depth=2):
            jb = fr[-1][0]
            for blk, t in calls_matching(jb, r"std::path::Path::join$"):
                njoin += 1
                roots = ip_roots(fr, t["args"][0])
                parents = [r for r in roots if r[0] == "call" and r[1].endswith("Path::parent")]
                cwd = [r for r in roots if r[0] == "call" and CWD.search(r[1])]
                ok = bool(parents) and not cwd
                detail = None
                if ok:
                    # parent()'s receiver must derive from a Path parameter of the function on the cycle
                    pr = set()
                    for r in parents:
                        pt = fr[r[3]][0].blocks[r[2]]["t"]
                        pr |= ip_roots(fr, pt["args"][0], r[3])
                    ok = any(r[0] == "arg" and r[-1] == 0 and "Path" in X.locals[r[1]] for r in pr) and not any(r[0] == "call" and CWD.search(r[1]) for r in pr)
                    if not ok and X is R and not any(r[0] == "call" and CWD.search(r[1]) for r in pr):
                        # token expander inlined into the guarded function: the base is the parent of R's own canonical path (the insert key)
                        keyl = set()
                        for _, it in inserts:
                            keyl |= sl.locals_feeding(it["args"][1]) & set(varlocals)
                        ok = any(r[3] == 0 and (sl.locals_feeding(R.blocks[r[2]]["t"]["args"][0]) & keyl) for r in parents)
                    detail = sorted(str(r[:-1]) for r in pr)
                rep.check(ok, "C20-R4", "%s:join-base-is-parent-of-current-file" % fn,
                          "include path (line %d) is not resolved against the parent of the including file's path (roots: %s)" % (t["l"], sorted(str(r[:-1]) for r in roots)[:6]),
                          "%s:%d" % (jb.file, t["l"]), detail, sample={"join_line": t["l"], "base_roots": sorted(str(r[:-1]) for r in parents)})
    rep.floor("C20-R4", "Path::join in the include expander", njoin, 1)
    # and the guarded function passes *its own* canonical path (the insert key) as that parameter
    for s in T_sites:
        if s.opaque:
            continue
        tb = cg.bodies[s.callee]
        path_params = [i for i in range(1, tb.nargs + 1) if "Path" in tb.locals[i] and "HashSet" not in tb.locals[i]]
        for ib, it in inserts:
            key_locals = sl.locals_feeding(it["args"][1]) & set(varlocals)
            for p in path_params:
                feeding = set()
                for op in s.flows[p - 1].ops:
                    feeding |= sl.locals_feeding(op)
                rep.check(bool(feeding & key_locals), "C20-R4", "%s:passes-own-canonical-path" % name,
                          "the path handed to the token expander (line %d) is not the canonical path of the file being expanded" % s.term["l"], "%s:%d" % (R.file, s.term["l"]))
    # the canonical path itself derives from the function's path parameter
    for ib, it in inserts:
        r = sl.roots(it["args"][1])
        rep.check(derives_from_call(cg, R, it["args"][1], re.compile(r"canonicalize$")), "C20-R4",
                  "%s:active-key-is-canonical-path" % name, "the active-set key does not derive from canonicalize(path): two spellings of one file (`a.mec`, `sub/../a.mec`, a symlink) are different keys, so a cycle through them is not detected (roots: %s)" % sorted(map(str, r))[:4], where)

    # R5 who may call
    def fresh(rr):
        return any(x[0] == "call" and "HashSet" in x[1] and FRESH_SET.search(x[1]) for x in rr)

    def entries(fn, param, depth=3, seen=()):
        """who supplies the active set that outside function `fn` hands on as its parameter `param`:
        list of (supplier function, fresh?) - a wrapper that passes on its own parameter is looked through"""
        sites = [(gb, t2) for g, gb in cg.bodies.items() if g not in cycle_fns for _, t2 in gb.calls() if callee_of(t2) == fn]
        if not sites or depth == 0 or fn in seen:
            return [(fn, False)]
        out = []
        for gb, t2 in sites:
            rr = Slice(gb).roots(t2["args"][param - 1])
            ps = [x[1] for x in rr if x[0] == "arg"]
            if fresh(rr) and not ps:
                out.append((gb.fn, True))
            elif ps and not fresh(rr):
                for p in ps:
                    out += entries(gb.fn, p, depth - 1, seen + (fn,))
            else:
                out.append((gb.fn, False))
        return out

    callers = set()
    for f, b in cg.bodies.items():
        if f == name or f.startswith(name + "::"):
            continue
        for blk, t in b.calls():
            if callee_of(t) in cycle_fns:
                callers.add((f, callee_of(t)))
    outside = [c for c in callers if c[0] not in cycle_fns]
    verdicts = {}
    for f, callee in sorted(outside):
        b = cg.bodies[f]
        s3 = Slice(b)
        # an outside caller must enter through the guarded function with a fresh set; a wrapper that hands on its own
        # set parameter is looked through: the obligation is on whoever creates the set
        if callee != name:
            verdicts.setdefault(f, []).append((False, callee, b))
            continue
        for blk, t in b.calls():
            if callee_of(t) == name:
                for a in set_args:
                    rr = s3.roots(t["args"][a - 1])
                    ps = [x[1] for x in rr if x[0] == "arg"]
                    if ps and not fresh(rr):
                        for p in ps:
                            for g, okg in entries(f, p):
                                verdicts.setdefault(g, []).append((okg, callee, cg.bodies[g]))
                    else:
                        verdicts.setdefault(f, []).append((fresh(rr) and not ps, callee, b))
    for f in sorted(verdicts):
        ok = all(v[0] for v in verdicts[f])
        callee, b = verdicts[f][0][1], verdicts[f][0][2]
        rep.check(ok, "C20-R5", "entry:%s" % f, "%s enters the include expander through %s without a fresh active set / not through the guarded function" % (f, callee), b.where())
    rep.floor("C20-R5", "outside callers of the include expander", len(outside), 1)

    # R6: fallible path operations (canonicalize, File::open, read_to_string) are propagated: `?` (possibly after map_err), or an
    # explicit match / let-else whose failure edge returns Err.  Operations moved into a helper are followed: the helper must
    # propagate (or return) the result and the call of the helper must be propagated in turn.
    for fn in sorted(cycle_fns):
        X = cg.bodies[fn]
        for fr in helper_frames(cg, X, stop=cycle_fns, depth=2):
            b = fr[-1][0]
            for blk, t in calls_matching(b, FALLIBLE_PATH_OPS):
                idx = len(fr) - 1
                term = t
                flows = True
                while True:
                    how = result_checked(fr[idx][0], term)
                    if idx == 0:
                        flows = how in ("try", "match")
                        break
                    if how not in ("try", "match", "return"):
                        flows = False
                        break
                    term = fr[idx][1]
                    idx -= 1
                rep.check(flows, "C20-R6", "%s:%s-propagated" % (fn, callee_of(t).split("::")[-1]),
                          "the result of %s (line %d) is not propagated with `?`: a missing include would not fail the load" % (callee_of(t), t["l"]),
                          "%s:%d" % (b.file, t["l"]))
        # .. and operations inside a closure of X that is chained onto a Result (`File::open(p).and_then(|mut f| f.read_to_string(..))`):
        # the closure must return / propagate the result and the combinator's result must be propagated in X
        for cname, cb in sorted(cg.bodies.items()):
            if not cname.startswith(fn + "::{closure"):
                continue
            for blk, t in calls_matching(cb, FALLIBLE_PATH_OPS):
                flows = result_checked(cb, t) in ("return", "try", "match")
                if flows:
                    cl = [s_["d"][0] for _, s_ in X.stmts() if s_.get("closure") == cname]
                    users = [t2 for _, t2 in X.calls() if any(isinstance(a, list) and a[0] in cl for a in t2["args"][1:])]
                    flows = bool(users) and all(re.search(r"::(and_then|or_else)$", callee_of(t2)) and result_checked(X, t2) in ("try", "match") for t2 in users)
                rep.check(flows, "C20-R6", "%s:%s-propagated" % (fn, callee_of(t).split("::")[-1]),
                          "the result of %s (line %d, in a closure) is not propagated with `?`: a missing include would not fail the load" % (callee_of(t), t["l"]),
                          "%s:%d" % (cb.file, t["l"]))
    run_r7(F, rep, rep.tier, close_names)
    run_r8(F, rep, cg, sorted(reentry), inlined_expander, name)
    run_r9(F, rep, R, mir9, cg)
    from rules.c20_splice import run_splice
    if inlined_expander and not reentry:
        rep.note("undecided", "C20-R12: the token expander is inlined into the guarded function (direct recursion); the splice clauses are not decided on this shape")
    for tname in sorted(reentry):
        run_splice(rep, cg, tname, name, cycle_fns)
    from rules.c20_splice import run_result_sites
    run_result_sites(rep, cg, cycle_fns, name)
    from rules.c20_tables import run_tables
    run_tables(F, rep, R, cg, opener_fns, close_fns, sorted(f for f in verdicts if all(v[0] for v in verdicts[f])))


def run_r7(F, rep, tier="quick", close_tests=()):
    """C20-R7: a line closes a code fence iff it uses the opening marker and is at least as long as the opening run (decided over a finite table)"""
    from lib.facts import find, walk, is_node, path_of, render, render_pat
    from lib.minieval import ev, NoEval
    rep.rule("C20-R7", "is_code_fence_close(line, marker, min_len): over all (line marker, opening marker, run length, opening length) the early `return false` guards reject exactly "
                       "the lines with another marker or a SHORTER run - a longer run still closes (CommonMark), so text after a fence is never mistaken for fenced text or vice versa")
    names = list(close_tests) or ["is_code_fence_close"]
    fns = [it for c in ("mech.lib", "mech.bin") for it in F.syn(c) if it["k"] == "fn" and it["name"] in names]
    if not rep.check(len(fns) >= 1, "C20-R7", "anchor:is_code_fence_close", "is_code_fence_close not found"):
        return
    it = fns[0]
    params = [p[0][1] for p in it["sig"]["inputs"] if is_node(p[0]) and p[0][0] == "pident"]
    # The function is INTERPRETED over the finite table: a three-valued result per (line marker, run, opening marker, opening run):
    #   False = the line is rejected whatever follows the run, True = accepted, REST = depends on the rest of the line (a string
    # value outside the table).  Anything the interpreter cannot follow that involves a table variable raises Undecided: the table
    # is then NOT evaluated (note, no verdict) - a construct is never skipped silently.
    def strip(e):
        while is_node(e) and e[0] in ("paren", "ref"):
            e = e[1] if e[0] == "paren" else e[2]
        return e

    def some3(pat):
        """names bound by `Some((a, b, c))` (None for `_`), else None"""
        if is_node(pat) and pat[0] == "pts" and pat[1].split("::")[-1] == "Some" and len(pat[2]) == 1 and is_node(pat[2][0]) and pat[2][0][0] == "ptuple" and len(pat[2][0][1]) == 3:
            names = []
            for x in pat[2][0][1]:
                if is_node(x) and x[0] == "pident" and not x[4]:
                    names.append(x[1])
                elif is_node(x) and x[0] == "pwild":
                    names.append(None)
                else:
                    return None
            return names
        return None
    simple_lets = {st[1][1]: st[2] for st in find(it["body"], "let") if len(st) > 2 and st[2] is not None and is_node(st[1]) and st[1][0] == "pident"}

    def is_delim(e, depth=0):
        e = strip(e)
        if is_node(e) and e[0] == "call" and (path_of(e[1]) or "").endswith("code_fence_delimiter"):
            return True
        return is_node(e) and e[0] == "path" and e[1] in simple_lets and depth < 3 and is_delim(simple_lets[e[1]], depth + 1)
    pats = [(st[1], st[2]) for st in find(it["body"], "let") if len(st) > 2 and st[2] is not None]
    pats += [(lc[1], lc[2]) for lc in find(it["body"], "letc")]
    pats += [(arm[0], m[1]) for m in find(it["body"], "match") for arm in m[2]]
    bounds = [some3(pat) for pat, init in pats if is_node(init) and is_delim(init) and some3(pat)]
    bound = bounds[-1] if bounds else None
    if not rep.check(len(params) == 3 and bound is not None, "C20-R7", "anchor:shape", "is_code_fence_close no longer has the (line, marker, min_len) / let Some((marker, count, after)) shape: %s %s" % (params, bound)):
        return
    TABLE = {params[1], params[2]} | {b[0] for b in bounds if b[0]} | {b[1] for b in bounds if b[1]}
    REST = "rest"

    class Undecided(Exception):
        pass

    def mentions_table(e, seen=()):
        for n in walk(e):
            if n[0] == "path":
                if n[1] in TABLE:
                    return True
                if n[1] in simple_lets and n[1] not in seen and mentions_table(simple_lets[n[1]], seen + (n[1],)):
                    return True
        return False

    class Env(dict):
        # named locals for sub-expressions (`let same_marker = line_marker == marker;`) are evaluated on demand
        def __contains__(self, k):
            return dict.__contains__(self, k) or k in simple_lets

        def __getitem__(self, k):
            if not dict.__contains__(self, k):
                self[k] = ev(simple_lets[k], self)
            return dict.__getitem__(self, k)
    used = set()

    def join(a, b):
        return a if a == b else REST

    def cond(e, env):
        e = strip(e)
        if not is_node(e):
            raise Undecided(str(e)[:30])
        if e[0] == "bool":
            return bool(e[1])
        if e[0] == "un" and e[1] == "!":
            v = cond(e[2], env)
            return REST if v == REST else (not v)
        if e[0] == "bin" and e[1] in ("&&", "||"):
            a = cond(e[2], env)
            if e[1] == "&&":
                if a is False:
                    return False
                b = cond(e[3], env)
                return False if b is False else (True if (a is True and b is True) else REST)
            if a is True:
                return True
            b = cond(e[3], env)
            return True if b is True else (False if (a is False and b is False) else REST)
        if e[0] == "block":
            return result(e[1], env)
        try:
            v = ev(e, Env(env))
        except NoEval:
            if mentions_table(e):
                raise Undecided(render(e)[:60])
            return REST          # about the rest of the line only
        if not isinstance(v, bool):
            raise Undecided(render(e)[:60])
        if mentions_table(e):
            used.add(render(e))
        return v

    def stmts_of(e):
        if e is None:
            return []
        if is_node(e) and e[0] == "block":
            return list(e[1])
        return [["expr", e, False]]

    def bind(names, env, vals):
        env2 = dict(env)
        for nme, v in zip(names, vals):
            if nme:
                env2[nme] = v
        return env2

    def result(stmts, env, depth=0):
        """value the function returns when `stmts` are the remaining statements in tail position"""
        if depth > 40:
            raise Undecided("nesting")
        stmts = [st for st in stmts if is_node(st) and st[0] in ("let", "expr")]
        if not stmts:
            raise Undecided("control reaches the end of a block without a value")
        st, rest = stmts[0], stmts[1:]
        if st[0] == "let":
            els = st[3] if len(st) > 3 else None
            if st[2] is not None and is_delim(st[2]) and some3(st[1]):
                # the table models a line that IS a fence delimiter: the pattern matches
                return result(rest, bind(some3(st[1]), env, (env["$lm"], env["$cnt"], 0)), depth + 1)
            if els is not None:
                if st[2] is not None and mentions_table(st[2]):
                    raise Undecided("let-else on %s" % render(st[2])[:40])
                return join(result(stmts_of(els), env, depth + 1), result(rest, env, depth + 1))
            return result(rest, env, depth + 1)
        e = strip(st[1])
        if not is_node(e):
            raise Undecided("statement")
        if e[0] == "ret":
            return cond(e[1], env) if e[1] is not None else None
        if e[0] == "block":
            return result(list(e[1]) + rest, env, depth + 1)
        if e[0] == "if":
            c = e[1]
            if is_node(c) and c[0] == "letc":
                if is_delim(c[2]) and some3(c[1]):
                    return result(list(e[2]) + rest, bind(some3(c[1]), env, (env["$lm"], env["$cnt"], 0)), depth + 1)
                if mentions_table(c[2]):
                    raise Undecided("if let on %s" % render(c[2])[:40])
                cv = REST
            else:
                cv = cond(c, env)
            a = (lambda: result(list(e[2]) + rest, env, depth + 1))
            b = (lambda: result(stmts_of(e[3]) + rest, env, depth + 1))
            return a() if cv is True else b() if cv is False else join(a(), b())
        if e[0] == "match":
            if is_delim(e[1]):
                pending = []
                for arm in e[2]:
                    names = some3(arm[0])
                    pat = arm[0]
                    if names:
                        env2 = bind(names, env, (env["$lm"], env["$cnt"], 0))
                        g = cond(arm[1], env2) if arm[1] is not None else True
                        if g is False:
                            continue
                        v = result(stmts_of(arm[2]) + rest, env2, depth + 1)
                        if g is True:
                            pending.append(v)
                            break
                        pending.append(v)
                    elif is_node(pat) and (pat[0] == "pwild" or (pat[0] == "pident" and pat[1] != "None" and not pat[4])):
                        g = cond(arm[1], env) if arm[1] is not None else True
                        if g is False:
                            continue
                        pending.append(result(stmts_of(arm[2]) + rest, env, depth + 1))
                        if g is True:
                            break
                    elif is_node(pat) and ((pat[0] == "pident" and pat[1] == "None") or (pat[0] == "ppath" and pat[1].split("::")[-1] == "None")):
                        continue
                    else:
                        raise Undecided("match arm %s" % render_pat(pat)[:40])
                if not pending:
                    raise Undecided("no arm of the match on the delimiter applies")
                out = pending[0]
                for v in pending[1:]:
                    out = join(out, v)
                return out
            if mentions_table(e[1]):
                raise Undecided("match on %s" % render(e[1])[:40])
            vals = [result(stmts_of(arm[2]) + rest, env, depth + 1) for arm in e[2]]
            out = vals[0]
            for v in vals[1:]:
                out = join(out, v)
            return out
        if not rest:
            return cond(e, env)
        return result(rest, env, depth + 1)          # an expression statement (side effect only)
    wrong = []
    n = 0
    try:
        for lm in ("`", "~"):
            for om in ("`", "~"):
                for cnt in ((3, 4, 5) if tier != "thorough" else range(3, 12)):
                    for ml in ((3, 4, 5) if tier != "thorough" else range(3, 12)):
                        env = {"$lm": lm, "$cnt": cnt, params[1]: om, params[2]: ml}
                        rejected = result(it["body"], env) is False
                        expect_reject = (lm != om) or (cnt < ml)
                        n += 1
                        if rejected != expect_reject:
                            wrong.append("line %s x%d against opening %s x%d is %s" % (lm, cnt, om, ml, "rejected" if rejected else "accepted"))
    except (Undecided, NoEval, RecursionError) as ex:
        rep.note("undecided", "C20-R7: is_code_fence_close is not interpretable over the (marker, length) table (%s); the table is not evaluated" % ex)
        return
    guards = sorted(used)
    rep.floor("C20-R7", "early-return guards in is_code_fence_close", len(guards), 1)
    rep.check(not wrong, "C20-R7", "fence-close-table" if not wrong else "fence-close-table:%d-of-%d-wrong" % (len(wrong), n),
              "is_code_fence_close decides %d of %d (marker, length) combinations wrongly, e.g. %s: a fence closes early or never, so include tokens inside code are expanded or tokens after the fence are left alone" % (len(wrong), n, "; ".join(wrong[:3])),
              "is_code_fence_close (src/mechfs.rs)", sample={"combinations": n, "guards": guards})


LINE_SPLIT = re.compile(r"split_inclusive$|::lines$|::split$|::split_terminator$|::chars$")


def option_switches(body, local):
    """(switch_block, none_target, some_target) of every branch on the discriminant of Option-typed `local`"""
    out = []
    for i, blk in enumerate(body.blocks):
        t = blk["t"]
        if t["k"] == "switch" and isinstance(t["on"], list):
            for s in blk["s"]:
                if s.get("rk") == "discr" and s["src"][0][0] == local and s["src"][0][1] == "" and s["d"][0] == t["on"][0]:
                    none_t = [tg for v, tg in t["targets"] if v == 0] or [t["else"]]
                    some_t = [tg for v, tg in t["targets"] if v == 1] or [t["else"]]
                    if none_t[0] != some_t[0]:
                        out.append((i, none_t[0], some_t[0]))
    return out


EMPTY_TEXT = re.compile(r"alloc::string::String::(new|with_capacity)$|Default>::default$|String as core::default::Default")


def run_r8_cfg(rep, cg, tname, gname=None):
    """C20-R8 on the MIR of the token expander (any spelling of the loop body / the exits).
    Returns None when the line loop was not found, else the verdict per clause {"exit", "acc", "perline"} (perline None = not identified)."""
    tb = cg.bodies.get(tname)
    if tb is None:
        return None
    sl = Slice(tb, extra_pass=LINE_SPLIT)
    text_params = [i for i in range(1, tb.nargs + 1) if tb.locals[i] in TEXT_TYPES]
    loops = []
    for hb, ht in calls_matching(tb, r"Iterator>::next$"):
        if any(("arg", p) in sl.roots(ht["args"][0]) for p in text_params):
            for sw in option_switches(tb, ht["d"][0]):
                loops.append((hb, ht) + sw)
    if len(loops) != 1:
        return None
    hb, ht, hsw, none_t, some_t = loops[0]
    where = "%s (mech)" % last(tname)
    ok_exits, err_exits = result_exits(tb)
    rep.floor("C20-R8", "Ok exits of the token expander", len(ok_exits), 1)
    plain = Slice(tb)
    # An Ok exit must lie behind the None edge of the line iterator (all lines seen).  The one other legitimate exit is the
    # zero-iteration case taken early: every path to it crosses the None edge or an edge taken exactly when the text IS EMPTY
    # (`text.is_empty()`, `text.len() == 0`), the returned String derives from nothing but a fresh empty String / the (empty)
    # text itself, and nothing is appended to it on the way.  A shortcut under any other condition skips lines.
    e_edges = empty_edges(tb, set(text_params))
    early = []
    for b in sorted(ok_exits):
        if edge_dominates(tb, hsw, none_t, b):
            continue
        good = bool(e_edges) and edges_dominate(tb, [(hsw, none_t)] + e_edges, b)
        if good:
            payload = [o for s in tb.blocks[b]["s"] if s["d"][0] == 0 and s.get("rk") == "agg" for o in s["src"]]
            pl = set()
            for o in payload:
                good = good and all((r[0] == "call" and EMPTY_TEXT.search(r[1])) or (r[0] == "arg" and r[1] in text_params)
                                    or (r[0] == "const" and str(r[1]).strip() in ('""', "")) for r in plain.roots(o))
                pl |= {l for l in plain.locals_feeding(o) if tb.locals[l] == "alloc::string::String"}
            on_way = blocks_between(tb, b, [(hsw, none_t)])
            good = good and not any(pb in on_way and (plain.locals_feeding(pt["args"][0]) & pl) for pb, pt in calls_matching(tb, PUSH_RX))
        if not good:
            early.append(b)
    rep.check(not early, "C20-R8", "cfg:ok-exit-only-after-the-last-line",
              "%s can return Ok (line %s) without the line loop having run to the end of the chunk: include lines behind the exit stay literal text and a cycle or a missing "
              "file behind them is accepted" % (last(tname), [tb.blocks[b]["s"][-1]["l"] if tb.blocks[b]["s"] else tb.blocks[b]["t"].get("l") for b in early]), where)
    in_loop = lambda b: edge_dominates(tb, hsw, some_t, b)
    pushed = set()
    for b, t in calls_matching(tb, PUSH_RX):
        if in_loop(b):
            pushed |= {l for l in Slice(tb).locals_feeding(t["args"][0]) if tb.locals[l] == "alloc::string::String"}
    returned = set()
    for b in ok_exits:
        for s in tb.blocks[b]["s"]:
            if s["d"][0] == 0 and s.get("rk") == "agg":
                for o in s["src"]:
                    returned |= {l for l in Slice(tb).locals_feeding(o) if tb.locals[l] == "alloc::string::String"}
    rep.check(bool(pushed & returned), "C20-R8", "cfg:returns-the-accumulator",
              "the Ok value of %s is not the String the line loop appends to" % last(tname), where)
    per_line = 0
    for fr in helper_frames(cg, tb, stop={tname}, depth=2):
        b0 = fr[-1][0]
        for b, t in b0.calls():
            if callee_of(t).endswith("standalone_braced_content"):
                top_blk = b if len(fr) == 1 else [i for i, t0 in tb.calls() if t0 is fr[1][1]][0]
                if in_loop(top_blk):
                    per_line += 1
    verdict = {"exit": not early, "acc": bool(pushed & returned), "perline": None}
    if per_line == 0 and not any(f.endswith("::standalone_braced_content") for f in cg.bodies):
        # the stand-alone-line test is no longer a function (inlined).  Its clause in name-free form: every iteration accounts for
        # its line - on every path from "next() returned a line" back to the loop header the line is either copied to the
        # accumulator (an append whose argument derives from the loop item) or handed to the guarded function (the include branch)
        item = ht["d"][0]
        handled = {b for b, t in calls_matching(tb, PUSH_RX) if len(t["args"]) > 1 and isinstance(t["args"][1], list)
                   and item in plain.locals_feeding(t["args"][1]) and (plain.locals_feeding(t["args"][0]) & (pushed & returned))}
        handled |= {b for b, t in tb.calls() if gname and callee_of(t) == gname}
        if handled and gname:
            skipped = hb in tb.reachable_from([some_t], avoid=handled)
            verdict["perline"] = not skipped
            rep.check(not skipped, "C20-R8", "cfg:per-line-test",
                      "an iteration of the line loop of %s can end without the line having been copied to the result or expanded" % last(tname), where)
        else:
            rep.note("undecided", "C20-R8: no function standalone_braced_content in the crate any more (inlined?); the per-line test is not identified")
    else:
        verdict["perline"] = per_line >= 1
        rep.check(per_line >= 1, "C20-R8", "cfg:per-line-test",
                  "the line loop of %s does not apply standalone_braced_content to each line" % last(tname), where)
    return verdict


def run_r8(F, rep, cg=None, expanders=(), inlined=False, gname=None):
    """C20-R8: the token expander examines every line of the chunk it is given"""
    from lib.facts import find, walk, is_node, path_of, render
    rep.rule("C20-R8", "expand_mechdown_include_tokens examines every line: its only Ok exit follows the loop over all lines of the chunk and returns the accumulator that loop fills "
                       "(no early `return Ok(..)` before the loop, no Ok return or break inside it - a pre-filter that passes a chunk through unexamined leaves include lines unexpanded "
                       "and cycles / missing targets behind them undetected); the stand-alone-line test is standalone_braced_content on each line")
    # the token expander = the function on the recursion cycle that calls the guarded function back (role, not spelling)
    if inlined and not expanders:
        rep.note("undecided", "C20-R8: the token expander is inlined into the guarded function (direct recursion); its line-loop clauses are not decided on this shape")
        return
    cv = None
    for tname in expanders:
        v = run_r8_cfg(rep, cg, tname, gname)
        cv = cv or v
    cfg_ok = cv is not None

    def carried(key, clause, msg):
        """the syntactic form does not recognise this spelling; the clause itself was decided on the CFG: the verdict carries over
        (a CFG violation is already reported under its cfg: key)"""
        rep.note("undecided", "C20-R8 (syntactic form) %s: %s - decided on the CFG instead" % (key, msg))
        if cv.get(clause) is True:
            rep.ok("C20-R8", key)
    names = [last(f) for f in expanders] or ["expand_mechdown_include_tokens"]
    fns = [it for c in ("mech.lib", "mech.bin") for it in F.syn(c) if it["k"] == "fn" and it["name"] in names]

    def shape(cond, key, msg):
        """a syntactic anchor: when the CFG form of the rule has decided the clause, an unrecognised spelling is not an alarm"""
        if cond:
            rep.ok("C20-R8", key)
        elif cfg_ok:
            # the loop was found on the CFG: the clauses the syntactic form would have checked carry their CFG verdict
            rep.note("undecided", "C20-R8 (syntactic form) %s: %s - decided on the CFG instead" % (key, msg))
            rep.ok("C20-R8", key)
            for k2, clause in (("no-ok-exit-before-line-loop", "exit"), ("line-loop-runs-to-the-end", "exit"), ("returns-the-accumulator", "acc"),
                               ("per-line-test:standalone_braced_content", "perline")):
                if cv.get(clause) is True:
                    rep.ok("C20-R8", k2)
        else:
            rep.bad("C20-R8", key, msg)
        return cond
    if not shape(len(fns) >= 1, "anchor:%s" % names[0], "%s not found" % names[0]):
        return
    it = fns[0]
    body = it["body"]
    params = [p[0][1] for p in it["sig"]["inputs"] if is_node(p[0]) and p[0][0] == "pident"]
    src = params[0] if params else "source"
    loops = [(i, st[1]) for i, st in enumerate(body) if st[0] == "expr" and is_node(st[1]) and st[1][0] == "for"
             and any(n[0] == "path" and n[1] == src for n in walk(st[1][2])) and re.search(r"split_inclusive|lines|split\(", render(st[1][2]))]
    if not shape(len(loops) == 1, "anchor:line-loop", "expected one top-level loop over the lines of `%s`, found %d" % (src, len(loops))):
        return
    li, loop = loops[0]

    def ok_returns(node):
        out = []
        for n in walk(node):
            if n[0] == "ret" and n[1] is not None and re.match(r"^Ok\(", render(n[1])):
                out.append(render(n[1])[:50])
        return out
    # the zero-iteration case taken early is no shortcut: `if <text>.is_empty() { return Ok(<fresh empty String | the text>) }`
    def empty_input_exit(st):
        e = st[1] if st[0] == "expr" else None
        if not (is_node(e) and e[0] == "if" and e[3] is None):
            return False
        c = e[1]
        while is_node(c) and c[0] == "paren":
            c = c[1]
        is_src = lambda x: is_node(x) and render(x).lstrip("&*") == src
        emp = (is_node(c) and c[0] == "mcall" and c[2] == "is_empty" and is_src(c[1])) or \
              (is_node(c) and c[0] == "bin" and c[1] == "==" and render(c[3]) == "0" and is_node(c[2]) and c[2][0] == "mcall" and c[2][2] == "len" and is_src(c[2][1]))
        if not emp:
            return False
        fresh = {s2[1][1] for s2 in body[:body.index(st)] if s2[0] == "let" and is_node(s2[1]) and s2[1][0] == "pident" and s2[2] is not None
                 and re.match(r"^String::(new|with_capacity)\(", render(s2[2]))}
        touched = {render(m[1]).lstrip("&*") for s2 in body[:body.index(st)] + e[2] for m in find(s2, "mcall") if m[2] in ("push_str", "push", "extend", "insert_str")}
        for r_ in [n for n in walk(e[2]) if n[0] == "ret"]:
            v = r_[1]
            if not (is_node(v) and v[0] == "call" and path_of(v[1]) == "Ok" and len(v[2]) == 1):
                return False
            x = v[2][0]
            rx = render(x)
            okv = (rx in fresh and rx not in touched) or re.match(r"^String::new\(\)$", rx) or rx in ('"".to_string()', '"".to_owned()', 'String::from("")') or \
                  (is_node(x) and x[0] == "mcall" and x[2] in ("to_string", "to_owned", "into") and is_src(x[1]))
            if not okv:
                return False
        return True
    early = [r for st in body[:li] if not empty_input_exit(st) for r in ok_returns(st)]
    rep.check(not early, "C20-R8", "no-ok-exit-before-line-loop" if not early else "ok-exit-before-line-loop:%s" % re.sub(r"\W+", "-", early[0])[:40],
              "expand_mechdown_include_tokens returns %s before looking at the lines of the chunk: include lines the shortcut's test does not recognise (the per-line test trims the line first, so "
              "an indented `  {b.mec}` is an include) stay literal text, and a cycle or a missing file behind them is accepted" % early, "expand_mechdown_include_tokens (mech)")
    inside = ok_returns(loop[3]) + ["break" for n in walk(loop[3]) if n[0] == "break"]
    rep.check(not inside, "C20-R8", "line-loop-runs-to-the-end" if not inside else "line-loop-left-early:%s" % re.sub(r"\W+", "-", inside[0])[:30],
              "the line loop of expand_mechdown_include_tokens can be left by %s before the last line: later include lines are not expanded" % inside, "expand_mechdown_include_tokens (mech)")
    acc = {render(m[1]) for m in find(loop[3], "mcall") if m[2] in ("push_str", "push", "extend")}
    tail = body[-1]
    tail_e = tail[1] if tail[0] == "expr" else None
    ret_ok = is_node(tail_e) and tail_e[0] == "call" and path_of(tail_e[1]) == "Ok" and tail_e[2] and render(tail_e[2][0]) in acc
    if ret_ok or not cfg_ok:
        rep.check(bool(ret_ok), "C20-R8", "returns-the-accumulator", "the final value of expand_mechdown_include_tokens is `%s`, not the buffer the line loop fills (%s)" % (
            render(tail_e)[:40] if tail_e is not None else "?", sorted(acc)), "expand_mechdown_include_tokens (mech)")
    else:
        carried("returns-the-accumulator", "acc", "tail expression not of the form Ok(<accumulator>)")
    per_line = [c for c in find(loop[3], "call") if (path_of(c[1]) or "").endswith("standalone_braced_content")]
    if len(per_line) == 1 or not cfg_ok:
        rep.check(len(per_line) == 1, "C20-R8", "per-line-test:standalone_braced_content", "the line loop does not apply standalone_braced_content to each line (%d calls)" % len(per_line),
                  "expand_mechdown_include_tokens (mech)")
    else:
        carried("per-line-test:standalone_braced_content", "perline", "%d direct calls in the loop body" % len(per_line))


def run_r9_cfg(rep, cg, R, m):
    """C20-R9 on the MIR of the guarded function: the four typestate clauses as path properties of the line loop.
    Returns None when the loop, the fence-state branch or the opener branch was not found, else the verdict per clause."""
    if not m or not (m["fence_sw"] and m["delim_sw"] and m["headers"]):
        return None
    fl, fence_sw, delim_sw, headers, pushes = m["fl"], m["fence_sw"], m["delim_sw"], m["headers"], m["pushes"]
    sl = Slice(R)
    defs = R.defs()
    where = "%s (mech)" % last(R.fn)

    def agg_variant(s, depth=2):
        if s.get("k") == "call":
            return None
        if s.get("rk") == "agg" and s.get("adt", "").endswith("option::Option"):
            return s["var"]
        if s.get("rk") == "use" and depth and isinstance(s["src"][0], list) and s["src"][0][1] == "":
            ds = defs.get(s["src"][0][0], [])
            vs = {agg_variant(x[1], depth - 1) for x in ds}
            if len(vs) == 1:
                return vs.pop()
        return None
    sets, clears, other, handed = [], [], [], []
    for blk, s in defs.get(fl, []):
        v = agg_variant(s) if s["d"][1] == "" else None
        if v == "Some":
            sets.append(blk)
        elif v == "None":
            clears.append(blk)
        else:
            other.append((blk, s.get("l")))
    # writes through `&mut state`: Option::take = clear, Option::insert/replace = set, a local helper = not analysed
    for blk, s in R.stmts():
        if s.get("rk") == "ref" and s.get("mut") and s["src"][0][0] == fl:
            refl = s["d"][0]
            for cb, ct in R.calls():
                if any(isinstance(a, list) and refl in sl.locals_feeding(a) for a in ct["args"]):
                    c = callee_of(ct)
                    if re.search(r"Option::<T>::take$", c):
                        clears.append(cb)
                    elif re.search(r"Option::<T>::(insert|replace|get_or_insert)$", c):
                        sets.append(cb)
                    elif c in cg.bodies:
                        handed.append((cb, c))
                    else:
                        other.append((cb, ct.get("l")))
    if handed:
        rep.note("undecided", "C20-R9: the fence state is handed by `&mut` to %s; its writes are not analysed" % sorted({last(c) for _, c in handed}))
        return {}
    in_loop = lambda b: not all(R.dominates(b, h) for h in headers)
    sets = [b for b in sets if in_loop(b)]
    clears = [b for b in clears if in_loop(b)]
    other = [(b, l) for b, l in other if in_loop(b)]
    # (a) every path from "this line opens a fence" back to the loop header records the state
    leaks = []
    for dsw, d_none, d_some in delim_sw:
        reach = R.reachable_from([d_some], avoid=set(sets))
        if reach & headers:
            leaks.append(dsw)
    reachable_sets = [b for b in sets if any(b in R.reachable_from([d_some]) for _, _, d_some in delim_sw)]
    verdict = {"opener": not leaks}
    rep.check(not leaks, "C20-R9", "cfg:opener-sets-state-on-every-path",
              "a line that opens a fence can reach the next line %s: a fence that opens with no pending outside text (first line of a file, two fences back to back) is not entered" % (
                  "with the fence state set only on some paths" if reachable_sets else "without the fence state being set"), where)
    # (b) cleared at least once, and only on the fenced path under the close test (a bool call fed by the state's payload)
    close_true = []
    for cb, ct in R.calls():
        if R.locals[ct["d"][0]] == "bool" and any(isinstance(a, list) and fl in sl.locals_feeding(a) for a in ct["args"]):
            close_true += [(swb, tt) for swb, tt, ft in bool_switches(R, ct)]
    unguarded = [b for b in clears if not (any(edge_dominates(R, swb, tt, b) for swb, tt in close_true) and any(edge_dominates(R, sw, st_, b) for sw, _, st_ in fence_sw))]
    verdict["cleared"] = len(clears) >= 1 and not unguarded
    rep.check(len(clears) >= 1 and not unguarded, "C20-R9", "cfg:state-cleared-only-on-close",
              "the fence state is cleared %d time(s) in the line loop, %d of them not under the close test of the open fence" % (len(clears), len(unguarded)), where)
    # (c) a fenced line and an opening line end the iteration: neither reaches the outside-text handling, a fenced line is not tested as an opener
    fall = []
    push_blocks = {b for b, _ in pushes}
    for sw, _, st_ in fence_sw:
        reach = R.reachable_from([st_], avoid=headers)
        if reach & push_blocks or reach & {d for d, _, _ in delim_sw}:
            fall.append(sw)
    for dsw, _, d_some in delim_sw:
        if R.reachable_from([d_some], avoid=headers) & push_blocks:
            fall.append(dsw)
    verdict["continue"] = not fall
    rep.check(not fall, "C20-R9", "cfg:fence-branches-end-the-iteration", "a fence branch falls through to the outside-text handling", where)
    # (d) nothing else writes the state: Some only on the opener path, no writes of another form
    stray = [b for b in sets if not any(edge_dominates(R, dsw, d_some, b) for dsw, _, d_some in delim_sw)]
    verdict["writes"] = not other and not stray
    rep.check(not other and not stray, "C20-R9", "cfg:no-other-state-writes",
              "the fence state is also written at lines %s" % sorted({l for _, l in other} | {R.blocks[b]["t"].get("l") for b in stray}, key=str), where)
    return verdict


def run_r9(F, rep, R=None, mir9=None, cg=None):
    """C20-R9: fence typestate of the include expander"""
    from lib.facts import find, walk, is_node, path_of, render, render_pat
    rep.rule("C20-R9", "fence typestate: in expand_mechdown_includes_recursive every line that opens a fence sets the fence state unconditionally (the assignment sits at the top level of the "
                       "`if let Some(..) = code_fence_delimiter(line)` branch, not under the flush of the pending text), the state is cleared only under is_code_fence_close, and both "
                       "branches end in `continue` - an opener that is not recorded has its fenced include lines expanded and its closing line read as an opener")
    cv = run_r9_cfg(rep, cg, R, mir9) if R is not None else None
    cfg_ok = cv is not None
    gname = last(R.fn) if R is not None else "expand_mechdown_includes_recursive"
    order = ["anchor:%s" % gname, "anchor:line-loop", "anchor:fence-branches"]
    clauses = [("opener-sets-state-unconditionally", "opener"), ("fence-branches-continue", "continue"), ("state-cleared-only-on-close", "cleared"), ("no-other-state-writes", "writes")]

    def shape(cond, key, msg):
        if cond:
            rep.ok("C20-R9", key)
        elif cfg_ok:
            # this spelling is not the one the syntactic form reads; the loop and both fence branches were found on the CFG and the
            # four clauses decided there: their verdicts carry over (a CFG violation is already reported under its cfg: key)
            rep.note("undecided", "C20-R9 (syntactic form) %s: %s - decided on the CFG instead" % (key, msg))
            for k2 in order[order.index(key):]:
                rep.ok("C20-R9", k2)
            for k2, clause in clauses:
                if cv.get(clause) is True:
                    rep.ok("C20-R9", k2)
        else:
            rep.bad("C20-R9", key, msg)
        return cond
    fns = [it for c in ("mech.lib", "mech.bin") for it in F.syn(c) if it["k"] == "fn" and it["name"] == gname]
    if not shape(len(fns) >= 1, "anchor:%s" % gname, "%s not found" % gname):
        return
    it = fns[0]
    loops = [f for f in find(it["body"], "for") if re.search(r"split_inclusive|lines\(", render(f[2]))]
    if not shape(len(loops) == 1, "anchor:line-loop", "the line loop was not found (%d)" % len(loops)):
        return
    body = loops[0][3]
    opener = closer = None
    for st in body:
        e = st[1] if st[0] == "expr" else None
        if is_node(e) and e[0] == "if" and is_node(e[1]) and e[1][0] == "letc":
            if any((path_of(c[1]) or "").endswith("code_fence_delimiter") for c in find(e[1][2], "call")):
                opener = e
            elif is_node(e[1][2]) and e[1][2][0] == "path":
                closer = (e, e[1][2][1])
    if not shape(opener is not None and closer is not None, "anchor:fence-branches", "the fenced-line branch and the opener branch were not both found at the top level of the line loop"):
        return
    state = closer[1]
    top_sets = [s_ for s_ in opener[2] if s_[0] == "expr" and is_node(s_[1]) and s_[1][0] == "assign" and render(s_[1][1]) == state and render(s_[1][2]).startswith("Some(")]
    nested_sets = [a for a in find(opener[2], "assign") if render(a[1]) == state and render(a[2]).startswith("Some(")]
    ok = len(top_sets) == 1 and len(nested_sets) == 1
    rep.check(ok, "C20-R9", "opener-sets-state-unconditionally" if ok else "opener-state-%s" % ("conditional" if nested_sets else "never-set"),
              "a line that opens a fence records `%s = Some(..)` %s: a fence that opens with no pending outside text (first line of a file, two fences back to back) is not entered" % (
                  state, "only under another condition" if nested_sets else "nowhere"), "expand_mechdown_includes_recursive (mech)")
    ends = lambda stmts: bool(stmts) and stmts[-1][0] == "expr" and is_node(stmts[-1][1]) and stmts[-1][1][0] == "continue"
    rep.check(ends(opener[2]) and ends(closer[0][2]), "C20-R9", "fence-branches-continue", "a fence branch falls through to the outside-text handling", "expand_mechdown_includes_recursive (mech)")
    clears = [a for a in find(closer[0][2], "assign") if render(a[1]) == state and render(a[2]) == "None"]
    guarded = False
    for x in find(closer[0][2], "if"):
        if any((path_of(c[1]) or "").endswith("is_code_fence_close") for c in find(x[1], "call")) and any(a in list(find(x[2], "assign")) for a in clears):
            guarded = True
    rep.check(len(clears) == 1 and guarded, "C20-R9", "state-cleared-only-on-close", "the fence state is cleared %d time(s) / not under is_code_fence_close" % len(clears), "expand_mechdown_includes_recursive (mech)")
    other = [a for a in find(it["body"], "assign") if render(a[1]) == state and a not in nested_sets and a not in clears]
    rep.check(not other, "C20-R9", "no-other-state-writes", "the fence state is also written at %s" % [render(a)[:40] for a in other], "expand_mechdown_includes_recursive (mech)")
